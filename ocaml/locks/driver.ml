(* driver for the Locks model (C06): replays each program's events (one transaction) and prints the
   model's bookkeeping after every step; the python side compares it with the client's.
   input lines (tab separated):
     P id pess(0/1)
     E i set k | E i ins k | E i aggstart | aggretry | aggcancel | aggdone | rollback
     E i set k | E i del k | E i ins k
     E i quiet                     (audit step: background work is quiet = all pending tasks run; the store column is compared with the MVCC audit)
     E i lock ks rv ce loie f early locked absent lwc res expired   (ks/locked/absent: comma lists of hex ints, "-" = empty; early is ignored: predicted)
     E i commit mode(2pc|async|1pc) prewritten sync res(ok|pfail|cfail) unnecessary
     D          drain all pending tasks      D lost   ... except for the keys whose release never reached the store
     E i rollback lost     Rollback whose synchronous release of the keys lost did not complete
   output: R id i flags cnt agg cur prev rk valid ntasks store x(X = the expiry input mattered) primary keepalive(U|C|bound key) early(Y = the model predicts the key-exists error of the pre-loop) contract(H = wf_run and the contract of C06_tracked_keys_hold_locks held so far, h = not)      and after D:  F id store *)
let keys_of_str s = if s = "-" || s = "" then [] else List.map n_of_hex (String.split_on_char ',' s)
let str_of_keys l = if l = [] then "-" else String.concat "," (List.sort compare (List.map hex_of_n l))
let b s = s = "1"
let fail_of = function
  | "ok" -> None | "conflict" -> Some FConflict | "exists" -> Some FExists | "deadlock" -> Some FDeadlock
  | "timeout" -> Some FTimeout | "nowait" -> Some FNoWait | _ -> Some FOther
(* the extra contract of C06_tracked_keys_hold_locks (Contract.v), evaluated along the replay: [blk] = a LockKeys failed inside
   the running attempt; [inside] = wf_run and wf_run_heldb hold for the events so far *)
let blk = ref false and inside = ref true
let note (s : st) (e : ev) =
  let wf = match e with
    | ELock (_, _, _, _, f, _) -> s.valid && N.leb s.fu f
    | ECommit _ | ERollback | ERollbackLost _ -> not (pending s)
    | _ -> true in
  inside := !inside && wf && held_contractb !blk s e;
  blk := next_blocked !blk s e
let out ?(x = "-") ?(early = "-") id i (s : st) rk =
  let (a, c, p) = match s.agg with
    | Some a -> ("1", List.map fst a.cur, List.map fst a.prev) | None -> ("0", [], []) in
  Printf.printf "R\t%s\t%s\t%s\t%d\t%s\t%s\t%s\t%s\t%s\t%d\t%s\t%s\t%s\t%s\t%s\t%s\n" id i (str_of_keys s.flags) (int_of_z s.cnt) a
    (str_of_keys c) (str_of_keys p) rk (if s.valid then "1" else "0") (List.length s.tasks)
    (str_of_keys (List.map fst s.store)) x
    (match s.primary with Some p -> hex_of_n p | None -> "-")
    (match s.ka with KUninit -> "U" | KClosed -> "C" | KRunning k -> hex_of_n k) early (if !inside then "H" else "h")
let () =
  let cur = ref (init true) and id = ref "" in
  read_lines (fun line ->
    try
      match split_tab line with
      | ["P"; i; p] -> id := i; cur := init (b p); blk := false; inside := b p
      | "E" :: i :: "lock" :: ks :: rv :: ce :: loie :: f :: _observed_early :: locked :: absent :: lwc :: res :: rest ->
        let ex = (match rest with e :: _ -> b e | [] -> false) in
        let o = { lo_expired = ex; lo_locked = keys_of_str locked; lo_absent = keys_of_str absent;
                  lo_lwc = n_of_hex lwc; lo_res = fail_of res } in
        note !cur (ELock (keys_of_str ks, b rv, b ce, b loie, n_of_hex f, o));
        let (s', rk) = lock_keys_full (keys_of_str ks) (b rv) (b ce) (b loie) (n_of_hex f) o !cur in
        (* did the expiry input matter? (the same call with the other value sends other keys) *)
        let (_, rk') = lock_keys_full (keys_of_str ks) (b rv) (b ce) (b loie) (n_of_hex f) { o with lo_expired = not ex } !cur in
        (* the model predicts the key-exists error of the pre-loop (no request, nothing changes) *)
        let ks' = keys_of_str ks in
        let s1 = exit_agg ks' !cur in
        let early = if early_exists s1 ks' then "Y" else "N" in
        cur := s'; out ~x:(if rk <> rk' then "X" else "-") ~early !id i s' (str_of_keys rk)
      | "E" :: i :: "commit" :: mode :: pw :: sync :: res :: rest ->
        let o = { co_mode = (match mode with "async" -> MAsync | "1pc" -> M1PC | _ -> M2PC);
                  co_prewritten = keys_of_str pw; co_sync = keys_of_str sync;
                  co_unnecessary = (match rest with u :: _ -> keys_of_str u | [] -> []);
                  co_res = (match res with "ok" -> COk | "pfail" -> CPrewriteFail | _ -> CCommitFail) } in
        note !cur (ECommit o); cur := step !cur (ECommit o); out !id i !cur "-"
      | "E" :: i :: "rollback" :: lost :: _ ->
        note !cur (ERollbackLost (keys_of_str lost)); cur := step !cur (ERollbackLost (keys_of_str lost)); out !id i !cur "-"
      | "E" :: i :: "quiet" :: _ ->
        (* the client's background work went quiet (audit step): every pending task has run *)
        cur := drain (nat_of_int (List.length !cur.tasks + 1)) !cur; out !id i !cur "-"
      | "E" :: i :: op :: rest ->
        let e = match op, rest with
          | "set", k :: _ -> ESet (n_of_hex k) | "del", k :: _ -> EDel (n_of_hex k) | "ins", k :: _ -> EInsert (n_of_hex k)
          | "mark", k :: _ -> EMark (n_of_hex k)
          | "unmark", k :: _ -> EUnmark (n_of_hex k)
          | "aggstart", _ -> EAggStart | "aggretry", _ -> EAggRetry | "aggcancel", _ -> EAggCancel
          | "aggdone", _ -> EAggDone | "rollback", _ -> ERollback | "nop", _ -> ERun (nat_of_int 1000)
          | _ -> failwith ("bad op " ^ op) in
        note !cur e; cur := step !cur e; out !id i !cur "-"
      | ["D"] ->
        cur := drain (nat_of_int (List.length !cur.tasks + 1)) !cur;
        Printf.printf "F\t%s\t%s\t%d\n" !id (str_of_keys (List.map fst !cur.store)) (List.length !cur.tasks)
      | ["D"; lost] ->
        (* release requests naming the keys [lost] never reached the store: every pending task completes for its other keys only *)
        let lost = keys_of_str lost in
        let tkeys = function TPessRb (l, _) -> l | TCleanup l -> l | TCommitSec l -> l in
        List.iteri (fun n t ->
          cur := run_some (nat_of_int n) (List.filter (fun k -> not (List.mem k lost)) (tkeys t)) !cur) !cur.tasks;
        Printf.printf "F\t%s\t%s\t%d\n" !id (str_of_keys (List.map fst !cur.store)) 0
      | ["T"] ->
        (* the kill table of the model (Locks/Kill.v [interruptible]) under the client's command-type names *)
        let names = [CGet, "Get"; CPessLock, "PessimisticLock"; CPrewrite, "Prewrite"; CHeartBeat, "TxnHeartBeat";
                     CCheckTxnStatus, "CheckTxnStatus"; CResolveLock, "ResolveLock"; CPessRollback, "PessimisticRollback";
                     CBatchRollback, "BatchRollback"; CCommit, "Commit"] in
        print_endline ("T\ttable\t" ^ String.concat "\t" (List.map (fun (c, n) -> n ^ "=" ^ (if interruptible c then "1" else "0")) names))
      | [] | [""] -> ()
      | _ -> print_endline ("BAD\t" ^ line)
    with e -> print_endline ("EXC\t" ^ !id ^ "\t" ^ Printexc.to_string e ^ "\t" ^ line))
