(* driver for the Oracle models (property C13): reads the Go driver's lines on stdin, recomputes
   every result with the extracted models, evaluates the property oracles on the implementation's
   outputs, prints MISMATCH / PROPFAIL / FINDING / COUNT / STATS lines. *)
let zh = z_of_hex
let hz = hex_of_z
let ( <=! ) a b = zle a b
let ( <! ) a b = zlt a b
let zmax a b = if a <! b then b else a
let b01 b = if b then "1" else "0"
let nat_of i = nat_of_int i

let nmis = ref 0 and nprop = ref 0 and npf = ref 0 and ncases = ref 0 and nfind = ref 0
let counts : (string, int) Hashtbl.t = Hashtbl.create 64
let bump k = Hashtbl.replace counts k (1 + (try Hashtbl.find counts k with Not_found -> 0))
let distinct : (string, unit) Hashtbl.t = Hashtbl.create 4096
let cur_case : string list ref = ref []     (* input lines of the current case, newest first *)
let case_text () = String.concat "\\n" (List.rev !cur_case)
let mismatch line m =
  incr nmis; if !nmis <= 40 then print_endline ("MISMATCH\t" ^ String.concat " | " (split_tab line) ^ "\tmodel=" ^ m ^ "\tcase=" ^ case_text ())
let prop name ok line detail =
  incr nprop; bump ("P:" ^ name ^ (if ok then ":pass" else ":fail"));
  if not ok then begin incr npf; if !npf <= 40 then print_endline ("PROPFAIL\t" ^ name ^ "\t" ^ String.concat " | " (split_tab line) ^ "\t" ^ detail ^ "\tcase=" ^ case_text ()) end
let finding cls line detail =
  incr nfind; bump ("F:" ^ cls);
  if !nfind <= 10 then print_endline ("OUTOFDOMAIN\t" ^ cls ^ "\t" ^ String.concat " | " (split_tab line) ^ "\t" ^ detail ^ "\tcase=" ^ case_text ())

let split_res fields =
  let rec go acc l = match l with "=>" :: r -> (List.rev acc, r) | x :: r -> go (x :: acc) r | [] -> (List.rev acc, []) in
  go [] fields
let input_part line =
  let (a, _) = split_res (split_tab line) in String.concat "\t" a

let parse_pd s = if s = "err" then None else
  match String.split_on_char ',' s with [p; l] -> Some (zh p, zh l) | _ -> failwith "pd"
let tsres o = match o with Some ts -> "ok " ^ hz ts | None -> "err"
let in_range_pl p l = (Z0 <=! p) && (p <! zh "200000000000") && (Z0 <=! l) && (l <! two18)

(* ------------------------------------------------------------ class ar *)
let prev_compose : (z * z * z) option ref = ref None
let do_ar line args res =
  match args with
  | ["compose"; p; l] ->
      let p = zh p and l = zh l in
      let ts = compose_ts p l in
      let m = String.concat " " [hz ts; hz (extract_physical ts); hz (extract_logical ts)] in
      if m <> String.concat " " res then mismatch line m;
      (match res with
       | [its; ixp; ixl] when in_range_pl p l ->
           let its = zh its in
           prop "compose_roundtrip" (zeq (zh ixp) p && zeq (zh ixl) l) line "";
           (match !prev_compose with
            | Some (p0, l0, ts0) ->
                let lex_lt = (p0 <! p) || (zeq p0 p && (l0 <! l)) in
                let lex_eq = zeq p0 p && zeq l0 l in
                prop "compose_monotone" ((ts0 <! its) = lex_lt && (zeq ts0 its) = lex_eq) line ("prev " ^ hz ts0)
            | None -> ());
           prev_compose := Some (p, l, its)
       | _ -> prev_compose := None)
  | ["ext"; ts] ->
      let ts = zh ts in
      let m = hz (extract_physical ts) ^ " " ^ hz (extract_logical ts) in
      if m <> String.concat " " res then mismatch line m
  | ["tsub"; a; b] ->
      let m = hz (ts_time_sub (zh a) (zh b)) in
      if m <> String.concat " " res then mismatch line m
  | ["gotime"; ns] ->
      let m = hz (go_time_to_ts (zdiv (zh ns) (zh "f4240"))) in
      if m <> String.concat " " res then mismatch line m
  | _ -> ()

(* ------------------------------------------------------------ class seq *)
type seqst = {
  mutable st : (z * z) list;
  mutable enabled : bool;
  mutable alive : bool;
  futs : (string, z * (z * z) option) Hashtbl.t;
  mutable issuedl : z list;                 (* everything PD handed out in this case *)
  lastseen : (string, z) Hashtbl.t;         (* per normalised scope: last lowres the implementation showed *)
  floor : (string, z) Hashtbl.t;            (* per normalised scope: largest ts a completed call returned *)
  (* the CAS-level system for scope global, run one call after the other *)
  mutable sys : sys;
  pdtab : (int, z) Hashtbl.t;
  mutable nthreads : int;
  futthr : (string, int) Hashtbl.t;
}
let new_seq () = { st = []; enabled = true; alive = false; futs = Hashtbl.create 8; issuedl = []; lastseen = Hashtbl.create 4;
                   floor = Hashtbl.create 4; sys = init_sys (nat_of 400); pdtab = Hashtbl.create 64; nthreads = 0; futthr = Hashtbl.create 8 }
let sq = ref (new_seq ())
let nscope s = if s = "0" then "1" else s
let max_issued s = List.fold_left zmax Z0 s.issuedl
let sys_pd s = fun k -> (try Hashtbl.find s.pdtab (int_of_nat k) with Not_found -> Z0)
let sys_steps s t n = for _ = 1 to n do s.sys <- step (sys_pd s) s.sys (Ev (nat_of t)) done
(* start a call on the CAS-level system: invoke + receive PD's answer *)
let sys_invoke s scope pd =
  if nscope scope = "1" then begin
    let t = s.nthreads in s.nthreads <- t + 1;
    (match pd with
     | Some (p, l) ->
         Hashtbl.replace s.pdtab (int_of_nat s.sys.issued) (compose_ts p l);
         sys_steps s t 2
     | None -> sys_steps s t 1; s.sys <- step (sys_pd s) s.sys (EvFail (nat_of t)));
    Some t end else None
let sys_finish s t = match t with Some t -> sys_steps s t 8 | None -> ()
let note_issue s pd = match pd with Some (p, l) -> s.issuedl <- compose_ts p l :: s.issuedl | None -> ()
let note_return s scope r = match r with
  | Some ts -> let k = nscope scope in
      let f = (try Hashtbl.find s.floor k with Not_found -> Z0) in Hashtbl.replace s.floor k (zmax f ts)
  | None -> ()
let check_sys s line =
  (* the CAS-level model run sequentially publishes what the call-level model publishes *)
  let a = tsres (lowres s.sys) and b = tsres (get_last s.st (zh "1")) in
  if a <> b then mismatch line ("cas-level system " ^ a ^ " vs call-level " ^ b)

let vout_str o = match o with
  | VAccept -> "accept" | VReject c -> "reject " ^ hz c | VErrPD -> "errpd" | VErrRange -> "errrange" | VErrLatest -> "errlatest"

let do_seq line args res =
  let s = !sq in
  let cmp m = if m <> String.concat "\t" res then mismatch line m in
  match args with
  | "begin" :: _id :: en :: pd :: [] ->
      let s = new_seq () in sq := s; incr ncases;
      s.enabled <- (en = "1");
      let pd = parse_pd pd in
      note_issue s pd;
      let t = sys_invoke s "1" pd in
      let (st', r) = get_ts s.st (zh "1") pd in
      s.st <- st'; sys_finish s t; note_return s "1" r;
      s.alive <- (r <> None);
      cmp (b01 s.alive)
  | _ when not s.alive -> ()
  | ["G"; scope; pd] ->
      let pd = parse_pd pd in note_issue s pd;
      let t = sys_invoke s scope pd in
      let (st', r) = get_ts s.st (zh scope) pd in
      s.st <- st'; sys_finish s t; check_sys s line; note_return s scope r;
      cmp (tsres r);
      (match pd, res with
       | Some (p, l), [ir] when in_range_pl p l -> prop "passthrough" (ir = "ok " ^ hz (zadd (zmul p two18) l)) line ""
       | _ -> ())
  | ["A"; fid; scope; pd] ->
      let pd = parse_pd pd in note_issue s pd;
      Hashtbl.replace s.futs fid (zh scope, pd);
      (match sys_invoke s scope pd with Some t -> Hashtbl.replace s.futthr fid t | None -> ())
  | ["W"; fid] ->
      (match Hashtbl.find_opt s.futs fid with
       | Some (scope, pd) ->
           let (st', r) = get_ts s.st scope pd in
           s.st <- st'; sys_finish s (Hashtbl.find_opt s.futthr fid); check_sys s line; note_return s (hz scope) r;
           cmp (tsres r);
           (match pd, res with
            | Some (p, l), [ir] when in_range_pl p l -> prop "passthrough" (ir = "ok " ^ hz (zadd (zmul p two18) l)) line ""
            | _ -> ())
       | None -> ())
  | [("L" | "LA"); scope] ->
      cmp (tsres (get_last s.st (zh scope)));
      (match res with
       | [ir] when String.length ir > 3 && String.sub ir 0 3 = "ok " ->
           let v = zh (String.sub ir 3 (String.length ir - 3)) and k = nscope scope in
           (match Hashtbl.find_opt s.lastseen k with
            | Some p -> prop "lowres_monotone" (p <=! v) line ("previous " ^ hz p) | None -> ());
           Hashtbl.replace s.lastseen k v;
           prop "lowres_le_max_issued" (v <=! max_issued s) line ("max issued " ^ hz (max_issued s));
           prop "lowres_in_issued" (List.exists (fun x -> zeq x v) s.issuedl) line "";
           (match Hashtbl.find_opt s.floor k with
            | Some f -> prop "lowres_catches_up" (f <=! v) line ("a completed call returned " ^ hz f) | None -> ())
       | _ -> ())
  | ["X"; scope; lock; ttl] ->
      let last = get_last s.st (zh scope) and lock = zh lock and ttl = zh ttl in
      cmp (b01 (is_expired last lock ttl) ^ "\t" ^ hz (until_expired last lock ttl));
      (match res with
       | [e; un] ->
           let consistent = ((e = "1") = (zh un <=! Z0)) in
           (* exact domain guard of C13_expiry_consistent: TTL < 2^63 - physical(lockTS) *)
           if ttl <! zsub (zh "8000000000000000") (extract_physical lock) then prop "expiry_consistent" consistent line ""
           else begin
             bump "X:ttl>=2^63-phys(lock) (outside the domain)";
             if not consistent then finding "expiry_ttl_ge_2pow62_int64_overflow" line ("IsExpired=" ^ e ^ " UntilExpired=" ^ un)
           end
       | _ -> ())
  | ["V"; scope; read; stale; pd1; pd2] ->
      let pds = [parse_pd pd1; parse_pd pd2] and read = zh read in
      let issued_before = s.issuedl in
      let ((st', o), used) = validate_seq s.enabled s.st (zh scope) read (stale = "1") pds in
      s.st <- st';
      (* mirror the flights' GetTimestamp calls on the CAS-level system *)
      let usedn = int_of_nat used in
      List.iteri (fun idx pd -> if idx < usedn then begin let t = sys_invoke s scope pd in sys_finish s t end) pds;
      (* what PD has issued is taken from the implementation's own count of PD calls *)
      (match res with _ :: iused :: _ -> let iu = (try int_of_string iused with _ -> 0) in
         List.iteri (fun idx pd -> if idx < iu then note_issue s pd) pds | _ -> ());
      check_sys s line;
      cmp (vout_str o ^ "\t" ^ string_of_int usedn);
      (match res with
       | io :: iused :: _ ->
           (* the implementation consumed iused PD answers: those are issued when the call ends *)
           let iu = (try int_of_string iused with _ -> 0) in
           let after = List.fold_left zmax (List.fold_left zmax Z0 issued_before)
               (List.filteri (fun idx _ -> idx < iu) (List.filter_map (fun pd -> match pd with Some (p, l) -> Some (compose_ts p l) | None -> None) pds)) in
           if s.enabled && not (zeq read max_uint64) then begin
             if String.length io >= 6 && String.sub io 0 6 = "reject" then
               prop "validate_accept_complete" (not (List.exists (fun x -> read <=! x) issued_before)) line "a timestamp issued before the call was rejected"
             else if io = "accept" then
               prop "validate_reject_sound" (read <=! after) line ("accepted beyond max issued " ^ hz after)
           end
       | _ -> ())
  | ["S"; scope; prev; pd] ->
      let pd = parse_pd pd and prev = zh prev in
      (match res with _ :: iused :: _ -> if iused <> "0" then note_issue s pd | _ -> ());
      (match get_last s.st (zh scope), res with
       | None, ir :: iused :: _ ->
           let t = sys_invoke s scope pd in
           let (st', r) = get_ts s.st (zh scope) pd in
           s.st <- st'; sys_finish s t; check_sys s line;
           let m = (if r = None then "errpd" else "errscope") ^ "\t1" in
           if m <> ir ^ "\t" ^ iused then mismatch line m
       | Some last, ir :: iused :: _ ->
           let sec = zdiv (extract_physical last) (zh "3e8") in
           let m = if sec <=! prev then "errprev\t0" else "ok\t0" in
           let impl = (if String.length ir > 3 && String.sub ir 0 3 = "ok " then "ok" else ir) ^ "\t" ^ iused in
           if m <> impl then mismatch line m
       | _ -> ());
      (* bounds of the estimate, from the implementation's own cached value (4th result field) *)
      (match res with
       | ir :: _ :: slack :: ilr :: _ when String.length ir > 3 && String.sub ir 0 3 = "ok " && String.length ilr > 3 && String.sub ilr 0 3 = "ok " ->
           let phys = extract_physical (zh (String.sub ilr 3 (String.length ilr - 3))) in
           if (prev <! zh "200000000") && (phys <! zh "80000000000") then begin   (* time.Duration / UnixNano do not overflow *)
             let v = zh (String.sub ir 3 (String.length ir - 3)) in
             let lo = zsub phys (zmul prev (zh "3e8")) in
             let hi = zadd lo (zh slack) in
             let vp = extract_physical v in
             prop "stale_ts_bounds" ((lo <=! vp) && (vp <=! hi) && zeq (extract_logical v) Z0) line ("expected physical in [" ^ hz lo ^ "," ^ hz hi ^ "]")
           end else bump "S:overflow-skip"
       | _ -> ())
  | ["M"; pd] ->
      (* pass-through of PD's GetMinTS: exactly compose(p,l), the cached timestamps are not touched *)
      cmp (match parse_pd pd with Some (p, l) -> "ok " ^ hz (compose_ts p l) | None -> "err")
  | ["E"; ts] ->
      (* pass-through of PD's external timestamp cell (the scripted PD refuses 0) *)
      let v = zh ts in
      if zeq v Z0 then cmp ("0\t" ^ (match Hashtbl.find_opt s.lastseen "ext" with Some e -> "ok " ^ hz e | None -> "ok 0"))
      else begin Hashtbl.replace s.lastseen "ext" v; cmp ("1\tok " ^ hz v) end
  | ["I"; ns] -> cmp (b01 (Z0 <! zh ns))
  | _ -> ()

(* ------------------------------------------------------------ class sf *)
type sfst = { mutable vs : vsys; mutable modeE : bool; mutable base : z; mutable stride : z;
              begk : (int, int * string) Hashtbl.t; mutable nsp : int; reported : (int, unit) Hashtbl.t;
              excused : (int, unit) Hashtbl.t   (* validators whose own ctx was cancelled, or that were unfinished when PD was made to fail *) }
let sfs = ref { vs = init_vsys (nat_of 8); modeE = true; base = Z0; stride = Z0; begk = Hashtbl.create 8; nsp = 0; reported = Hashtbl.create 8; excused = Hashtbl.create 8 }
let sf_pd s = fun k -> zadd s.base (zmul (z_of_int (int_of_nat k)) s.stride)
let sf_ev s e = s.vs <- vstep (sf_pd s) true s.vs e
let sf_quiesce s =
  let changed = ref true in
  while !changed do
    let before = s.vs in
    for t = 0 to 7 do sf_ev s (EStep (nat_of t)) done;
    changed := (before <> s.vs)
  done;
  if s.modeE then (match s.vs.flight with Some f when f.fts = None -> sf_ev s EFlightIssue | _ -> ())
let sf_release s ok =
  match s.vs.flight with
  | None -> ()
  | Some f ->
      if f.fts = None then sf_ev s EFlightIssue;
      if ok then begin
        (match s.vs.flight with Some { fts = Some i; _ } -> sf_ev s (EPublish i) | _ -> ());
        sf_ev s EFlightFinish end
      else sf_ev s EFlightFail;
      sf_quiesce s
let sf_state s =
  let outs = List.init s.nsp (fun t -> match voutcome_of s.vs (nat_of t) with
    | Some OAccept -> "accept" | Some (OReject c) -> "reject " ^ hz c | Some OErr -> "errpd"
    | Some OErrRange -> "errrange" | Some OErrLatest -> "errlatest" | None -> "blocked") in
  String.concat ";" outs ^ "\t" ^ tsres s.vs.vlast ^ "\t" ^ string_of_int (int_of_nat s.vs.vk) ^ "\t0"   (* the flight's fetch is issued under no caller's context: PD never sees a cancelled one *)
let sf_impl_k = ref 1    (* the implementation's PD counter after the previous step *)
let do_sf line args res =
  let s = !sfs in
  let remember_k () = (match res with _ :: _ :: ik :: _ -> (try sf_impl_k := int_of_string ik with _ -> ()) | _ -> ()) in
  let after_step () =
    let m = sf_state s in
    if m <> String.concat "\t" res then mismatch line m;
    (* property oracles on the implementation's outcomes *)
    (match res with
     | outs :: _ when outs <> "timeout" ->
         List.iteri (fun t o ->
           if o <> "blocked" && not (Hashtbl.mem s.reported t) then begin
             Hashtbl.replace s.reported t ();
             match Hashtbl.find_opt s.begk t with
             | Some (bk, read) ->
                 let read = zh read in
                 let kend = (match res with _ :: _ :: ik :: _ -> (try int_of_string ik with _ -> 0) | _ -> 0) in
                 (* a caller whose own context is alive and that saw no PD failure: a read ts issued before its call is accepted *)
                 if not (Hashtbl.mem s.excused t) && bk > 0 && (read <=! sf_pd s (nat_of (bk - 1))) then
                   prop "validate_live_ctx_accepts" (o = "accept") line ("validator " ^ string_of_int t ^ " (own ctx alive, no PD failure) returned " ^ o);
                 if String.length o >= 6 && String.sub o 0 6 = "reject" then
                   prop "validate_accept_complete" (bk = 0 || (sf_pd s (nat_of (bk - 1)) <! read)) line ("validator " ^ string_of_int t ^ " began after " ^ string_of_int bk ^ " timestamps were issued")
                 else if o = "accept" && not (zeq read max_uint64) then
                   prop "validate_reject_sound" (kend > 0 && (read <=! sf_pd s (nat_of (kend - 1)))) line ("validator " ^ string_of_int t)
             | None -> ()
           end) (String.split_on_char ';' outs)
     | _ -> mismatch line "harness timeout") in
  (match args with
  | ["begin"; _id; mode; base; stride] ->
      incr ncases; sf_impl_k := 1;
      let s = { vs = init_vsys (nat_of 8); modeE = (mode <> "" && mode.[0] = 'E'); base = zh base; stride = zh stride; begk = Hashtbl.create 8; nsp = 0; reported = Hashtbl.create 8; excused = Hashtbl.create 8 } in
      sfs := s;
      (* the constructor fetches pd(0) for the global scope; a never-used scope (mode suffix f) has nothing cached *)
      sf_ev s EIssueEnv;
      if not (String.length mode >= 2 && mode.[String.length mode - 1] = 'f') then sf_ev s (EPublish O);
      bump ("sf:scope:" ^ (if String.length mode >= 2 then "fresh" else "global"))
  | ["issue"] -> sf_ev s EIssueEnv; after_step ()
  | ["publish"] -> let i = s.vs.vk in sf_ev s EIssueEnv; sf_ev s (EPublish i); after_step ()
  | ["spawn"; _t; read; stale] ->
      let t = s.nsp in s.nsp <- t + 1;
      Hashtbl.replace s.begk t (!sf_impl_k, read);
      sf_ev s (EBegin (nat_of t, zh read, stale = "1")); sf_quiesce s; after_step ()
  | ["release"; r] ->
      if r <> "ok" then for t = 0 to s.nsp - 1 do if not (Hashtbl.mem s.reported t) then Hashtbl.replace s.excused t () done;
      sf_release s (r = "ok"); after_step ()
  | ["cancel"; t] -> Hashtbl.replace s.excused (int_of_string t) ();
      sf_ev s (ECancel (nat_of (int_of_string t))); sf_quiesce s; after_step ()
  | ["end"] -> while s.vs.flight <> None do sf_release s true done; after_step ()
  | _ -> ());
  remember_k ()

(* ------------------------------------------------------------ class cw *)
let expected_fuel ms =
  (* BoCommitTSLag: base 2ms, cap 500ms, no jitter; the Backoffer refuses once the total reaches maxSleep ms; 0 = no limit *)
  if ms <= 0 then max_int else begin
    let total = ref 0 and n = ref 0 and cur = ref 2 in
    while !total < ms do total := !total + !cur; cur := min 500 (!cur * 2); incr n done; !n end
let do_cw line args res =
  match args, res with
  | [regs; tons; script], ir :: icalls :: ieff ->
      incr ncases;
      let regs = List.map zh (String.split_on_char ',' regs) in
      (* the constraint in effect = maximum over the registration sequence (model: cw_bound) *)
      let bound = cw_bound regs and tons = zh tons in
      (match ieff with e :: _ -> if hz bound <> e then mismatch line ("constraint in effect " ^ hz bound) | [] -> ());
      let sc = if script = "-" then [] else List.map (fun x -> if x = "err" then None else Some (zh x)) (String.split_on_char ',' script) in
      let calls = int_of_string icalls in
      (* relational: the fuel is the number of back-offs the implementation was granted *)
      let sc' = sc @ [None] in
      let (r, c) = commit_wait bound tons (nat_of (max 0 (calls - 1))) sc' in
      let kind = if String.length ir > 3 && String.sub ir 0 3 = "ok " then ir else "err" in
      let m = (match r with CwOk ts -> "ok " ^ hz ts | CwErr -> "err") ^ "\t" ^ string_of_int (int_of_nat c) in
      if m <> kind ^ "\t" ^ icalls then mismatch line m;
      (* the budget itself: with a long enough script the number of granted back-offs is determined *)
      let ms = int_of_z (zdiv tons (zh "f4240")) in
      let (r2, c2) = commit_wait bound tons (nat_of (min 64 (expected_fuel ms))) sc' in
      let m2 = (match r2 with CwOk ts -> "ok " ^ hz ts | CwErr -> "err") ^ "\t" ^ string_of_int (int_of_nat c2) in
      if m2 <> kind ^ "\t" ^ icalls then mismatch line ("with the Backoffer's budget: " ^ m2);
      if kind <> "err" then begin
        let ts = zh (String.sub ir 3 (String.length ir - 3)) in
        prop "commit_wait_gt_bound" (List.for_all (fun r -> r <! ts) regs) line "greater than every registered value";
        prop "commit_wait_is_pd_ts" (List.exists (fun x -> match x with Some y -> zeq y ts | None -> false) sc) line ""
      end else bump ("cw:" ^ ir)
  | _ -> ()

(* ------------------------------------------------------------ class lo *)
let lost = ref (Z0, Z0) and lo_prev : (z * z) option ref = ref None
let do_lo line args res =
  let cmp m = if m <> String.concat "\t" res then mismatch line m in
  let ms ns = zdiv (zh ns) (zh "f4240") in
  match args with
  | ["begin"] -> incr ncases; lost := (Z0, Z0); lo_prev := None
  | ["G"; ns] ->
      let (st', ts) = local_get_ts !lost (ms ns) in
      lost := st'; cmp ("ok " ^ hz ts);
      (match res with
       | [ir] when String.length ir > 3 ->
           let v = zh (String.sub ir 3 (String.length ir - 3)) in
           (match !lo_prev with
            | Some (pns, pv) when pns <=! zh ns -> prop "local_strictly_increasing" (pv <! v) line ("previous " ^ hz pv)
            | _ -> ());
           lo_prev := Some (zh ns, v)
       | _ -> ())
  | ["X"; ns; lock; ttl] ->
      cmp (b01 (local_is_expired (zh ns) (zh lock) (zh ttl)) ^ "\t" ^ hz (local_until_expired (zh ns) (zh lock) (zh ttl)));
      (match res with [e; un] -> prop "local_expiry_consistent" ((e = "1") = (zh un <=! Z0)) line "" | _ -> ())
  | _ -> ()

(* ------------------------------------------------------------ class iv / sl *)
let ist_of n = match n with 1 -> ISNormal | 2 -> ISAdapting | 3 -> ISRecovering | 4 -> ISUnadjustable | _ -> ISNone
let int_of_ist s = match s with ISNone -> 0 | ISNormal -> 1 | ISAdapting -> 2 | ISRecovering -> 3 | ISUnadjustable -> 4
let zmin a b = if a <! b then a else b
let inv_ok cfg ada = (Z0 <! cfg) && (zmin min_interval cfg <=! ada) && (ada <=! cfg)
let do_iv line args res =
  incr ncases;
  let cmp m = if m <> String.concat "\t" res then mismatch line m in
  match args with
  | ["next"; cfg; ada; ls; lt; st; now; req] ->
      let cfg = zh cfg and ada = zh ada and now = zh now and req = zh req and lt = zh lt in
      let s = { cfg = cfg; ada = ada; last_short_ms = zh ls; last_tick = lt; istt = ist_of (int_of_string st) } in
      let (s', ret) = next_interval s now req in
      cmp (hz ret ^ "\t" ^ hz s'.ada ^ "\t" ^ string_of_int (int_of_ist s'.istt));
      (match res with
       | [_; ia; ist'] when inv_ok cfg ada && (lt <=! now) ->
           let ia = zh ia in
           prop "interval_within_bounds" (inv_ok cfg ia) line "";
           if (min_interval <! cfg) && not (zeq req Z0) && (req <! ada) && (min_interval <! ada) then
             prop "interval_shrinks_in_one_step" ((ia <! ada) && (min_interval <=! ia) && ist' = "2" && zeq ia (zmax (zsub req (zh "5f5e100")) min_interval)) line ""
       | _ -> ())
  | ["set"; cfg; ada; nw] ->
      let cfg = zh cfg and ada = zh ada and nw = zh nw in
      let s = { cfg = cfg; ada = ada; last_short_ms = Z0; last_tick = Z0; istt = ISNone } in
      (match set_interval s nw with
       | None -> cmp ("0\t" ^ hz cfg ^ "\t" ^ hz ada)
       | Some s' -> cmp ("1\t" ^ hz s'.cfg ^ "\t" ^ hz s'.ada));
      (match res with
       | ["1"; ic; ia] when inv_ok cfg ada -> prop "interval_within_bounds" (inv_ok (zh ic) (zh ia) && zeq (zh ic) nw) line ""
       | _ -> ())
  | ["adj"; cfg; ada; ls; read; cur; now] ->
      let s = { cfg = zh cfg; ada = zh ada; last_short_ms = zh ls; last_tick = Z0; istt = ISNone } in
      let (s', sent) = adjust s (zh read) (zh cur) (zh now) in
      cmp (hz s'.last_short_ms ^ "\t" ^ (match sent with Some d -> hz d | None -> "0"))
  | _ -> ()
let do_sl line args res =
  incr ncases;
  match res with
  | [ir; tso; prev; before; arr; after] ->
      let tso = zh tso and prev = zh prev and before = zh before and arr = zh arr and after = zh after in
      let lo = stale_ts tso arr before prev and hi = stale_ts tso arr after prev in
      (match lo, hi with
       | None, _ | _, None -> if ir <> "errprev" then mismatch line "errprev"
       | Some l, Some h ->
           if String.length ir > 3 && String.sub ir 0 3 = "ok " then begin
             let v = zh (String.sub ir 3 (String.length ir - 3)) in
             (* the clock reading inside the call lies between the two readings taken around it; the model is monotone in it *)
             if not ((l <=! v) && (v <=! h)) then mismatch line ("ok in [" ^ hz l ^ "," ^ hz h ^ "]");
             prop "stale_logical_zero" (zeq (extract_logical v) Z0) line "";
             if (arr <=! before) && (zsub after arr <=! zmul prev (zh "3b9aca00")) then
               prop "stale_le_last_when_fresh" (v <=! tso) line ""
           end else mismatch line ("ok in [" ^ hz l ^ "," ^ hz h ^ "]"))
  | _ -> ()

(* ------------------------------------------------------------ class tx: Commit under a commit-wait constraint *)
let do_tx line args res =
  incr ncases;
  match args, res with
  | [mode; causal; _; _; _], ir :: bound :: start :: _ ->
      bump ("tx:mode" ^ mode ^ ":causal" ^ causal ^ ":" ^ (if ir = "err" then "err" else "ok"));
      if ir <> "err" then begin
        let ts = zh (String.sub ir 3 (String.length ir - 3)) in
        prop "commit_ts_gt_constraint" (zh bound <! ts) line ("commit ts " ^ hz ts ^ " constraint " ^ bound ^ " start ts " ^ start)
      end
  | _ -> ()

(* ------------------------------------------------------------ classes tc / kv: consumers, fully scripted PD *)
let split_hex s = if s = "-" || s = "" then [] else String.split_on_char ',' s
let do_tc line args res =
  incr ncases;
  match args, res with
  | [mode; causal; _; toms; _; step], [ir; start; regs; ireqmin; pdlog; _; _] ->
      let start = zh start and regs = List.map zh (split_hex regs) in
      let inc = zadd (zmul (zh step) two18) (zh "1") in
      (* predicted PD answers after the start ts: an arithmetic progression *)
      let script = List.init 64 (fun j -> Some (zadd start (zmul (z_of_int (j + 1)) inc))) in
      let ms = int_of_string ("0x" ^ toms) in
      let fuel = nat_of (min 62 (expected_fuel ms)) in
      let m = (match mode with "1" -> MAsync | "2" -> M1PC | _ -> M2PC) in
      let ((r, reqmin), calls) = commit_txn true (fun x -> x) m (causal = "1") start regs (zmul (z_of_int ms) (zh "f4240")) fuel script in
      let ncalls = int_of_nat calls in
      let pred_log = String.concat "," (List.filteri (fun j _ -> j < ncalls) (List.map (fun x -> match x with Some t -> hz t | None -> "err") script)) in
      let mstr = (match r with Some t -> "ok " ^ hz t | None -> "err") ^ "\t" ^ hz reqmin ^ "\t" ^ (if ncalls = 0 then "-" else pred_log) in
      if mstr <> ir ^ "\t" ^ ireqmin ^ "\t" ^ pdlog then mismatch line mstr;
      bump ("tc:mode" ^ mode ^ ":causal" ^ causal ^ ":" ^ (if ir = "err" then "err" else "ok") ^ ":pdcalls" ^ string_of_int (List.length (split_hex pdlog)));
      (* oracles on the implementation's outputs *)
      if ir <> "err" then begin
        let ts = zh (String.sub ir 3 (String.length ir - 3)) in
        prop "commit_ts_gt_constraint" (List.for_all (fun x -> x <! ts) regs && (Z0 <! ts)) line "greater than every registered value";
        if mode <> "0" && List.exists (fun x -> Z0 <! x) regs then begin
          let rm = zh ireqmin in
          prop "min_commit_ts_gt_constraint" (List.for_all (fun x -> x <! rm) regs) line ("prewrite carried min_commit_ts " ^ ireqmin);
          prop "min_commit_ts_from_pd" (List.exists (fun x -> x <> "err" && zeq (zadd (zh x) (zh "1")) rm) (split_hex pdlog)) line ""
        end
      end
  | _ -> ()
let do_kv line args res =
  incr ncases;
  match args, res with
  | [_op; fails], [ir; expect; icalls] ->
      let fails = int_of_string fails and calls = int_of_string icalls and expect = zh expect in
      let answers = List.init (min fails 64) (fun _ -> None) @ [Some expect] in
      let (r, c) = ts_with_retry (nat_of (max 0 (calls - 1))) answers O in
      let m = (match r with Some t -> "ok " ^ hz t | None -> "err") ^ "\t" ^ string_of_int (int_of_nat c) in
      if m <> ir ^ "\t" ^ icalls then mismatch line m;
      if ir <> "err" then prop "retry_returns_first_answer" (ir = "ok " ^ hz expect && calls = fails + 1) line ""
      else prop "retry_gives_up_only_after_budget" (calls >= 6 && calls <= fails) line ("calls " ^ icalls)
  | _ -> ()

(* ------------------------------------------------------------ class lp: the updateTS loop end to end *)
let lps = ref (init_lstate (zh "1") Z0)
let lp_before = ref Z0
let do_lp line args res =
  let ms x = zmul (z_of_int x) (zh "f4240") in
  let now = zh "de0b6b3a7640000" in
  match args, res with
  | [cfg; _steps], [] -> incr ncases; lps := init_lstate (ms (int_of_string ("0x" ^ cfg))) Z0
  | "state" :: _, [ic; ia; _] ->
      let m = hz !lps.li.cfg ^ "\t" ^ hz !lps.li.ada in
      if m <> ic ^ "\t" ^ ia then mismatch line m
  | ["step"; st], ic :: ia :: slack :: _ ->
      let v = int_of_string (String.sub st 1 (String.length st - 1)) in
      let before = !lps.li.ada and cfgb = !lps.li.cfg in
      (match st.[0] with
       | 'v' ->
           (* PD's present has physical part P, the read ts lies v ms before it *)
           let p = 10000000 in
           lps := lstep !lps (LAdjust (compose_ts (z_of_int (p - v)) Z0, compose_ts (z_of_int p) Z0, now));
           if !lps.lch <> None then lps := lstep !lps (LRecv (now, now, now))
       | 's' -> lps := lstep !lps (LSet (ms v))
       | _ -> ());
      let m = hz !lps.li.cfg ^ "\t" ^ hz !lps.li.ada in
      if m <> ic ^ "\t" ^ ia then begin
        (* a tick of the updater refreshed the cache between the driver's PD step and the validation: the staleness is
           then estimated from the cached record and includes the time since its arrival (<= the step's wall time) *)
        let d = zsub (zh ia) !lps.li.ada in
        if st.[0] = 'v' && hz !lps.li.cfg = ic && (Z0 <! d) && (d <=! zh slack) && zeq !lps.li.ada (zsub (ms v) (zh "5f5e100")) then begin
          bump "lp:estimate-path"; lps := { !lps with li = { !lps.li with ada = zh ia }; lcur = zh ia }
        end else mismatch line m
      end;
      bump ("lp:" ^ String.make 1 st.[0]);
      (* oracles on the running loop *)
      prop "interval_within_bounds" (inv_ok (zh ic) (zh ia)) line "";
      if st.[0] = 'v' && v > 0 && (ms v <! before) && (min_interval <! before) && (min_interval <! cfgb) then
        prop "interval_shrinks_in_one_step" ((zh ia <! before) && (min_interval <=! zh ia)) line ("from " ^ hz before)
  | _ -> ()

let () =
  let nlines = ref 0 in
  read_lines (fun line ->
    if line <> "" then begin
    let fields = split_tab line in
    let (args, res) = split_res fields in
    incr nlines;
    match args with
    | "P" :: name :: rest ->
        let verdict = List.nth rest (List.length rest - 1) in
        prop name (verdict = "pass") line ""
    | cls :: rest ->
        let starts = (match rest with "begin" :: _ -> true | _ -> cls = "cw" || cls = "ar" || cls = "bg" || cls = "st" || cls = "mo" || cls = "iv" || cls = "sl" || cls = "fs" || cls = "rf" || cls = "tx" || cls = "tc" || cls = "kv"
                      || (cls = "lp" && (match rest with ("state" | "step") :: _ -> false | _ -> true))) in
        if starts then cur_case := [];
        cur_case := input_part line :: !cur_case;
        bump (cls ^ ":" ^ (match rest with op :: _ when cls <> "cw" && cls <> "sl" && cls <> "tc" -> op | _ -> ""));
        if res <> [] && cls <> "bg" && cls <> "st" && cls <> "fs" && cls <> "rf" then Hashtbl.replace distinct (cls ^ (String.concat "\t" (List.tl args)) ^ "=>" ^ String.concat "\t" res) ();
        (try
          (match cls with
           | "ar" -> do_ar line rest res
           | "seq" -> do_seq line rest res
           | "sf" -> do_sf line rest res
           | "cw" -> do_cw line rest res
           | "lo" -> do_lo line rest res
           | "tx" -> do_tx line rest res
           | "tc" -> do_tc line rest res
           | "kv" -> do_kv line rest res
           | "lp" -> do_lp line rest res
           | "iv" -> do_iv line rest res
           | "sl" -> do_sl line rest res
           | _ -> ())
        with e -> mismatch line ("model-exception " ^ Printexc.to_string e))
    | [] -> ()
    end);
  Hashtbl.iter (fun k v -> Printf.printf "COUNT\t%s\t%d\n" k v) counts;
  Printf.printf "STATS\tlines=%d\tcases=%d\tprops=%d\tpropfail=%d\tmismatch=%d\tfindings=%d\tdistinct=%d\n"
    !nlines !ncases !nprop !npf !nmis !nfind (Hashtbl.length distinct)
