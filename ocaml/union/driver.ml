(* driver for the Union model (C07): replays the Go driver's transcript on the extracted model
   (faithful buffer: in-place overwrite on, flags, Len/Size, limits, write sequence number) and prints
   every result that differs. *)
let kvs_string (l : (n list * n list) list) : string =
  if l = [] then "-" else
  String.concat "," (List.map (fun (k, v) -> hex_of_bytes k ^ ":" ^ hex_of_bytes v) l)

let parse_kvs (s : string) : (n list * n list) list =
  if s = "-" then [] else
  List.map (fun e -> match String.split_on_char ':' e with
    | [k; v] -> (bytes_of_hex k, bytes_of_hex v)
    | _ -> failwith "parse_kvs") (String.split_on_char ',' s)

let parse_fops (s : string) : nat list =
  if s = "-" then [] else List.map (fun x -> nat_of_int (int_of_string x)) (String.split_on_char ',' s)

let dec_of_n (x : n) : string = string_of_int (int_of_n x)

let () =
  let snap = ref [] and yst = ref ybuf_empty and target = ref "" and prev_wseq = ref N0 in
  let pst = ref (pbuf_empty []) in
  let snap_seq : n option ref = ref None in
  let sit : (n list * n list) list ref = ref [] in
  let sit_seq : n ref = ref N0 in
  let cps : (string, nat) Hashtbl.t = Hashtbl.create 16 in
  let n = ref 0 and mism = ref 0 and progs = ref 0 in
  let counts = Hashtbl.create 64 in
  let bump k = Hashtbl.replace counts k (1 + (try Hashtbl.find counts k with Not_found -> 0)) in
  let status s = match int_of_nat s with 0 -> "ok" | 1 -> "err" | 2 -> "panic" | 3 -> "entrytoolarge" | 4 -> "txntoolarge" | _ -> "keytoolarge" in
  read_lines (fun line ->
    match split_tab line with
    | "PROG" :: _ :: tg :: sn :: _ ->
        incr progs; target := tg; snap := parse_kvs sn; yst := ybuf_empty; pst := pbuf_empty []; snap_seq := None; Hashtbl.reset cps
    | "M" :: pid :: dir :: ds :: ss :: fd :: fs :: "=>" :: res :: _ ->
        (* UnionIter driven directly: the model's cursor machine on the same two lists *)
        let (l, errd) = union_iter_f (dir = "rev") (nat_of_int (int_of_string fd)) (nat_of_int (int_of_string fs)) (parse_kvs ds) (parse_kvs ss) in
        let m = l in
        incr n; incr progs; bump ("merge:" ^ dir);
        (* exact prediction: the yielded entries and whether (and hence where) the inner iterator's error surfaced *)
        let ok = (kvs_string l ^ (if errd then "|err" else "")) = res in
        if not ok then begin
          incr mism;
          if !mism <= 50 then print_endline ("MISMATCH\t" ^ pid ^ "\t0\tmerge\timpl=" ^ res ^ "\tmodel=" ^ kvs_string m ^ (if errd then "|err" else ""))
        end
    | "O" :: pid :: idx :: kind :: rest ->
        let rec split acc l = match l with "=>" :: r -> (List.rev acc, r) | x :: r -> split (x :: acc) r | [] -> (List.rev acc, []) in
        let (args, res) = split [] rest in
        let impl = String.concat " " res in
        let a i = List.nth args i in
        let st = ref !yst.y_x in
        let apply o = prev_wseq := !yst.y_x.x_wseq; let (s', r) = ystep !yst o in yst := s'; st := s'.y_x; status r in
        let b () = !st.x_b in
        let papply o = let (s', r) = pstep !pst o in pst := s'; status r in
        let m = (try
          if !target = "pipe" then begin
            match kind with
            | "set" -> papply (PSet (bytes_of_hex (a 0), bytes_of_hex (a 1)))
            | "del" -> papply (PDel (bytes_of_hex (a 0)))
            | "get" -> (match pu_get !snap !pst (bytes_of_hex (a 0)) with Some v -> "v " ^ hex_of_bytes v | None -> "nf")
            | "bget" ->
                let keys = List.map bytes_of_hex (String.split_on_char ',' (a 0)) in
                let (handed, r) = pu_batch_get !snap !pst keys in
                ignore (papply (PBatchGet keys));
                let hs = if handed = [] then "none" else String.concat "," (List.map hex_of_bytes handed) in
                "handed=" ^ hs ^ "|res=" ^ kvs_string r
            | "staging" -> let h = int_of_nat (staging_handle !pst.p_mem) in ignore (papply PStaging); "h " ^ string_of_int h
            | "release" -> papply (PRelease (nat_of_int (int_of_string (a 0))))
            | "cleanup" -> papply (PCleanup (nat_of_int (int_of_string (a 0))))
            | "iter" -> "err"   (* not supported by the pipelined buffer *)
            | "flush" -> papply PFlush
            | "fdone" -> papply PFlushDone
            | "fwait" -> papply PFlushWait
            | _ -> "unknown-op"
          end else
          match kind with
          | "set" -> apply (XWrite (bytes_of_hex (a 0), bytes_of_hex (a 1), parse_fops (a 2)))
          | "del" -> apply (XDelete (bytes_of_hex (a 0), parse_fops (a 1)))
          | "uflags" -> apply (XFlags (bytes_of_hex (a 0), parse_fops (a 1)))
          | "limits" -> apply (XLimits (n_of_hex (a 0), n_of_hex (a 1)))
          | "stale" -> if !st.x_wseq = !prev_wseq then "ok" else "panic"
          | "get" -> (match m_get !snap (b ()) (bytes_of_hex (a 0)) with
                      | Some v -> "v " ^ hex_of_bytes v | None -> "nf")
          | "bget" ->
              let keys = List.map bytes_of_hex (String.split_on_char ',' (a 0)) in
              let (handed, r) = m_batch_get !snap (b ()) keys in
              let hs = if handed = [] then "none" else String.concat "," (List.map hex_of_bytes handed) in
              let hs = if !target = "txn" then "?" else hs in
              "handed=" ^ hs ^ "|res=" ^ kvs_string r
          | "iter" -> kvs_string (m_iter !snap (b ()) (bytes_of_hex (a 0)) (bytes_of_hex (a 1)))
          | "riter" -> kvs_string (m_iter_rev !snap (b ()) (bytes_of_hex (a 0)) (bytes_of_hex (a 1)))
          | "gflags" -> (match x_get_flags !st (bytes_of_hex (a 0)) with Some f -> "f " ^ dec_of_n f | None -> "nf")
          | "dirty" -> if !yst.y_dirty then "true" else "false"
          | "sseq" -> dec_of_n !yst.y_sseq
          | "len" -> "len " ^ dec_of_n !st.x_len ^ " size " ^ dec_of_n !st.x_size
          | "iterf" | "riterf" ->
              let l = x_iter_flags !st (bytes_of_hex (a 0)) (bytes_of_hex (a 1)) in
              let l = if kind = "riterf" then List.rev l else l in
              if l = [] then "-" else
              String.concat "," (List.map (fun ((k, f), v) ->
                hex_of_bytes k ^ ":" ^ dec_of_n f ^ ":" ^ (match v with Some v -> hex_of_bytes v | None -> "nil")) l)
          | "sget" -> (match x_snap_get !st (bytes_of_hex (a 0)) with Some v -> "v " ^ hex_of_bytes v | None -> "nf")
          | "sitnew" ->
              sit := (if a 2 = "rev" then x_snap_iter_rev !st (bytes_of_hex (a 0)) (bytes_of_hex (a 1))
                      else x_snap_iter !st (bytes_of_hex (a 0)) (bytes_of_hex (a 1)));
              sit_seq := !yst.y_sseq; "ok"
          | "sitclose" -> sit := []; "ok"
          | "sitnext" ->
              (* the open iterator yields the view of its creation, whatever was written since *)
              let rec take k l = if k = 0 then ([], l) else match l with [] -> ([], []) | x :: r -> let (a, b) = take (k - 1) r in (x :: a, b) in
              if !target <> "rbt" && !sit_seq <> !yst.y_sseq then begin sit := []; "-|invalid" end else begin
              let (got, rest) = take (int_of_string (a 0)) !sit in
              sit := rest;
              kvs_string got ^ (if rest = [] then "|end" else "") end
          | "snapnew" -> snap_seq := Some !yst.y_sseq; "ok"
          | "snapget" ->
              if !snap_seq <> Some !yst.y_sseq then "invalid" else
              (match x_snap_get !st (bytes_of_hex (a 0)) with Some v -> "v " ^ hex_of_bytes v | None -> "nf")
          | "snapscan" ->
              if !snap_seq <> Some !yst.y_sseq then "invalid" else
              if a 2 = "rev" then kvs_string (x_snap_iter_rev !st (bytes_of_hex (a 0)) (bytes_of_hex (a 1)))
              else kvs_string (x_snap_iter !st (bytes_of_hex (a 0)) (bytes_of_hex (a 1)))
          | "sbget" ->
              let keys = List.map bytes_of_hex (String.split_on_char ',' (a 0)) in
              let (handed, r) = x_snap_batch_get !snap !st keys in
              let hs = if handed = [] then "none" else String.concat "," (List.map hex_of_bytes handed) in
              let hs = if !target = "txn" then "?" else hs in
              "handed=" ^ hs ^ "|res=" ^ kvs_string r
          | "siter" -> kvs_string (x_snap_iter !st (bytes_of_hex (a 0)) (bytes_of_hex (a 1)))
          | "sriter" -> kvs_string (x_snap_iter_rev !st (bytes_of_hex (a 0)) (bytes_of_hex (a 1)))
          | "hist" -> (match x_history !st (bytes_of_hex (a 0)) with
                       | [] -> "nf" | l -> "h " ^ String.concat "," (List.map hex_of_bytes l))
          | "inspect" ->
              let l = x_inspect_stage !st (nat_of_int (int_of_string (a 0))) in
              if l = [] then "-" else
              String.concat "," (List.map (fun ((k, f), v) -> hex_of_bytes k ^ ":" ^ dec_of_n f ^ ":" ^ hex_of_bytes v) l)
          | "staging" -> let h = int_of_nat (staging_handle (b ())) in ignore (apply XStaging); "h " ^ string_of_int h
          | "release" -> apply (XRelease (nat_of_int (int_of_string (a 0))))
          | "cleanup" -> apply (XCleanup (nat_of_int (int_of_string (a 0))))
          | "cp" -> Hashtbl.replace cps (a 0) (checkpoint_pos (b ())); apply XCheckpoint
          | "revert" ->
              let n' = Hashtbl.find cps (a 0) in
              (* the model decides whether this revert is legal; the harness must only execute legal ones *)
              if not (revert_legalb (b ()) n') then "illegal-revert-executed-by-the-harness" else apply (XRevert n')
          | _ -> "unknown-op"
        with e -> "model-exception " ^ Printexc.to_string e) in
        incr n; bump (!target ^ ":" ^ kind);
        if m <> impl then begin
          incr mism;
          if !mism <= 50 then print_endline ("MISMATCH\t" ^ pid ^ "\t" ^ idx ^ "\t" ^ kind ^ "\timpl=" ^ impl ^ "\tmodel=" ^ m)
        end
    | _ -> ());
  Printf.printf "STATS\tcases=%d\tmismatches=%d\tprograms=%d\n" !n !mism !progs;
  Hashtbl.iter (fun k v -> Printf.printf "COUNT\t%s\t%d\n" k v) counts
