(* driver for the Union model (C07): replays the Go driver's transcript on the extracted model
   (faithful buffer, in-place overwrite on) and prints every result that differs. *)
let kvs_string (l : (n list * n list) list) : string =
  if l = [] then "-" else
  String.concat "," (List.map (fun (k, v) -> hex_of_bytes k ^ ":" ^ hex_of_bytes v) l)

let parse_kvs (s : string) : (n list * n list) list =
  if s = "-" then [] else
  List.map (fun e -> match String.split_on_char ':' e with
    | [k; v] -> (bytes_of_hex k, bytes_of_hex v)
    | _ -> failwith "parse_kvs") (String.split_on_char ',' s)

let () =
  let snap = ref [] and st = ref mbuf_empty and target = ref "" in
  let cps : (string, nat) Hashtbl.t = Hashtbl.create 16 in
  let n = ref 0 and mism = ref 0 and progs = ref 0 in
  let counts = Hashtbl.create 64 in
  let bump k = Hashtbl.replace counts k (1 + (try Hashtbl.find counts k with Not_found -> 0)) in
  let status s = match int_of_nat s with 0 -> "ok" | 1 -> "err" | _ -> "panic" in
  read_lines (fun line ->
    match split_tab line with
    | "PROG" :: _ :: tg :: sn :: _ ->
        incr progs; target := tg; snap := parse_kvs sn; st := mbuf_empty; Hashtbl.reset cps
    | "O" :: pid :: idx :: kind :: rest ->
        let rec split acc l = match l with "=>" :: r -> (List.rev acc, r) | x :: r -> split (x :: acc) r | [] -> (List.rev acc, []) in
        let (args, res) = split [] rest in
        let impl = String.concat " " res in
        let a i = List.nth args i in
        let apply o = let s = status (op_status !st o) in st := step true !st o; s in
        let m = (try
          match kind with
          | "set" -> apply (OSet (bytes_of_hex (a 0), bytes_of_hex (a 1)))
          | "del" -> apply (ODel (bytes_of_hex (a 0)))
          | "get" -> (match m_get !snap !st (bytes_of_hex (a 0)) with
                      | Some v -> "v " ^ hex_of_bytes v | None -> "nf")
          | "bget" ->
              let keys = List.map bytes_of_hex (String.split_on_char ',' (a 0)) in
              let (handed, r) = m_batch_get !snap !st keys in
              let hs = if handed = [] then "none" else String.concat "," (List.map hex_of_bytes handed) in
              let hs = if !target = "txn" then "?" else hs in
              "handed=" ^ hs ^ "|res=" ^ kvs_string r
          | "iter" -> kvs_string (m_iter !snap !st (bytes_of_hex (a 0)) (bytes_of_hex (a 1)))
          | "riter" -> kvs_string (m_iter_rev !snap !st (bytes_of_hex (a 0)) (bytes_of_hex (a 1)))
          | "staging" -> let h = int_of_nat (staging_handle !st) in st := step true !st OStaging; "h " ^ string_of_int h
          | "release" -> apply (ORelease (nat_of_int (int_of_string (a 0))))
          | "cleanup" -> apply (OCleanup (nat_of_int (int_of_string (a 0))))
          | "cp" -> Hashtbl.replace cps (a 0) (checkpoint_pos !st); apply OCheckpoint
          | "revert" -> apply (ORevert (Hashtbl.find cps (a 0)))
          | _ -> "unknown-op"
        with e -> "model-exception " ^ Printexc.to_string e) in
        incr n; bump (!target ^ ":" ^ kind);
        if m <> impl then begin
          incr mism;
          if !mism <= 50 then print_endline ("MISMATCH\t" ^ pid ^ "\t" ^ idx ^ "\t" ^ kind ^ "\timpl=" ^ impl ^ "\tmodel=" ^ m)
        end
    | _ -> ());
  Printf.printf "STATS\tcases=%d\tmismatches=%d\tprograms=%d\n" !n !mism !progs;
  Hashtbl.iter (fun k v -> Printf.printf "COUNT\t%s\t%d\n" k v) counts
