(* driver for the Backoff model (C20): replays the Go driver's op lines through the extracted [step],
   compares result and the state of the touched back-offers after every op.
   Output: MISMATCH / PROPFAIL / STATS / COUNT lines (tab separated). *)
let rec ipos p = match p with XH -> 1 | XO q -> 2 * ipos q | XI q -> 2 * ipos q + 1
let iz = function Z0 -> 0 | Zpos p -> ipos p | Zneg p -> - (ipos p)
let rec posi i = if i = 1 then XH else if i land 1 = 0 then XO (posi (i lsr 1)) else XI (posi (i lsr 1))
let zi i = if i = 0 then Z0 else if i > 0 then Zpos (posi i) else Zneg (posi (- i))
let rec nati i = if i <= 0 then O else S (nati (i - 1))
(* values outside OCaml's 63-bit ints (a broken implementation may report them) are clamped; the model rejects them anyway *)
let ios s = try int_of_string s with _ ->
  if String.length s > 1 && s.[0] = '-' && String.length s > 15 then min_int / 2
  else if String.length s > 15 then max_int / 2 else failwith ("int: " ^ s)

let cfgtab : (int, cfg) Hashtbl.t = Hashtbl.create 32     (* current values (SetBackoffFnCfg) *)
let cfg0 : (int, cfg) Hashtbl.t = Hashtbl.create 32       (* as read from the code at start *)
let cfgname : (int, string) Hashtbl.t = Hashtbl.create 32

let dots f l = String.concat "." (List.map f l)
let amap l =
  let l = List.sort compare (List.map (fun (k, v) -> (iz k, iz v)) l) in
  dots (fun (k, v) -> Printf.sprintf "%d:%d" k v) l

let state_of (w : world) (i : int) : string =
  match List.nth_opt w.w_bos i with
  | None -> Printf.sprintf "%d=missing" i
  | Some b ->
    let ttimes = List.fold_left (fun a (_, v) -> a + iz v) 0 b.b_times in
    let str = if iz b.b_total = 0 then "" else
      Printf.sprintf " backoff(%dms [%s])" (iz b.b_total)
        (String.concat " " (List.map (fun c -> try Hashtbl.find cfgname (iz c.c_id) with Not_found -> "?") b.b_cfgs)) in
    Printf.sprintf "%d=%d,%d,%d,%d,%d,%d,%d,%d,%d|%s|%s|%s|%s|%s|%s" i (iz b.b_max) (iz b.b_total) (iz b.b_excl) (iz b.b_errnum)
      (int_of_nat b.b_ctx) (match b.b_vars with Some v -> int_of_nat v | None -> -1) (iz (killed_sig w b)) ttimes (if b.b_keep then 1 else 0)
      (dots (fun e -> string_of_int (iz e)) (latest_errs b))
      (amap b.b_sleep) (amap b.b_times)
      (dots (fun c -> string_of_int (iz c.c_id)) b.b_cfgs)
      (dots (fun n -> string_of_int (iz n)) (get_types w (nati i))) str

let parse_excl s =
  if s = "" then [] else
  List.map (fun e -> match String.split_on_char ':' e with
    | [k; v] -> (zi (ios k), zi (ios v)) | _ -> failwith "excl") (String.split_on_char ';' s)

let res_str r = match r with
  | RNone -> "-" | ROk r -> Printf.sprintf "ok:%d" (iz r)
  | RKilled (r, s) -> Printf.sprintf "killed:%d:%d" (iz s) (iz r)
  | RErrOrig -> "orig" | RBad -> "BAD"
  | RExceeded l -> "exceeded[" ^ String.concat "," (List.map (function None -> "orig" | Some e -> "cfgerr:" ^ string_of_int (iz e)) l) ^ "]"

let res_match r impl = match r with
  | RExceeded l -> List.exists (function None -> impl = "orig" | Some e -> impl = "cfgerr:" ^ string_of_int (iz e)) l
  | _ -> res_str r = impl

let () =
  let env = ref { e_excl = []; e_lfnames = [] } and w = ref init_world and seq = ref "" and cls = ref "" in
  let skipping = ref false and opi = ref 0 in
  let nx = ref 0 and dom = ref 0 in
  let nops = ref 0 and nseq = ref 0 and mism = ref 0 and pfail = ref 0 and states = ref 0 in
  let counts = Hashtbl.create 64 in
  let bump k = Hashtbl.replace counts k (1 + (try Hashtbl.find counts k with Not_found -> 0)) in
  read_lines (fun line ->
    match split_tab line with
    | "X" :: b :: c :: n :: "=>" :: v :: _ ->
        incr nx;
        let m = iz (expo (zi (ios b)) (zi (ios c)) (zi (ios n))) in
        let g = iz (go_expo (zi (ios b)) (zi (ios c)) (zi (ios n))) in   (* the float expression written out (ProofsFloat.v) *)
        if string_of_int g <> v then begin incr mism; if !mism <= 30 then Printf.printf "MISMATCH\t-1\t0\tgo_expo (float model)=%d\t%s\n" g line end;
        if string_of_int m <> v then begin incr mism; if !mism <= 30 then Printf.printf "MISMATCH\t-1\t0\texpo model=%d\t%s\n" m line end
    | "CFG" :: id :: name :: base :: cap :: jit :: err :: nm :: _ ->
        Hashtbl.replace cfgname (ios id) nm;
        Hashtbl.replace cfg0 (ios id) { c_id = zi (ios id); c_name = zi (ios name); c_base = zi (ios base); c_cap = zi (ios cap); c_jit = zi (ios jit); c_err = zi (ios err) }
    | "S" :: s :: c :: excl :: lf :: _ ->
        Hashtbl.reset cfgtab; Hashtbl.iter (fun k v -> Hashtbl.replace cfgtab k v) cfg0;
        env := { e_excl = parse_excl excl; e_lfnames = (if lf = "" then [] else List.map (fun x -> zi (ios x)) (String.split_on_char ';' lf)) }; w := init_world; seq := s; cls := c; skipping := false; opi := 0; incr nseq
    | "E" :: _ -> ()
    | "O" :: k :: rest when not !skipping ->
        incr opi; incr nops;
        let rec split acc l = match l with "=>" :: r -> (List.rev acc, r) | x :: r -> split (x :: acc) r | [] -> (List.rev acc, []) in
        let (args, after) = split [] rest in
        let a n = ios (List.nth args n) in
        let impl_res, impl_states = (match after with r :: st -> (r, st) | [] -> ("?", [])) in
        let o = (match k with
          | "V" -> ONewVars (zi (a 0), zi (a 1))
          | "N" -> ONew (zi (a 0), nati (a 1), zi (a 2))
          | "B" -> OBackoff (nati (a 0), Hashtbl.find cfgtab (a 1), zi (a 2), zi (a 3), zi (a 5))
          | "SE" -> OSetErr (zi (a 0), zi (a 1))
          | "SC" -> OSetCtx (nati (a 0), nati (a 1))
          | "KG" -> OKeepGoing (nati (a 0))
          | "SF" -> let c = Hashtbl.find cfgtab (a 0) in
                    Hashtbl.replace cfgtab (a 0) { c with c_base = zi (a 1); c_cap = zi (a 2); c_jit = zi (a 3) };
                    ONewVars (Z0, Z0) (* placeholder, not executed *)
          | "MN" -> ONewVars (Z0, Z0) (* placeholder, not executed *)
          | "C" -> OClone (nati (a 0)) | "F" -> OFork (nati (a 0))
          | "M" -> OMerge (nati (a 0), nati (a 1))
          | "R" -> OReset (nati (a 0)) | "RM" -> OResetMax (nati (a 0), zi (a 1))
          | "X" -> OCancel (nati (a 0)) | "K" -> OKill (nati (a 0), zi (a 1))
          | _ -> failwith ("op " ^ k)) in
        let (w', r) = if k = "SF" || k = "MN" then (!w, RNone) else step !env !w o in
        let rcls = (match String.index_opt impl_res ':' with Some i -> String.sub impl_res 0 i | None -> impl_res) in
        bump (!cls ^ ":" ^ k ^ ":" ^ rcls);
        let fail kind detail =
          skipping := true;
          if kind = "PROPFAIL" then begin incr pfail; if !pfail <= 30 then Printf.printf "PROPFAIL\tstep_bounds\t%s\t%d\t%s\t%s\n" !seq !opi detail line end
          else begin incr mism; if !mism <= 30 then Printf.printf "MISMATCH\t%s\t%d\t%s\t%s\n" !seq !opi detail line end in
        if impl_res = "panic" then begin
          (* outside the model's domain (RBad) the code is expected to panic: agreement; anywhere else it is a mismatch *)
          skipping := true;
          if r = RBad then incr dom
          else begin incr mism; if !mism <= 30 then Printf.printf "MISMATCH\t%s\t%d\t%s\t%s\n" !seq !opi ("implementation panicked, model=" ^ res_str r) line end
        end else if r = RBad && k = "B" && (rcls = "ok" || rcls = "killed") then
          fail "PROPFAIL" "sleep chosen by the implementation is not admissible for the kind's state (or op precondition)"
        else if not (res_match r impl_res) then fail "MISMATCH" ("result model=" ^ res_str r)
        else begin
          w := w';
          let rec cmp l = match l with
            | [] -> ()
            | st :: tl ->
              incr states;
              let i = ios (String.sub st 0 (String.index st '=')) in
              let m = state_of !w i in
              if m <> st then fail "MISMATCH" ("state model=" ^ m) else cmp tl in
          cmp impl_states
        end
    | _ -> ());
  Printf.printf "STATS\tseqs=%d\tops=%d\tstates=%d\tmismatches=%d\tpropfails=%d\texpo=%d\tdomain_panics=%d\n" !nseq !nops !states !mism !pfail !nx !dom;
  Hashtbl.iter (fun k v -> Printf.printf "COUNT\t%s\t%d\n" k v) counts
