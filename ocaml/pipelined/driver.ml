(* driver for the Pipelined model.
   mode "buffer" (default): reads the Go driver's trace (CASE / OP ... => ... / END lines), replays every op on the
     extracted model, prints MISMATCH lines and per-case FINAL lines (bounds, closed, generation, flushed keys).
   mode "resolve": lines  R <id> <splits> <start> <end>  ->  regions resolved by the HEAD formula and the pre-fix formula. *)
let _z_dummy = Z.of_N   (* keeps type z in the extraction for common.ml *)

let key_of s = bytes_of_hex s
let keys_of s = if s = "-" || s = "" then [] else List.map key_of (String.split_on_char ',' s)
let val_of s = if s = "_" then [] else bytes_of_hex s
let hexk k = hex_of_bytes k
let hexv v = if v = [] then "_" else hex_of_bytes v
let fmt_optv o = match o with None -> "nf" | Some v -> hexv v
let fmt_buf b = if b = [] then "-" else String.concat "," (List.map (fun (k, v) -> hexk k ^ "=" ^ hexv v) b)
let fmt_calls cs = if cs = [] then "-" else String.concat ";" (List.map (fun c -> if c = [] then "()" else String.concat "," (List.map hexk c)) cs)
let b01 s = (s = "1")
let nn s = n_of_int (int_of_string s)
let sn x = string_of_int (int_of_n x)

let parse_op name args =
  let a i = List.nth args i in
  match name with
  | "set" -> OSet (key_of (a 0), val_of (a 1))
  | "del" -> ODel (key_of (a 0))
  | "get" -> OGet (key_of (a 0))
  | "getlocal" -> OGetLocal (key_of (a 0))
  | "bget" -> OBatchGet (keys_of (a 0))
  | "flush" -> OFlush (b01 (a 0), nn (a 1), b01 (a 2))
  | "complete" -> OComplete (b01 (a 0))
  | "flushwait" -> OFlushWait (b01 (a 0))
  | "staging" -> OStaging | "release" -> ORelease | "cleanup" -> OCleanup
  | "len" -> OLen | "size" -> OSize
  | "storestep" -> OStoreStep (nn (a 0))
  | "completeexist" -> OCompleteExist (key_of (a 0))
  | "tmstart" -> OTmStart | "end" -> OEnd | "tm" -> OTm
  | "insert" -> OInsert (key_of (a 0), val_of (a 1))
  | "flushops" -> OFlushOps
  | _ -> failwith ("unknown op " ^ name)

let fmt_resp name r =
  match r with
  | RUnit -> "ok"
  | RSet ok -> if ok then "ok" else "errnil"
  | RGet (v, calls) -> fmt_optv v ^ "\t" ^ fmt_calls calls
  | RBatch (m, calls) -> fmt_buf m ^ "\t" ^ fmt_calls calls
  | RFlush (t, status, started) ->
      (if t then "1" else "0") ^ "\t" ^ sn status ^ "\t" ^
      (match started with Some (g, b) when t -> sn g ^ ":" ^ fmt_buf b | _ -> "-")
  | RWait ok -> if ok then "ok" else "err"
  | ROps l -> if l = [] then "-" else String.concat "," (List.map (fun (k, o) -> hexk k ^ ":" ^ sn o) l)
  | RErrExist (_, v) ->
      let x = "X:" ^ (match v with None -> "_" | Some b -> hexv b) in
      if name = "flush" then "0\t1\t-\t" ^ x else "err\t" ^ x
  | RNum x -> sn x

let rec split_arrow acc l = match l with
  | "=>" :: r -> (List.rev acc, r) | x :: r -> split_arrow (x :: acc) r | [] -> (List.rev acc, [])

let buffer_mode () =
  let p = ref { minkeys = N0; minsize = N0; forcesize = N0 } in
  let s = ref init and cid = ref "" and idx = ref 0 in
  let ncase = ref 0 and nops = ref 0 and mism = ref 0 in
  read_lines (fun line ->
    match split_tab line with
    | "CASE" :: id :: mk :: ms :: fs :: _ ->
        cid := id; idx := 0; incr ncase; s := init;
        p := { minkeys = nn mk; minsize = nn ms; forcesize = nn fs }
    | "OP" :: name :: rest ->
        let (args, res) = split_arrow [] rest in
        let compare = List.mem "=>" rest in
        let impl = String.concat "\t" res in
        incr nops;
        (try
          let o = parse_op name args in
          let (s', r) = step !p !s o in
          s := s';
          let m = fmt_resp name r in
          if compare && m <> impl then begin
            incr mism;
            if !mism <= 40 then Printf.printf "MISMATCH\t%s\t%d\t%s\tmodel=%s\n" !cid !idx (String.concat " " (name :: args @ ["=>"] @ res)) (String.concat " " (split_tab m))
          end
        with e -> (incr mism; Printf.printf "MISMATCH\t%s\t%d\t%s\tmodel-exception=%s\n" !cid !idx line (Printexc.to_string e)));
        incr idx
    | "END" :: id :: _ ->
        let st = !s in
        Printf.printf "FINAL\t%s\t%s\t%s\t%s\t%s\t%s\t%s\t%s\n" id (hexk st.pstart) (hexk st.pend)
          (if st.closed then "1" else "0") (sn st.gen)
          (let ks = flushed_keys st in if ks = [] then "-" else String.concat "," (List.map hexk ks))
          (let l = List.filter (fun ((_, _), sent) -> sent) st.flog in
           if l = [] then "-" else String.concat "|" (List.map (fun ((g, b), _) -> sn g ^ ":" ^ fmt_buf b) l))
          (hexk st.primary)
    | _ -> ());
  Printf.printf "STATS\tcases=%d\tops=%d\tmismatches=%d\n" !ncase !nops !mism

let fmt_nats l = if l = [] then "-" else String.concat "," (List.map (fun x -> string_of_int (int_of_nat x)) l)

let resolve_mode () =
  read_lines (fun line ->
    match split_tab line with
    | "R" :: id :: sp :: ps :: pe :: ks :: _ ->
        let sp = keys_of sp and ps = key_of ps and pe = key_of pe and ks = keys_of ks in
        let r = resolved_regions sp ps pe and rp = resolved_regions_prefix sp ps pe in
        Printf.printf "R\t%s\t%s\t%s\t%s\t%s\t%s\n" id (fmt_nats r) (fmt_nats rp)
          (fmt_nats (List.map (fun k -> locate sp k) ks))
          (if covers sp r ks then "1" else "0") (if covers sp rp ks then "1" else "0")
    | _ -> ())

(* mode "served": lines  S <id> <served regions start:end;... (end ~ = unbounded, - = empty key)> <keys>  -> served_covers *)
let served_mode () =
  read_lines (fun line ->
    match split_tab line with
    | "S" :: id :: sv :: ks :: _ ->
        let rg s = match String.split_on_char ':' s with
          | [a; b] -> (key_of a, (if b = "~" then None else Some (key_of b)))
          | _ -> failwith "rgn" in
        let served = if sv = "-" then [] else List.map rg (String.split_on_char ';' sv) in
        Printf.printf "S\t%s\t%s\n" id (if served_covers served (keys_of ks) then "1" else "0")
    | _ -> ())

let () =
  if Array.length Sys.argv > 1 && Sys.argv.(1) = "resolve" then resolve_mode ()
  else if Array.length Sys.argv > 1 && Sys.argv.(1) = "served" then served_mode ()
  else buffer_mode ()
