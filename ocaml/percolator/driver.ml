(* driver for the Percolator acceptor: reads event lines (docs/PERC_EVENTS.md) on stdin, several
   traces separated by "trace <id>"; prints per trace
     ACCEPT <id> <n events>     or    REJECT <id> <index> <event line> <reason>
   followed by  STATE <id> <S> told=.. primary=<kst> keys=<k:kst,...> mode=classic|async|onepc|fallback|asyncresolved  for every transaction
   (after ACCEPT: the final state; after REJECT the lines are tagged RSTATE: the state before the rejected event, for
   diagnosis only — it must not be compared with the store's final state). Fields are tab separated; the echoed event line has
   its tabs replaced by single spaces. *)
let nh = n_of_hex
let split_on c s = if s = "-" || s = "" then [] else String.split_on_char c s
let nlist s = List.map nh (split_on ',' s)
let b s = match s with "1" -> true | "0" -> false | _ -> failwith ("bool " ^ s)
let colon s = String.split_on_char ':' s

let op_of s = match s with "put" -> OpPut | "del" -> OpDel | "lock" -> OpLock | "ins" -> OpIns | "cne" -> OpCne | _ -> failwith ("op " ^ s)
let muts s = List.map (fun x -> match colon x with [k; o] -> (nh k, op_of o) | _ -> failwith "mutation") (split_on ',' s)
let pwkind s = n_of_int (match s with "locked" -> 1 | "conflict" -> 2 | "exists" -> 3 | "rolledback" -> 4 | "committed" -> 5 | "pessnotfound" -> 6 | _ -> 0)
let pwres s = match colon s with
  | ["ok"; m; o] -> PwOk (nh m, nh o) | ["ok"] -> PwOk (N0, N0)
  | "err" :: k :: _ -> PwErr (pwkind k) | ["err"] -> PwErr N0
  | ["regionerr"] -> PwRegion | _ -> failwith ("prewrite result " ^ s)
let cmres s = match colon s with
  | ["ok"] -> CmOk | ["err"; "expired"; m] -> CmExpired (nh m)
  | ["err"; "notfound"] | ["err"; "rolledback"] -> CmGone
  | "err" :: _ -> CmErr | ["regionerr"] -> CmRegion | _ -> failwith ("commit result " ^ s)
let rbres s = match colon s with
  | ["ok"] -> RbOk | ["err"; "committed"] -> RbCommitted | "err" :: _ -> RbErr | ["regionerr"] -> RbRegion
  | _ -> failwith ("rollback result " ^ s)
let gres s = match colon s with
  | "ok" :: _ -> GOk | "err" :: _ -> GErr | ["regionerr"] -> GRegion | _ -> failwith ("result " ^ s)
let ctsst s = match colon s with
  | ["locked"; ttl; m; a; secs] -> StLocked (nh ttl, nh m, b a, nlist secs)
  | ["locked"; ttl; m; a] -> StLocked (nh ttl, nh m, b a, [])
  | ["committed"; c] -> StCommitted (nh c)
  | ["rolledback"] | ["rolledback"; "ttlexpire"] | ["rolledback"; "lockrb"] | ["rolledback"; "norb"] -> StRolledBack
  | "rolledback" :: _ -> StNoInfo
  | ["notfound"] -> StNotFound | ["regionerr"] -> StRegion | "err" :: _ -> StErr
  | _ -> failwith ("cts status " ^ s)
let cslst s = match colon s with
  | ["locks"; l] -> CslLocks (List.map (fun x -> match String.split_on_char '=' x with [k; m] -> (nh k, nh m) | _ -> failwith "csl lock") (split_on ',' l))
  | ["commit"; c] -> CslCommit (nh c) | ["regionerr"] -> CslRegion | _ -> failwith ("csl status " ^ s)
let ts s = if s = "max" then maxts else nh s

let parse (f : string list) : event = match f with
  | ["tso"; t] -> ETso (nh t)
  | ["begin"; r; s] -> EBegin (nh r, nh s)
  | ["commit_call"; s; c] -> ECommitCall (nh s, b c)
  | ["mutations"; s; p; ms] -> EMutations (nh s, nh p, muts ms)
  | ["prewrite_send"; r; s; p; ks; a; o; m; fu; secs] -> EPwSend (nh r, nh s, nh p, nlist ks, b a, b o, nh m, nh fu, nlist secs)
  | ["prewrite_deliver"; r; s; ks; x] -> EPwDeliver (nh r, nh s, nlist ks, pwres x)
  | ["prewrite_reply"; r; s; ks; x] -> EPwReply (nh r, nh s, nlist ks, pwres x)
  | ["commit_send"; r; s; c; ks] -> ECmSend (nh r, nh s, nh c, nlist ks)
  | ["commit_deliver"; r; s; c; ks; x] -> ECmDeliver (nh r, nh s, nh c, nlist ks, cmres x)
  | ["commit_reply"; r; s; c; ks; x] -> ECmReply (nh r, nh s, nh c, nlist ks, cmres x)
  | ["rollback_send"; r; s; ks] -> ERbSend (nh r, nh s, nlist ks)
  | ["rollback_deliver"; r; s; ks; x] -> ERbDeliver (nh r, nh s, nlist ks, rbres x)
  | ["rollback_reply"; r; s; ks; x] -> ERbReply (nh r, nh s, nlist ks, rbres x)
  | ["plock_send"; r; s; p; fu; ks] -> EPlSend (nh r, nh s, nh p, nh fu, nlist ks)
  | ["plock_deliver"; r; s; fu; ks; x] -> EPlDeliver (nh r, nh s, nh fu, nlist ks, gres x)
  | ["plock_reply"; r; s; fu; ks; x] -> EPlReply (nh r, nh s, nh fu, nlist ks, gres x)
  | ["prollback_send"; r; s; fu; ks] -> EPrSend (nh r, nh s, ts fu, nlist ks)
  | ["prollback_deliver"; r; s; fu; ks; x] -> EPrDeliver (nh r, nh s, ts fu, nlist ks, gres x)
  | ["prollback_reply"; r; s; fu; ks; x] -> EPrReply (nh r, nh s, ts fu, nlist ks, gres x)
  | ["cts_send"; r; s; p; caller; cur; rb; fo; rp] -> ECtsSend (nh r, nh s, nh p, ts caller, ts cur, b rb, b fo, b rp)
  | ["cts_deliver"; r; s; p; st] -> ECtsDeliver (nh r, nh s, nh p, ctsst st)
  | ["cts_reply"; r; s; p; st] -> ECtsReply (nh r, nh s, nh p, ctsst st)
  | ["csl_send"; r; s; ks] -> ECslSend (nh r, nh s, nlist ks)
  | ["csl_deliver"; r; s; ks; st] -> ECslDeliver (nh r, nh s, nlist ks, cslst st)
  | ["csl_reply"; r; s; ks; st] -> ECslReply (nh r, nh s, nlist ks, cslst st)
  | ["resolve_send"; r; s; c; ks] -> ERsSend (nh r, nh s, nh c, nlist ks)
  | ["resolve_deliver"; r; s; c; ks; x] -> ERsDeliver (nh r, nh s, nh c, nlist ks, gres x)
  | ["resolve_reply"; r; s; c; ks; x] -> ERsReply (nh r, nh s, nh c, nlist ks, gres x)
  | ["heartbeat_send"; r; s; p; ttl] -> EHbSend (nh r, nh s, nh p, nh ttl)
  | ["heartbeat_deliver"; r; s; p; x] ->
      (match colon x with ["ok"; t] -> EHbDeliver (nh r, nh s, nh p, true, nh t) | _ -> EHbDeliver (nh r, nh s, nh p, false, N0))
  | ["lockseen"; r; s; ttl] -> ELockSeen (nh r, nh s, nh ttl)
  | ["told"; s; "ok"] -> ETold (nh s, TOk)
  | ["told"; s; "undetermined"] -> ETold (nh s, TUndet)
  | ["told"; s; "err"] -> ETold (nh s, TErr)
  | ["rollback_told"; s] -> ERollbackTold (nh s)
  | ["crash"; r] -> ECrash (nh r)
  | ["gc_begin"; r; sp] -> EGcBegin (nh r, ts sp)
  | ["gc_end"; r] -> EGcEnd (nh r)
  | _ -> failwith "unknown event"

let reason_name r = match r with
  | R1_unprewritten -> "R1_unprewritten" | R1_ts_start -> "R1_ts_start" | R1_ts_mincommit -> "R1_ts_mincommit"
  | R1_ts_tso -> "R1_ts_tso" | R1_secondary_first -> "R1_secondary_first" | R1_key_not_mutation -> "R1_key_not_mutation"
  | R2_rollback_after_commit -> "R2_rollback_after_commit" | R2_commit_after_rollback -> "R2_commit_after_rollback"
  | R3_resolve_unreported -> "R3_resolve_unreported" | R3_wrong_primary -> "R3_wrong_primary" | R3_csl_unlisted -> "R3_csl_unlisted" | R3_force_unjustified -> "R3_force_unjustified"
  | R4_expire_live_lock -> "R4_expire_live_lock"
  | R5_hb_primary -> "R5_hb_primary" | R5_hb_ttl_decrease -> "R5_hb_ttl_decrease" | R5_hb_ttl_age -> "R5_hb_ttl_age"
  | R5_hb_after_end -> "R5_hb_after_end"
  | R6_primary_mismatch -> "R6_primary_mismatch" | R6_primary_not_locked -> "R6_primary_not_locked"
  | R6_key_not_mutation -> "R6_key_not_mutation" | R6_async_secondaries -> "R6_async_secondaries"
  | R6_onepc_split -> "R6_onepc_split" | R6_mutations_late -> "R6_mutations_late"
  | R7_ok_without_commit -> "R7_ok_without_commit" | R7_err_with_pending -> "R7_err_with_pending"
  | R7_undet_without_pending -> "R7_undet_without_pending" | R7_send_after_told -> "R7_send_after_told"
  | X_crashed -> "X_crashed" | N_no_send -> "N_no_send" | N_no_deliver -> "N_no_deliver"
  | N_dup_commitpoint -> "N_dup_commitpoint" | N_dup_reply -> "N_dup_reply" | N_dup_prewrite -> "N_dup_prewrite"
  | T_tso_order -> "T_tso_order" | T_begin_unissued -> "T_begin_unissued"
  | S_prewrite_after_rollback -> "S_prewrite_after_rollback" | S_commit_impossible -> "S_commit_impossible"
  | S_rollback_committed -> "S_rollback_committed" | S_cts_committed -> "S_cts_committed"
  | S_cts_rolledback -> "S_cts_rolledback" | S_cts_locked -> "S_cts_locked" | S_cts_secondary -> "S_cts_secondary"
  | S_csl_locks -> "S_csl_locks" | S_onepc -> "S_onepc" | S_gone -> "S_gone"
  | S_cts_async -> "S_cts_async" | S_cts_secs -> "S_cts_secs" | S_csl_commit -> "S_csl_commit" | S_mincommit -> "S_mincommit"

let kst_str (s : sys) (t : n) (k : n) : string =
  match kget s t k with
  | Unlocked -> "unlocked" | RolledBack -> "rolledback" | Committed c -> "committed:" ^ hex_of_n c
  | Locked m ->
      let alts = List.filter_map (fun (t', c) -> if t' = t then Some (if c = N0 then "rolledback" else "committed:" ^ hex_of_n c) else None) s.s_wr in
      String.concat "|" (("locked:" ^ hex_of_n m) :: List.sort_uniq compare alts)

let dump_state (tag : string) (id : string) (s : sys) : unit =
  let txns = List.sort_uniq compare (List.map fst s.s_cl @ List.map (fun ((t, _), _) -> t) s.s_kst) in
  List.iter (fun t ->
    let c = getc s t in
    let keys = List.sort_uniq compare (c.c_all @ List.filter_map (fun ((t', k), _) -> if t' = t then Some k else None) s.s_kst) in
    let told = match int_of_n (c.cn FTold) with 1 -> "ok" | 2 -> "undetermined" | 3 -> "err" | _ -> "none" in
    let prim = if fb c FHasm then kst_str s t (c.cn FPrim) else "unknown" in
    let ks = if keys = [] then "-" else String.concat "," (List.map (fun k -> hex_of_n k ^ ":" ^ kst_str s t k) keys) in
    let nz f = c.cn f <> N0 in
    let asyncres = List.exists (fun ((t', _), j) -> t' = t && j = JAsync) s.s_rs in
    let onepc = nz FTried1 && not (nz FFb1) and async = nz FTriedA && not (nz FFb) in
    let mode = if (nz FTried1 || nz FTriedA) && (nz FStFb || not (onepc || async)) then "fallback"
               else if onepc then "onepc" else if async then "async" else if asyncres then "asyncresolved" else "classic" in
    Printf.printf "%s\t%s\t%s\ttold=%s\tprimary=%s\tkeys=%s\tmode=%s\n" tag id (hex_of_n t) told prim ks mode) txns

let () =
  let id = ref "0" and st = ref init and n = ref 0 and dead = ref false and started = ref false in
  let finish () =
    if !started then begin
      if not !dead then Printf.printf "ACCEPT\t%s\t%d\n" !id !n;
      dump_state (if !dead then "RSTATE" else "STATE") !id !st end in
  let accepted = ref 0 and rejected = ref 0 in
  let close () = if !started then (if !dead then incr rejected else incr accepted); finish () in
  read_lines (fun line ->
    let line = String.trim line in
    if line = "" || line.[0] = '#' then () else
    match split_tab line with
    | ["trace"; i] -> close (); id := i; st := init; n := 0; dead := false; started := true
    | f ->
        started := true;
        if not !dead then begin
          let echo = String.concat " " f in
          match (try Some (parse f) with _ -> None) with
          | None -> dead := true; Printf.printf "REJECT\t%s\t%d\t%s\tPARSE\n" !id !n echo
          | Some e ->
              (match stepr !st e with
               | Ok s' -> st := s'; incr n
               | Rej r -> dead := true; Printf.printf "REJECT\t%s\t%d\t%s\t%s\n" !id !n echo (reason_name r))
        end);
  close ();
  Printf.printf "STATS\ttraces=%d\taccepted=%d\trejected=%d\n" (!accepted + !rejected) !accepted !rejected
