(* driver for the Mvcc model (property C12): reads the Go driver's lines on stdin
     S <id> <class>            fresh store
     O <cmd> <impl response> <impl dump>
   runs the extracted [step] on the same command, compares canonical response + dump (differential),
   evaluates the property oracles (extracted boolean forms of the theorems' conclusions) on what the
   IMPLEMENTATION answered / stored, and prints MISMATCH / PROPFAIL / STATS / COUNT / SAMPLE lines. *)
let hx = hex_of_n
let pn = n_of_hex
let pbool s = s = "1"
let split c s = String.split_on_char c s
let nlist s = if s = "-" || s = "" then [] else List.map pn (split ',' s)
let b01 b = if b then "1" else "0"

(* ---------------------------------------------------------------- parsing commands *)
let parse_mut s =
  match split ':' s with
  | [op; k; v; a; pc] ->
    { m_op = (match op with "P" -> MPut | "D" -> MDel | "L" -> MLock | "I" -> MInsert | "C" -> MCheckNotExists | _ -> failwith "mop");
      m_key = pn k; m_value = pn v;
      m_assert = (match a with "n" -> AsNone | "e" -> AsExist | "x" -> AsNotExist | _ -> failwith "assert");
      m_pess_check = pbool pc }
  | _ -> failwith ("mutation " ^ s)

let parse_cmd (c : string) : cmd =
  match split ' ' c with
  | ["pw"; p; s; fu; ttl; mc; ao; ms] -> Prewrite (List.map parse_mut (split ';' ms), pn p, pn s, pn fu, pn ttl, pn mc, pbool ao)
  | ["pl"; p; s; fu; ttl; mc; rv; ce; loie; force; nowait; ks] ->
    PessLock { p_keys = List.map (fun x -> match split ':' x with [k; ne] -> (pn k, pbool ne) | _ -> failwith "plkey") (split ',' ks);
               p_primary = pn p; p_start = pn s; p_for_update = pn fu; p_ttl = pn ttl; p_min_commit = pn mc;
               p_return_values = pbool rv; p_check_existence = pbool ce; p_lock_only_if_exists = pbool loie;
               p_force = pbool force; p_no_wait = pbool nowait }
  | ["pr"; s; e; ks; st; fu] -> PessRollback (pn s, pn e, nlist ks, pn st, pn fu)
  | ["cm"; ks; s; c] -> Commit (nlist ks, pn s, pn c)
  | ["rb"; ks; s] -> Rollback (nlist ks, pn s)
  | ["cl"; k; s; cur] -> Cleanup (pn k, pn s, pn cur)
  | ["cs"; k; l; caller; cur; rine; rp] -> CheckTxnStatus (pn k, pn l, pn caller, pn cur, pbool rine, pbool rp)
  | ["hb"; k; s; adv] -> HeartBeat (pn k, pn s, pn adv)
  | ["rl"; s; e; st; c] -> ResolveLock (pn s, pn e, pn st, pn c)
  | ["br"; s; e; inf] ->
    BatchResolveLock (pn s, pn e, if inf = "-" then [] else
                        List.map (fun x -> match split ':' x with [a; b] -> (pn a, pn b) | _ -> failwith "info") (split ',' inf))
  | ["sl"; s; e; m] -> ScanLock (pn s, pn e, pn m)
  | ["gc"; s; e; sp] -> GC (pn s, pn e, pn sp)
  | ["get"; k; t; rs] -> Get (pn k, pn t, nlist rs)
  | ["bg"; ks; t; rs] -> BatchGet (nlist ks, pn t, nlist rs)
  | ["sc"; s; e; l; t; rs] -> Scan (pn s, pn e, nat_of_int (int_of_n (pn l)), pn t, nlist rs)
  | ["rs"; s; e; l; t; rs] -> ReverseScan (pn s, pn e, nat_of_int (int_of_n (pn l)), pn t, nlist rs)
  | ["rcget"; k; t] -> Rc (QGet (pn k, pn t))
  | ["rcbg"; ks; t] -> Rc (QBatchGet (nlist ks, pn t))
  | ["rcsc"; s; e; l; t] -> Rc (QScan (pn s, pn e, nat_of_int (int_of_n (pn l)), pn t))
  | ["rcrs"; s; e; l; t] -> Rc (QReverseScan (pn s, pn e, nat_of_int (int_of_n (pn l)), pn t))
  | ["slh"; s; e; _; m] -> ScanLock (pn s, pn e, pn m)   (* handler-level scan lock: answer computed by handler_scan_lock *)
  | ["dr"; s; e] -> DeleteRange (pn s, pn e)
  | ["ms"; s] -> MvccByStartTs (pn s)
  | _ -> failwith ("unknown command: " ^ c)

(* ---------------------------------------------------------------- printing (same canonical forms as the Go driver) *)
let opc = function LPut -> "P" | LDel -> "D" | LLock -> "L" | LPess -> "S"
let abk = function
  | APessLockNotFound -> "plnf" | ALockTypeNotMatch -> "ltnm" | ALockOnlyIfExistsNoReturn -> "loie"
  | AHeartbeatNonPrimary -> "hbnp" | ALockNotExist -> "lne" | AGcLock -> "gclock"
let err_s = function
  | ELocked (k, l) -> Printf.sprintf "L(%s,%s,%s,%s,%s,%s)" (hx k) (hx l.l_primary) (hx l.l_start) (hx l.l_for_update) (hx l.l_ttl) (opc l.l_op)
  | EWriteConflict (s, cs, cc, k) -> Printf.sprintf "WC(%s,%s,%s,%s)" (hx s) (hx cs) (hx cc) (hx k)
  | EAlreadyExist k -> "AE(" ^ hx k ^ ")"
  | EAlreadyRolledBack -> "ARB"
  | EAlreadyCommitted c -> "AC(" ^ hx c ^ ")"
  | ETxnNotFound -> "TNF"
  | ECommitTsExpired m -> "CTE(" ^ hx m ^ ")"
  | ERetryable -> "RT"
  | EAbort a -> "AB:" ^ abk a
  | EAssertionFailed (a, b) -> Printf.sprintf "AF(%s,%s)" (hx a) (hx b)
let oerr_s = function None -> "ok" | Some e -> err_s e
let act_s = function
  | ANoAction -> "none" | ATTLExpireRollback -> "ttlrb" | ALockNotExistRollback -> "lnerb" | AMinCommitTSPushed -> "pushed"
  | ATTLExpirePessimisticRollback -> "ttlprb" | ALockNotExistDoNothing -> "lnenop"
let oval = function None -> "-" | Some v -> hx v
let pres_s = function
  | PRNormal (v, e) -> "N(" ^ oval v ^ "," ^ b01 e ^ ")"
  | PRConflict (v, e, c) -> "C(" ^ oval v ^ "," ^ b01 e ^ "," ^ hx c ^ ")"
  | PRFailed -> "F"
let pair_s = function
  | PVal (k, v, c) -> hx k ^ "=" ^ hx v ^ "@" ^ hx c
  | PErr (k, e) -> hx k ^ "!" ^ err_s e
let mvcc_s k (ks : kstate) =
  "M(" ^ hx k ^ ";" ^ (match ks.ks_lock with None -> "-" | Some l -> Printf.sprintf "L(%s,%s,%s,%s)" (hx l.l_start) (hx l.l_primary) (opc l.l_op) (hx l.l_value))
  ^ "/" ^ String.concat "," (List.map (fun w -> Printf.sprintf "W(%s,%s,%s,%s)" (match w.w_kind with WPut -> "P" | WDel -> "D" | WRollback -> "R" | WLock -> "L") (hx w.w_start) (hx w.w_commit) (hx w.w_value)) ks.ks_writes) ^ ")"
let resp_s = function
  | RMvcc (k, ks) -> mvcc_s k ks
  | RPanic -> "PANIC"
  | RErr e -> oerr_s e
  | RErrs es -> "[" ^ String.concat ";" (List.map oerr_s es) ^ "]"
  | RPess (es, rs) -> "E[" ^ String.concat ";" (List.map err_s es) ^ "]R[" ^ String.concat ";" (List.map pres_s rs) ^ "]"
  | RStatus (t, c, a) -> "ST(" ^ hx t ^ "," ^ hx c ^ "," ^ act_s a ^ ")"
  | RTtl t -> "TTL(" ^ hx t ^ ")"
  | RGet None -> "V(-)"
  | RGet (Some (v, c)) -> "V(" ^ hx v ^ "," ^ hx c ^ ")"
  | RPairs ps -> "[" ^ String.concat ";" (List.map pair_s ps) ^ "]"
  | RLocks ls -> "K[" ^ String.concat ";" (List.map (fun (k, l) -> hx k ^ "," ^ hx l.l_primary ^ "," ^ hx l.l_start ^ "," ^ opc l.l_op ^ "," ^ hx l.l_ttl ^ "," ^ hx l.l_for_update) ls) ^ "]"

let errd_s = function
  | EPlain e -> err_s e
  | EDeadlock (lts, k, wk) -> Printf.sprintf "DL(%s,%s,%s)" (hx lts) (hx k) (hx wk)
  | EDetectorOutOfFuel -> "DETECTOR-OUT-OF-FUEL"
let respd_s = function
  | RD r -> resp_s r
  | RPessD (es, rs) -> "E[" ^ String.concat ";" (List.map errd_s es) ^ "]R[" ^ String.concat ";" (List.map pres_s rs) ^ "]"
(* the wait-for graph in ascending transaction order (numeric), as the Go driver prints it *)
let detector_s (d : (n * (n * n) list) list) =
  if d = [] then "-" else
    let cmpn a b = if a = b then 0 else if N.ltb a b then -1 else 1 in
    String.concat " " (List.map (fun (t, l) -> hx t ^ ">" ^ String.concat "," (List.map (fun (w, k) -> hx w ^ ":" ^ hx k) l))
                         (List.sort (fun (a, _) (b, _) -> cmpn a b) d))
let wk_s = function WPut -> "P" | WDel -> "D" | WRollback -> "R" | WLock -> "L"
let ks_s (ks : kstate) =
  (match ks.ks_lock with
   | None -> "-"
   | Some l -> Printf.sprintf "L(%s,%s,%s,%s,%s,%s,%s)" (hx l.l_start) (hx l.l_primary) (opc l.l_op) (hx l.l_value) (hx l.l_ttl) (hx l.l_for_update) (hx l.l_min_commit))
  ^ "/" ^ String.concat "," (List.map (fun w -> Printf.sprintf "W(%s,%s,%s,%s)" (wk_s w.w_kind) (hx w.w_start) (hx w.w_commit) (hx w.w_value)) ks.ks_writes)
let key_ids = List.map n_of_int [1; 2; 3; 4]
let dump_s (st : store) = String.concat " " (List.map (fun k -> ks_s (get_ks st k)) key_ids)

(* ---------------------------------------------------------------- parsing the implementation's dump into a model store *)
let inner s = (* "X(a,b,c)" -> ["a";"b";"c"] *)
  let i = String.index s '(' in split ',' (String.sub s (i + 1) (String.length s - i - 2))
let parse_lock s = match inner s with
  | [st; p; op; v; ttl; fu; mc] ->
    { l_start = pn st; l_primary = pn p; l_op = (match op with "P" -> LPut | "D" -> LDel | "L" -> LLock | "S" -> LPess | _ -> failwith "lockop");
      l_value = pn v; l_ttl = pn ttl; l_for_update = pn fu; l_min_commit = pn mc }
  | _ -> failwith ("lock " ^ s)
let parse_write s = match inner s with
  | [k; st; c; v] -> { w_kind = (match k with "P" -> WPut | "D" -> WDel | "R" -> WRollback | "L" -> WLock | _ -> failwith "wkind");
                       w_start = pn st; w_commit = pn c; w_value = pn v }
  | _ -> failwith ("write " ^ s)
(* writes are separated by "," which also separates fields: split on "),W(" instead *)
let parse_ks s : kstate =
  let i = String.index s '/' in
  let l = String.sub s 0 i and w = String.sub s (i + 1) (String.length s - i - 1) in
  let ws = if w = "" then [] else List.map (fun x -> parse_write ("W(" ^ x ^ ")"))
        (Str.split (Str.regexp_string "),W(") (String.sub w 2 (String.length w - 3))) in
  { ks_lock = (if l = "-" then None else Some (parse_lock l)); ks_writes = ws }
let parse_dump (d : string) : store =
  let parts = split ' ' d in
  List.fold_left (fun st (k, p) -> set_ks st k (parse_ks p)) [] (List.combine key_ids parts)


(* ---------------------------------------------------------------- property oracles, evaluated on the implementation *)
module Oracles = struct
  (* answer up to the informational action of a status check / an all-ok error list *)
  let status_s (r : string) =
    if String.length r > 3 && String.sub r 0 3 = "ST(" then
      (match split ',' r with [a; b; _] -> a ^ "," ^ b | _ -> r)
    else if String.length r >= 2 && r.[0] = '[' && List.for_all (fun x -> x = "ok" || x = "") (split ';' (String.sub r 1 (String.length r - 2))) then "[]"
    else r
  let is_error_resp (r : string) =
    (* any entry that is not ok *)
    not (status_s r = "[]" || r = "ok" || (String.length r >= 3 && String.sub r 0 3 = "E[]"))
  let all_ts (cmds : cmd list) : n list =
    let w = world_of cmds in
    List.sort_uniq compare (max_ts :: w.w_starts @ List.concat_map (fun (a, b) -> [a; b]) w.w_pairs)

  let run chk disc (c : cmd) ctxt iresp (before : store) (after : store) prev_cmd prev_resp (cmds : cmd list) =
    let unchanged = (dump_s before = dump_s after) in
    (* ---- theorem-backed oracles that need the discipline *)
    if disc then begin
      chk "exclusive_outcome" (exclusive_ok after) "a (key,start) has two write records";
      if ctxt = prev_cmd && idem_cmd c then
        chk "idempotent" (unchanged && status_s iresp = status_s prev_resp)
          ("repeated command: first=" ^ prev_resp ^ " second=" ^ iresp ^ (if unchanged then "" else " state changed"));
      List.iter (fun (k, s) ->
          if has_write before k s then
            chk "late_prewrite_rejected" (unchanged && is_error_resp iresp)
              ("prewrite of (" ^ hx k ^ "," ^ hx s ^ ") after its commit/rollback record answered " ^ iresp))
        (prewrite_targets c);
      (* a commit / rollback record stays until GC passes its start ts *)
      List.iter (fun k -> List.iter (fun w ->
          if not (is_gc_over c w.w_start) then
            chk "marker_until_gc" (has_write after k w.w_start) ("record of start " ^ hx w.w_start ^ " on key " ^ hx k ^ " vanished"))
          (get_ks before k).ks_writes) key_ids;
      (* every rollback path leaves the marker *)
      (match c with
       | Rollback (ks, s) when iresp = "ok" ->
         List.iter (fun k -> chk "rollback_leaves_marker" (rolled_back after k s) ("batch rollback ok but no marker on " ^ hx k)) ks
       | Cleanup (k, s, _) when iresp = "ok" -> chk "rollback_leaves_marker" (rolled_back after k s) "cleanup ok but no marker"
       | CheckTxnStatus (k, s, _, _, _, _) when (let l = String.length iresp in l > 6 && (String.sub iresp (l - 6) 6 = "ttlrb)" || String.sub iresp (l - 6) 6 = "lnerb)")) ->
         chk "rollback_leaves_marker" (rolled_back after k s) "check-txn-status rolled back but no marker"
       | ResolveLock (s0, e0, s, cts) ->
         List.iter (fun k -> match lock_of before k with
             | Some l when l.l_start = s && in_range s0 e0 k ->
               chk "resolve_outcome" ((if cts = N0 then rolled_back after k s else committed after k s) && lock_of after k = None) "resolve left the lock or no record"
             | _ -> ()) key_ids
       | _ -> ())
    end;
    (* ---- oracles that hold for every sequence *)
    (* ttl / min_commit_ts of a lock survive the owner's later requests (except its own pessimistic re-lock) *)
    List.iter (fun k -> chk "lock_fields_monotone" (lock_mono_ok before after c k)
                  ("ttl or min_commit_ts of the lock on key " ^ hx k ^ " decreased: " ^ ks_s (get_ks before k) ^ " -> " ^ ks_s (get_ks after k))) key_ids;
    (match c with
     | Commit (ks, s, cts) when commit_must_be_refused before ks s cts ->
       chk "commit_below_min_commit_refused" (unchanged && iresp <> "ok") ("commit below the lock's min_commit_ts answered " ^ iresp)
     | CheckTxnStatus (k, s, _, _, _, _) when (let l = String.length iresp in l > 7 && String.sub iresp 0 7 = "ST(0,0," &&
                                               (let a = String.sub iresp 7 (l - 8) in a = "ttlrb" || a = "ttlprb" || a = "lnerb")) ->
       (* the check reported the transaction rolled back: its lock on that key is gone *)
       chk "status_rolled_back_unlocked" (match lock_of after k with Some l -> l.l_start <> s || String.sub iresp 7 5 = "lnerb" | None -> true)
         ("check-txn-status answered " ^ iresp ^ " but the lock of the transaction is still on the key")
     | _ -> ());
    let contains hay needle = (try ignore (Str.search_forward (Str.regexp_string needle) hay 0); true with Not_found -> false) in
    let own_lock k s = (match lock_of before k with Some l when l.l_start = s -> Some l | _ -> None) in
    (match c with
     | Prewrite (ms, _, s, _, _, _, _) when ms <> [] && List.for_all (fun m -> match own_lock m.m_key s with Some l -> l.l_op = LPess | None -> false) ms ->
       chk "own_pess_prewrite_not_rechecked" (not (contains iresp "WC(")) ("prewrite over the own pessimistic lock answered " ^ iresp)
     | PessLock r when List.exists (fun (k, _) -> match own_lock k r.p_start with Some l -> l.l_op <> LPess | None -> false) r.p_keys ->
       chk "pess_lock_over_prewrite_refused" (unchanged && is_error_resp iresp && iresp <> "E[]R[]" && not (String.length iresp > 3 && String.sub iresp 0 3 = "E[]"))
         ("pessimistic lock over the own prewrite lock answered " ^ iresp)
     | Commit (ks, s, _) when iresp = "ok" && not disc ->
       List.iter (fun k -> chk "commit_ok_committed" (committed after k s) ("commit answered ok but key " ^ hx k ^ " holds no commit record of " ^ hx s)) ks
     | (Commit _ | ResolveLock _ | BatchResolveLock _) when disc ->
       (match c with
        | Commit (ks, s, _) when iresp = "ok" ->
          List.iter (fun k -> chk "commit_ok_committed" (committed after k s) ("commit answered ok but key " ^ hx k ^ " holds no commit record of " ^ hx s)) ks
        | _ -> ());
       List.iter (fun k -> match lock_of before k with
           | Some l when l.l_op = LPess && lock_of after k = None ->
             List.iter (fun t -> chk "commit_pess_lock_no_data" (read_at before k t = read_at after k t)
                           ("finishing a pessimistic lock changed the value of key " ^ hx k ^ " read at " ^ hx t)) (all_ts cmds)
           | _ -> ()) key_ids
     | _ -> ());
    (match c with
     | Get (k, t, rs) ->
       chk "read" (unchanged && resp_s (spec_get before k t rs) = iresp) ("get answered " ^ iresp ^ ", spec " ^ resp_s (spec_get before k t rs))
     | Scan (s, e, l, t, rs) ->
       let sp = resp_s (RPairs (spec_scan before s e l t rs)) in chk "scan_is_gets" (unchanged && sp = iresp) ("scan answered " ^ iresp ^ ", per-key gets " ^ sp)
     | ReverseScan (s, e, l, t, rs) ->
       let sp = resp_s (RPairs (spec_rscan before s e l t rs)) in chk "reverse_mirror" (unchanged && sp = iresp) ("reverse scan answered " ^ iresp ^ ", mirror " ^ sp)
     | ScanLock (s, e, m) ->
       (* the answer lists exactly the locks of the range with start ts <= max, with their primary, type, ttl, for-update ts *)
       (match split ' ' ctxt with
        | ["slh"; _; _; l; _] ->
          (* handler-level request: the first `limit` locks (0 = all) of the requested window *)
          let sp = resp_s (RLocks (handler_scan_lock before N0 N0 s e (nat_of_int (int_of_n (pn l))) m)) in
          chk "scan_lock_handler" (unchanged && sp = iresp) ("scan-lock request answered " ^ iresp ^ ", the first " ^ l ^ " locks of the window are " ^ sp)
        | _ ->
          let sp = resp_s (snd (step before (ScanLock (s, e, m)))) in
          chk "scan_lock_reports_locks" (unchanged && sp = iresp) ("scan-lock answered " ^ iresp ^ ", the locks stored are " ^ sp))
     | Rc q ->
       (* isolation level RC = the same read on the store with every lock removed *)
       let u = unlocked before in
       let expect = (match q with
           | QGet (k, t) -> resp_s (spec_get u k t [])
           | QBatchGet (ks, t) -> resp_s (snd (step u (BatchGet (ks, t, []))))
           | QScan (s, e, l, t) -> resp_s (RPairs (spec_scan u s e l t []))
           | QReverseScan (s, e, l, t) -> resp_s (RPairs (spec_rscan u s e l t []))) in
       chk "rc_ignores_locks" (unchanged && expect = iresp) ("RC read answered " ^ iresp ^ ", lock-free read " ^ expect)
     | DeleteRange (s, e) ->
       chk "delete_range" (iresp = "ok" && List.for_all (fun k -> if in_range s e k then get_ks after k = empty_ks else ks_s (get_ks after k) = ks_s (get_ks before k)) key_ids)
         "delete range left rows inside or touched rows outside the range"
     | GC (s, e, sp) ->
       let refused = gc_refused before s e sp in
       chk "gc_refuses_lock" ((iresp <> "ok") = refused && (iresp = "ok" || unchanged)) ("gc answered " ^ iresp ^ (if refused then " with" else " without") ^ " a lock at or below the safe point");
       if iresp = "ok" then
         List.iter (fun t -> if not (N.ltb t sp) then List.iter (fun k ->
             chk "gc_preserves_reads" (spec_get before k t [] = spec_get after k t [])
               ("read of key " ^ hx k ^ " at " ^ hx t ^ " changed by gc " ^ hx sp)) key_ids)
           (sp :: all_ts cmds)
     | _ -> ())
end

(* ---------------------------------------------------------------- main loop *)
let counts : (string, int) Hashtbl.t = Hashtbl.create 256
let bump k = Hashtbl.replace counts k (1 + (try Hashtbl.find counts k with Not_found -> 0))
let nseq = ref 0 and nops = ref 0 and nmism = ref 0 and npfail = ref 0 and nprops = ref 0
let nontrivial = Hashtbl.create 100000
let disciplined_seqs = ref 0 and disciplined_ops = ref 0

(* current sequence *)
let sid = ref "" and sclass = ref ""
let cmds_txt : string list ref = ref []      (* reversed *)
let cmds : cmd list ref = ref []             (* reversed *)
let mst : store ref = ref []                 (* model state *)
let mdet : (n * (n * n) list) list ref = ref []   (* model state: the deadlock detector *)
let prev_dump = ref "" and prev_resp = ref "" and prev_cmd = ref ""
let seq_bad = ref false and seq_nontrivial = ref false and seq_disc = ref true
let reported = ref 0 and reported_pf = ref 0

let seq_pf = ref false
let report kind what detail =
  (* at most one MISMATCH and one PROPFAIL line per sequence *)
  let flag = if kind = "PROPFAIL" then seq_pf else seq_bad in
  let cnt = if kind = "PROPFAIL" then reported_pf else reported in     (* separate caps: 60 lines of each kind *)
  if not !flag && !cnt < 60 then begin
    incr cnt;
    Printf.printf "%s\t%s\t%s\t%d\t%s\t%s\n" kind !sid !sclass (List.length !cmds_txt - 1) what detail;
    Printf.printf "SEQ\t%s\t%s\n" !sid (String.concat "\t" (List.rev !cmds_txt))
  end;
  flag := true

let in_rpc = ref false
let finish_seq () =
  if !in_rpc then in_rpc := false
  else if !sid <> "" then begin
    incr nseq;
    if !seq_disc then incr disciplined_seqs;
    if !seq_nontrivial then Hashtbl.replace nontrivial (String.concat "|" !cmds_txt) ()
  end

let trace = (try Sys.getenv "MVCC_TRACE" = "1" with Not_found -> false)
let () =
  let samples = ref [] in
  read_lines (fun line ->
    match split_tab line with
    | ["S"; id; cl] ->
      finish_seq ();
      sid := id; sclass := cl; cmds_txt := []; cmds := []; mst := []; mdet := []; seq_bad := false; seq_pf := false; seq_nontrivial := false; seq_disc := true;
      prev_dump := "-/ -/ -/ -/"; prev_resp := ""; prev_cmd := "";
      bump ("class:" ^ cl)
    | ["HS"; id; cls] ->
      finish_seq ();
      sid := id; sclass := cls; cmds_txt := []; seq_bad := false; seq_pf := false; in_rpc := true
    | ["H"; ctxt; want; got; verdict] ->
      let probe = (want = "region-error-probe") in
      if not probe then cmds_txt := ctxt :: !cmds_txt;
      incr nprops; bump "oracle:handler_glue";
      if verdict <> "pass" then begin
        incr npfail;
        let keep = !cmds_txt in
        if probe then cmds_txt := ctxt :: !cmds_txt;
        report "PROPFAIL" "handler_glue" ("handler answered " ^ got ^ ", MVCCStore call (through the glue rules) " ^ want ^ " : " ^ verdict);
        cmds_txt := keep
      end
    | ["O"; ctxt; iresp; idump; iddump] ->
      incr nops;
      let c = (try parse_cmd ctxt with e -> (report "MISMATCH" "unparsable-command" ctxt; Get (N0, N0, []))) in
      cmds_txt := ctxt :: !cmds_txt; cmds := c :: !cmds;
      let ((st', d'), r) = dstep (!mst, !mdet) c in
      let slh_answer st = (match split ' ' ctxt with
          | ["slh"; s; e; l; m] -> Some (resp_s (RLocks (handler_scan_lock st N0 N0 (pn s) (pn e) (nat_of_int (int_of_n (pn l))) (pn m))))
          | _ -> None) in
      let mresp = (match slh_answer !mst with Some a -> a | None -> respd_s r) and mdump = dump_s st' in
      mst := st'; mdet := d';
      let mddump = detector_s d' in
      let opname = List.hd (split ' ' ctxt) in
      let rclass =
        (* coarse class: constructor letters and list punctuation only, payloads dropped *)
        let b = Buffer.create 16 and depth = ref 0 in
        String.iter (fun ch -> if ch = '(' then incr depth else if ch = ')' then decr depth
                      else if !depth = 0 && ((ch >= 'A' && ch <= 'Z') || ch = '[' || ch = ']' || ch = '!' || ch = ';' || ch = ':' || (ch >= 'g' && ch <= 'z')) then Buffer.add_char b ch) iresp;
        let r = Buffer.contents b in if String.length r > 14 then String.sub r 0 14 else r in
      bump ("op:" ^ opname); bump ("resp:" ^ opname ^ ":" ^ rclass);
      if not (iresp = "ok" || iresp = "[ok]" || iresp = "E[]R[]" || iresp = "V(-)" || iresp = "[]" || iresp = "K[]") then seq_nontrivial := true;
      if trace then Printf.printf "TRACE\t%s\timpl=%s\tmodel=%s\timpl_state=%s\tmodel_state=%s\n" ctxt iresp mresp idump mdump;
      if mresp <> iresp then begin incr nmism; report "MISMATCH" "response" ("impl=" ^ iresp ^ "\tmodel=" ^ mresp) end
      else if mdump <> idump then begin incr nmism; report "MISMATCH" "state" ("impl=" ^ idump ^ "\tmodel=" ^ mdump) end;
      (* oracle on the implementation's own detector dump: a finished transaction has no wait-for edges left *)
      (match c with
       | Commit (_, s, _) | Rollback (_, s) | Cleanup (_, s, _) ->
         incr nprops; bump "oracle:deadlock_finish_clears_edges";
         let pre = hx s ^ ">" in
         if List.exists (fun e -> String.length e >= String.length pre && String.sub e 0 (String.length pre) = pre) (split ' ' iddump) then begin
           incr npfail; report "PROPFAIL" "deadlock_finish_clears_edges" ("wait-for edges of the finished transaction remain: " ^ iddump) end
       | _ -> ());
      if mresp <> iresp || mdump <> idump then () else if mddump <> iddump then begin incr nmism; report "MISMATCH" "detector" ("impl=" ^ iddump ^ "\tmodel=" ^ mddump) end;
      (* property oracles on the implementation's observables *)
      let ist_before = (try parse_dump !prev_dump with _ -> []) and ist_after = (try parse_dump idump with e -> (report "MISMATCH" "unparsable-dump" idump; [])) in
      if !seq_disc then begin
        if not (oracle_ts (List.rev !cmds)) then seq_disc := false
      end;
      let chk name ok detail = incr nprops; bump ("oracle:" ^ name); if not ok then begin incr npfail; report "PROPFAIL" name detail end in
      Oracles.run chk !seq_disc c ctxt iresp ist_before ist_after !prev_cmd !prev_resp (List.rev !cmds);
      if !seq_disc then incr disciplined_ops;
      if !nops mod 30011 = 1 && List.length !samples < 8 then samples := line :: !samples;
      prev_dump := idump; prev_resp := iresp; prev_cmd := ctxt
    | _ -> ());
  finish_seq ();
  Printf.printf "STATS\tseqs=%d\tops=%d\tmismatches=%d\tprops=%d\tpropfails=%d\tnontrivial=%d\tdisciplined_seqs=%d\tdisciplined_ops=%d\n"
    !nseq !nops !nmism !nprops !npfail (Hashtbl.length nontrivial) !disciplined_seqs !disciplined_ops;
  Hashtbl.iter (fun k v -> Printf.printf "COUNT\t%s\t%d\n" k v) counts;
  List.iter (fun s -> Printf.printf "SAMPLE\t%s\n" (String.concat " | " (split_tab s))) !samples
