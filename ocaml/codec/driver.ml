(* driver for the Codec model: reads the Go driver's lines on stdin,
   recomputes each result with the extracted model, prints mismatches and statistics. *)
let vres_u r = match r with
  | VOk (rest, v) -> "ok " ^ hex_of_bytes rest ^ " " ^ hex_of_n v
  | VInsufficient -> "err insuf" | VOverflow -> "err overflow" | VInvalid -> "err invalid"
let vres_i r = match r with
  | VOk (rest, v) -> "ok " ^ hex_of_bytes rest ^ " " ^ hex_of_z v
  | VInsufficient -> "err insuf" | VOverflow -> "err overflow" | VInvalid -> "err invalid"
let opt_u r = match r with Some (rest, v) -> "ok " ^ hex_of_bytes rest ^ " " ^ hex_of_n v | None -> "err insuf"
let opt_i r = match r with Some (rest, v) -> "ok " ^ hex_of_bytes rest ^ " " ^ hex_of_z v | None -> "err insuf"

let model op args =
  let a0 () = List.nth args 0 in
  match op with
  | "eb" -> hex_of_bytes (encode_bytes (bytes_of_hex (a0 ())))
  | "db" -> (match decode_bytes (bytes_of_hex (a0 ())) with
             | Some (rest, v) -> "ok " ^ hex_of_bytes rest ^ " " ^ hex_of_bytes v
             | None -> "err")
  | "dbb" -> (match decode_bytes (bytes_of_hex (a0 ())) with
             | Some (rest, v) -> "ok " ^ hex_of_bytes rest ^ " " ^ hex_of_bytes v
             | None -> "err")
  | "ebp" -> hex_of_bytes (bytes_of_hex (a0 ()) @ encode_bytes (bytes_of_hex (List.nth args 1)))
  | "u64" -> hex_of_n (u64_of_int (z_of_hex (a0 ())))
  | "i64" -> hex_of_z (int_of_u64 (n_of_hex (a0 ())))
  | "icx" -> hex_of_n (int_to_cmp_xor (z_of_hex (a0 ())))
  | "cux" -> hex_of_z (cmp_to_int_xor (n_of_hex (a0 ())))
  | "icu" -> hex_of_n (int_to_cmp (z_of_hex (a0 ())))
  | "cui" -> hex_of_z (cmp_to_int (n_of_hex (a0 ())))
  | "eu" -> hex_of_bytes (encode_uint (n_of_hex (a0 ())))
  | "eud" -> hex_of_bytes (encode_uint_desc (n_of_hex (a0 ())))
  | "ei" -> hex_of_bytes (encode_int (z_of_hex (a0 ())))
  | "eid" -> hex_of_bytes (encode_int_desc (z_of_hex (a0 ())))
  | "euv" -> hex_of_bytes (encode_uvarint (n_of_hex (a0 ())))
  | "ev" -> hex_of_bytes (encode_varint (z_of_hex (a0 ())))
  | "ecu" -> hex_of_bytes (encode_cmp_uvarint (n_of_hex (a0 ())))
  | "ecv" -> hex_of_bytes (encode_cmp_varint (z_of_hex (a0 ())))
  | "du" -> opt_u (decode_uint (bytes_of_hex (a0 ())))
  | "dud" -> opt_u (decode_uint_desc (bytes_of_hex (a0 ())))
  | "di" -> opt_i (decode_int (bytes_of_hex (a0 ())))
  | "did" -> opt_i (decode_int_desc (bytes_of_hex (a0 ())))
  | "duv" -> vres_u (decode_uvarint (bytes_of_hex (a0 ())))
  | "dv" -> vres_i (decode_varint (bytes_of_hex (a0 ())))
  | "dcu" -> vres_u (decode_cmp_uvarint (bytes_of_hex (a0 ())))
  | "dcv" -> vres_i (decode_cmp_varint (bytes_of_hex (a0 ())))
  | "me" -> hex_of_bytes (mvcc_encode (bytes_of_hex (a0 ())) (n_of_hex (List.nth args 1)))
  | "md" -> (match mvcc_decode (bytes_of_hex (a0 ())) with
             | MOk (k, v) -> "ok " ^ hex_of_bytes k ^ " " ^ hex_of_n v
             | MErr -> "err")
  | "mke" -> hex_of_bytes (mem_encode_key (bytes_of_hex (a0 ())))
  | "mkd" -> (match mem_decode_key (bytes_of_hex (a0 ())) with
              | Some k -> "ok " ^ hex_of_bytes k
              | None -> "err")
  | "cmp" -> (match lex_cmp (bytes_of_hex (a0 ())) (bytes_of_hex (List.nth args 1)) with
              | Eq -> "eq" | Lt -> "lt" | Gt -> "gt")
  | _ -> "unknown-op"

let () =
  let n = ref 0 and mism = ref 0 and pfail = ref 0 and pn = ref 0 in
  let counts = Hashtbl.create 64 in
  let bump k = Hashtbl.replace counts k (1 + (try Hashtbl.find counts k with Not_found -> 0)) in
  read_lines (fun line ->
    match split_tab line with
    | "P" :: name :: rest ->
        incr pn;
        let verdict = List.nth rest (List.length rest - 1) in
        bump ("P:" ^ name ^ ":" ^ verdict);
        if verdict <> "pass" then begin incr pfail; if !pfail <= 50 then print_endline ("PROPFAIL\t" ^ line) end
    | op :: rest ->
        let rec split acc l = match l with "=>" :: r -> (List.rev acc, r) | x :: r -> split (x :: acc) r | [] -> (List.rev acc, []) in
        let (args, res) = split [] rest in
        let impl = String.concat " " res in
        (* the bytes decoder's error kinds are collapsed to "err" *)
        let impl = if (op = "db" || op = "dbb") && String.length impl >= 3 && String.sub impl 0 3 = "err" then "err" else impl in
        let m = (try model op args with e -> "model-exception " ^ Printexc.to_string e) in
        incr n;
        let cls = if String.length impl >= 3 && String.sub impl 0 3 = "err" then "err" else if impl = "panic" then "panic" else "ok" in
        bump (op ^ ":" ^ cls);
        if m <> impl then begin incr mism; if !mism <= 50 then print_endline ("MISMATCH\t" ^ line ^ "\tmodel=" ^ m) end
    | [] -> ());
  Printf.printf "STATS\tcases=%d\tmismatches=%d\tprops=%d\tpropfails=%d\n" !n !mism !pn !pfail;
  Hashtbl.iter (fun k v -> Printf.printf "COUNT\t%s\t%d\n" k v) counts
