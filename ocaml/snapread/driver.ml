(* driver for the SnapRead model (C05): reads the Go driver's lines on stdin, evaluates the
   specification (read_at / expected on the MVCC truth dump) against what the implementation
   returned (PROPFAIL lines = property oracle failures on the implementation), replays the
   scanner model against the recorded Scan RPCs, the classification table and the cache
   programs (MISMATCH lines = model and implementation disagree), prints statistics. *)
let split_on c s = if s = "-" || s = "" then [] else String.split_on_char c s
let keys_of s = List.map bytes_of_hex (split_on ',' s)
let nonempty k = k <> []

let truth : (int, (n list * (n * wop) list) list) Hashtbl.t = Hashtbl.create 16
let hist_desc : (int, string) Hashtbl.t = Hashtbl.create 16

let parse_writes s =
  List.map (fun w -> match String.split_on_char ':' w with
    | [c; "P"; v] -> (n_of_hex c, Put (bytes_of_hex v))
    | [c; "D"; _] -> (n_of_hex c, Del)
    | _ -> failwith ("bad write " ^ w)) (split_on ',' s)

let get_truth hid = List.rev (try Hashtbl.find truth hid with Not_found -> [])

let show_kvs ko l =
  if l = [] then "-" else
  String.concat "," (List.map (fun (k, v) -> hex_of_bytes k ^ (if ko then "" else "=" ^ hex_of_bytes v)) l)
let strip_vals s =
  if s = "-" then "-" else
  String.concat "," (List.map (fun kv -> List.hd (String.split_on_char '=' kv)) (String.split_on_char ',' s))
let show_opt o = match o with Some v -> "v:" ^ hex_of_bytes v | None -> "none"

let n = ref 0 and mism = ref 0 and pfail = ref 0 and pn = ref 0
let counts = Hashtbl.create 64
let bump k = Hashtbl.replace counts k (1 + (try Hashtbl.find counts k with Not_found -> 0))
let distinct = Hashtbl.create 1024

let propfail line what exp =
  incr pfail; if !pfail <= 5000 then print_endline ("PROPFAIL\t" ^ what ^ "\texpected=" ^ exp ^ "\t" ^ line)
let mismatch line what =
  incr mism; if !mism <= 5000 then print_endline ("MISMATCH\t" ^ what ^ "\t" ^ line)

type rpc = { rstart : n list; rend : n list; rqs : n list; rqe : n list; limit : int;
             locked : n list list; resp : n list list; ok : bool; retry : bool }
let parse_trace s =
  List.map (fun e -> match String.split_on_char '|' e with
    | [a; b; c; d; l; lk; rs; st] ->
        { rstart = bytes_of_hex a; rend = bytes_of_hex b; rqs = bytes_of_hex c; rqe = bytes_of_hex d;
          limit = int_of_string l; locked = keys_of lk; resp = keys_of rs; ok = (st = "ok" || st = "resplock"); retry = (st = "resplock") }
    | _ -> failwith ("bad trace " ^ e)) (split_on ';' s)

let is_pref p s = String.length s >= String.length p && String.sub s 0 (String.length p) = p

(* replay the scanner model against the recorded RPCs; returns (problem option, model output) *)
let retries = ref 0
let replay_scan t ts lo hi batch ko rev trace =
  let b = norm_batch (nat_of_int batch) in
  let c = ref (init_cursor lo hi rev) in
  let out = ref [] and prob = ref None and stopped = ref false and panicked = ref false in
  let fail s = if !prob = None then prob := Some s in
  (* a getData call that sends nothing (empty remaining reverse range) consumes no recorded RPC *)
  let silent () = if (not !c.eof) && no_rpc !c then (match get_data b [] [] !c with GD (_, c') -> c := c' | GDPanic -> ()) in
  List.iteri (fun i r ->
    silent ();
    if !prob = None then begin
      if !stopped || !c.eof || !panicked then fail (Printf.sprintf "rpc %d: model had finished" i) else begin
        let layout = List.filter nonempty [r.rstart; r.rend] in
        let rws = rows_of ts t r.locked in
        let ((loc, rs), re) = scan_req layout !c in
        if loc.r_start <> r.rstart || loc.r_end <> r.rend then fail (Printf.sprintf "rpc %d: region" i)
        else if rs <> r.rqs || re <> r.rqe then
          fail (Printf.sprintf "rpc %d: request model=[%s,%s)" i (hex_of_bytes rs) (hex_of_bytes re))
        else if int_of_nat b <> r.limit then fail (Printf.sprintf "rpc %d: limit" i)
        else if r.retry then incr retries   (* response-level lock error: same request again, cursor unchanged *)
        else match get_data b layout rws !c with
          | GDPanic -> if r.ok then fail (Printf.sprintf "rpc %d: model panics, implementation served" i) else panicked := true
          | GD (ps, c') ->
              if not r.ok then fail (Printf.sprintf "rpc %d: implementation panicked, model serves" i)
              else if List.map fst ps <> r.resp then
                fail (Printf.sprintf "rpc %d: response model=%s" i (String.concat "," (List.map (fun (k, _) -> hex_of_bytes k) ps)))
              else begin
                let (o, stop) = consume ko c' ps in
                out := !out @ o; c := c'; if stop then stopped := true
              end
      end
    end) trace;
  silent ();
  if !prob = None && not (!stopped || !c.eof || !panicked) then fail "model wants more rpcs";
  (!prob, !out, !panicked)

let action_of s = match s with
  | "NoAction" -> NoAction | "TTLExpireRollback" -> TTLExpireRollback | "LockNotExistRollback" -> LockNotExistRollback
  | "MinCommitTSPushed" -> MinCommitTSPushed | "TTLExpirePessimisticRollback" -> TTLExpirePessimisticRollback
  | "LockNotExistDoNothing" -> LockNotExistDoNothing | _ -> failwith "action"

let count_distinct_keys l =
  let h = Hashtbl.create 8 in List.iter (fun (k, _) -> Hashtbl.replace h k ()) l; Hashtbl.length h

let handle line =
  match split_tab line with
  | "HIST" :: hid :: _ -> Hashtbl.replace hist_desc (int_of_string hid) line
  | ["TRUTH"; hid; k; ws] ->
      let hid = int_of_string hid in
      Hashtbl.replace truth hid ((bytes_of_hex k, parse_writes ws) :: (try Hashtbl.find truth hid with Not_found -> []))
  | ["GET"; hid; label; ts; k; "=>"; res] ->
      incr n; incr pn;
      let t = get_truth (int_of_string hid) in
      let exp = show_opt (read_at (n_of_hex ts) (bytes_of_hex k) t) in
      bump ("GET:" ^ label ^ ":" ^ (if res = "none" then "none" else if is_pref "v:" res then "val" else "fail"));
      Hashtbl.replace distinct ("G" ^ hid ^ ts ^ k ^ res) ();
      if label = "fault" && res = "err:injected" then bump "FAULT:get-failed"
      else if exp <> res then propfail line "get<>read_at" exp
  | ["BGET"; hid; label; ts; ks; "=>"; res] ->
      incr n; incr pn;
      let t = get_truth (int_of_string hid) in
      let ks = List.sort_uniq compare (keys_of ks) in
      let ks = List.sort (fun a b -> match lex_cmp a b with Lt -> -1 | Eq -> 0 | Gt -> 1) ks in
      let exp = List.filter_map (fun k -> match read_at (n_of_hex ts) k t with Some v -> Some (k, v) | None -> None) ks in
      bump ("BGET:" ^ label ^ ":" ^ (if is_pref "err" res || is_pref "panic" res then "fail" else "ok"));
      Hashtbl.replace distinct ("B" ^ hid ^ ts ^ res) ();
      if label = "fault" && res = "err:injected" then bump "FAULT:batchget-failed"
      else if show_kvs false exp <> res then propfail line "batchget<>read_at" (show_kvs false exp)
  | ["SCAN"; hid; label; ts; lo; hi; batch; ko; rev; nreg; "=>"; res; trace] ->
      incr n; incr pn;
      let t = get_truth (int_of_string hid) in
      let ts = n_of_hex ts and lo = bytes_of_hex lo and hi = bytes_of_hex hi in
      let ko = (ko = "1") and rev = (rev = "1") and batch = int_of_string batch in
      let exp = expected ts lo hi t in
      let exp = if rev then List.rev exp else exp in
      let exps = show_kvs ko exp in
      let ress = if ko then strip_vals res else res in
      let failed = is_pref "err" res || is_pref "panic" res in
      bump ("SCAN:" ^ label ^ ":" ^ (if rev then "rev" else "fwd") ^ ":" ^ (if failed then "fail" else "ok"));
      Hashtbl.replace distinct ("S" ^ hid ^ line) ();
      let oracle_ok = (not failed) && exps = ress in
      let tr = if trace = "!" then [] else parse_trace trace in
      let cls = "none" in
      if not oracle_ok then propfail line ("scan<>expected\tclass=" ^ cls) exps;
      (* model replay against the recorded RPCs *)
      let (prob, mout, mpanic) = if trace = "!" then (None, [], false) else replay_scan t ts lo hi batch ko rev tr in
      bump ("RPCS:" ^ string_of_int (min 9 (List.length tr)));
      (match prob with
       | Some p -> mismatch line ("scan-replay: " ^ p ^ "\tclass=" ^ cls)
       | None ->
           if mpanic then (if not (is_pref "panic" res) then mismatch line ("scan-replay: model panics\tclass=" ^ cls))
           else if trace <> "!" && show_kvs ko mout <> ress then mismatch line ("scan-replay: output model=" ^ show_kvs ko mout ^ "\tclass=" ^ cls))
  | ["CLS"; fr; ttl; commit; act; ts; "=>"; res] ->
      incr n;
      let v = classify (fr = "1") { st_ttl = n_of_hex ttl; st_commit = n_of_hex commit; st_action = action_of act } (n_of_hex ts) in
      let m = (match v with Ignore -> "ignore" | Access -> "access" | Wait -> "wait") in
      bump ("CLS:" ^ res);
      Hashtbl.replace distinct ("C" ^ line) ();
      if m <> res then mismatch line ("classify model=" ^ m)
  | ["ATOMIC"; hid; start; k; "=>"; res] ->
      incr pn;
      bump ("ATOMIC:" ^ res);
      if res <> "checked" then propfail line "resolved-to-wrong-outcome" "every key of a transaction with a committed primary carries that commit or the lock"
  | "ALIAS" :: hid :: what :: rest ->
      incr pn;
      let res = List.nth rest (List.length rest - 1) in
      bump ("ALIAS:" ^ res);
      if res <> "checked" then propfail line ("input-slice-modified " ^ what) "the caller's key slice is left unchanged"
  | ["CACHE"; hid; label; sp; ops; "=>"; res] ->
      incr n; incr pn;
      let t = get_truth (int_of_string hid) in
      let hts = (match split_tab (Hashtbl.find hist_desc (int_of_string hid)) with _ :: _ :: ts1 :: _ -> n_of_hex ts1 | _ -> failwith "hist") in
      let ops = List.map (fun o ->
        let a = String.sub o 2 (String.length o - 2) in
        match o.[0] with
        | 'g' -> CGet (bytes_of_hex a) | 'b' -> CBatchGet (keys_of a) | 't' -> CSetTS (n_of_hex a)
        | 'G' -> CGetErr (bytes_of_hex a) | 'B' -> CBatchErr (keys_of a, [])
        | _ -> failwith "cache op") (String.split_on_char ';' ops) in
      let rd ts k = read_at ts k t in
      let s0 = { version = hts; cached = None } in
      let show r = match r with
        | RGet o -> show_opt o
        | RUnit -> "ok"
        | RErr -> "err:injected"
        | RRefused -> "err:refused"
        | RBatch l ->
            let l = List.sort_uniq compare l in
            let l = List.sort (fun (a, _) (b, _) -> match lex_cmp a b with Lt -> -1 | Eq -> 0 | Gt -> 1) l in
            show_kvs false (List.filter_map (fun (k, o) -> match o with Some v -> Some (k, v) | None -> None) l) in
      let sp = n_of_hex sp in
      let mres = List.map show (c_run rd sp s0 ops) in
      let fin = c_final rd sp s0 ops in
      let size = (match fin.cached with Some c -> count_distinct_keys c | None -> 0) in
      let m = String.concat ";" (mres @ [Printf.sprintf "size=%d" size]) in
      bump ("CACHE:" ^ label);
      Hashtbl.replace distinct ("K" ^ line) ();
      (* the model's answers are the uncached answers (C05_cache_transparent), so a difference in
         an answer is an oracle failure; a difference only in the cache size is a model mismatch *)
      let drop_last s = String.concat ";" (List.rev (List.tl (List.rev (String.split_on_char ';' s)))) in
      if drop_last m <> drop_last res then propfail line "cache-program<>uncached" m
      else if fin.version = maxts && not (is_pref "size=0" (List.hd (List.rev (String.split_on_char ';' res)))) then
        propfail line "cached-at-max-ts" m
      else if m <> res then mismatch line ("cache size model=" ^ m)
  | ["LATER"; hid; lockts; callerts; "=>"; res] ->
      incr pn;
      bump ("LATER:" ^ res);
      if res <> "checked" then propfail line "later-lock-not-ignored" "no status check for a lock with start_ts > snapshot ts"
  | ["BBUF"; hid; label; own; ks; dump; "=>"; res] ->
      incr n; incr pn;
      let own = n_of_hex own in
      let wkeys = List.map (fun e -> match String.split_on_char ':' e with
        | [k; st; ty; v] ->
            let kind = (match ty with "Put" -> LPut (bytes_of_hex v) | "Del" -> LDel | "Lock" -> LLock | _ -> LPess) in
            (bytes_of_hex k, { ks_ws = []; ks_lock = Some { l_start = n_of_hex st; l_kind = kind } })
        | _ -> failwith ("bad lock dump " ^ e)) (split_on ',' dump) in
      let w = { w_keys = wkeys; w_txns = [] } in
      let exp = (match buffer_batch_get (nat_of_int 500) (fun _ -> EvOk) [] w own (keys_of ks) with
        | Some l ->
            let l = List.sort_uniq compare l in
            show_kvs false (List.sort (fun (a, _) (b, _) -> match lex_cmp a b with Lt -> -1 | Eq -> 0 | Gt -> 1) l)
        | None -> "model-out-of-fuel") in
      bump ("BBUF:" ^ label ^ ":" ^ (if res = "-" then "empty" else if is_pref "err" res || is_pref "panic" res then "fail" else "pairs"));
      Hashtbl.replace distinct ("U" ^ line) ();
      if exp <> res then propfail line "buffer-tier<>own-flushed-locks" exp
  | ["OPTS"; hid; mask; _; "=>"; res] ->
      incr pn;
      let m = int_of_string mask in
      List.iter (fun (b, nm) -> if m land b <> 0 then bump ("OPT:" ^ nm))
        [(1, "runtime-stats"); (2, "read-timeout"); (4, "interceptor"); (8, "resource-group"); (16, "stale-read"); (32, "replica-read"); (64, "vars")];
      if m = 0 then bump "OPT:none";
      if res <> "ok" then propfail line "option-plumbing" "ok"
  | "MODE" :: _ :: a :: c :: n :: _ ->
      bump ("MODE:" ^ a ^ ":" ^ c ^ (if n = "asyncRPCs=0" then ":no-async-rpc" else ":async-rpcs"))
  | [] | [""] -> ()
  | _ -> mismatch line "unparsed line"

let () =
  read_lines (fun line -> try handle line with e -> mismatch line ("model-exception " ^ Printexc.to_string e));
  Printf.printf "COUNT\tSCAN-RETRIES-REPLAYED\t%d\n" !retries;
  Printf.printf "STATS\tcases=%d\tmismatches=%d\tprops=%d\tpropfails=%d\tdistinct=%d\n" !n !mism !pn !pfail (Hashtbl.length distinct);
  Hashtbl.iter (fun k v -> Printf.printf "COUNT\t%s\t%d\n" k v) counts
