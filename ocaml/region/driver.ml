(* driver for the Region model (property C09): replays the Go driver's trace (see
   harness/go/ov_c09/internal/locate/zz_verif_c09_region_driver.go), recomputes every result and the whole
   cache state with the extracted model, prints mismatches and statistics. The PD oracle handed to the model
   answers the t-th call with the t-th logged Q line and checks that the request is the one the code sent. *)
exception Pd_mismatch of string
exception Parse of string

let split_on c s = String.split_on_char c s
let nn i = n_of_int i
let ni x = int_of_n x
let nat i = nat_of_int i

let parse_peer s = match split_on ':' s with
  | [a; b] -> (nn (int_of_string a), nn (int_of_string b))
  | _ -> raise (Parse ("peer " ^ s))
let parse_peers s = if s = "_" then [] else List.map parse_peer (split_on '/' s)
let parse_bk s =
  if s = "-" then None else
  match split_on '#' s with
  | [v; ks] -> Some (nn (int_of_string v), (if ks = "" then [] else List.map bytes_of_hex (split_on '/' ks)))
  | _ -> raise (Parse ("buckets " ^ s))
let show_bk b = match b with
  | None -> "-"
  | Some (v, ks) -> Printf.sprintf "%d#%s" (ni v) (String.concat "/" (List.map hex_of_bytes ks))
let parse_desc s = match split_on ',' s with
  | id :: st :: en :: ver :: conf :: peers :: leader :: rest ->
      { d_id = nn (int_of_string id); d_start = bytes_of_hex st; d_end = bytes_of_hex en; d_ver = nn (int_of_string ver);
        d_conf = nn (int_of_string conf); d_peers = parse_peers peers; d_leader = parse_peer leader;
        d_bk = (match rest with [b] -> parse_bk b | _ -> None) }
  | _ -> raise (Parse ("desc " ^ s))
let parse_descs s = if s = "_" then [] else List.map parse_desc (split_on ';' s)
let parse_verid s = match split_on ',' s with
  | [id; ver; conf] -> ((nn (int_of_string id), nn (int_of_string ver)), nn (int_of_string conf))
  | _ -> raise (Parse ("verid " ^ s))
let parse_range s = match split_on ':' s with
  | [a; b] -> (bytes_of_hex a, bytes_of_hex b)
  | _ -> raise (Parse ("range " ^ s))
let parse_ranges s = if s = "_" then [] else List.map parse_range (split_on ';' s)

let show_verid ((id, ver), conf) = Printf.sprintf "%d,%d,%d" (ni id) (ni ver) (ni conf)
let show_peers ps = if ps = [] then "_" else String.concat "/" (List.map (fun (a, b) -> Printf.sprintf "%d:%d" (ni a) (ni b)) ps)
let show_loc r = Printf.sprintf "%s,%s,%s" (show_verid (r_verid r)) (hex_of_bytes r.r_start) (hex_of_bytes r.r_end)
let show_locs rs = if rs = [] then "_" else String.concat ";" (List.map show_loc rs)
let show_ranges rs = if rs = [] then "_" else String.concat ";" (List.map (fun (a, b) -> hex_of_bytes a ^ ":" ^ hex_of_bytes b) rs)
let jn l = if l = [] then "_" else String.concat ";" l
let show_dump c =
  let ents = List.map (fun r ->
    let fl = (if r.r_reload then 1 else 0) + (if r.r_pending then 4 else 0) + (if r.r_ready then 8 else 0) in
    Printf.sprintf "%s,%s,%s,%d,%d,%d,%d,%s,%s,%s" (show_verid (r_verid r)) (hex_of_bytes r.r_start) (hex_of_bytes r.r_end)
      (int_of_nat r.r_work) (if r.r_expired then 1 else 0) (ni r.r_reason) fl (show_peers r.r_peers)
      (String.concat "/" (List.map (fun x -> string_of_int (ni x)) r.r_sepochs)) (show_bk r.r_bk)) c.c_sorted in
  let regs = List.sort compare (List.map (fun (v, s) -> show_verid v ^ ">" ^ hex_of_bytes s) c.c_regions) in
  let lat = List.sort compare (List.map (fun (id, (v, cf)) -> Printf.sprintf "%d>%d,%d" (ni id) (ni v) (ni cf)) c.c_latest) in
  let se = List.sort compare (List.filter_map (fun (id, e) -> if ni e = 0 then None else Some (Printf.sprintf "%d>%d" (ni id) (ni e))) c.c_sepochs) in
  let tb = List.sort compare (List.map (fun x -> string_of_int (ni x)) c.c_tomb) in
  jn ents ^ "\t" ^ jn regs ^ "\t" ^ jn lat ^ "\t" ^ jn se ^ "\t" ^ jn (List.sort (fun a b -> compare (int_of_string a) (int_of_string b)) tb)

(* rebuild a model state from an implementation dump (used to resynchronise after a mismatch) *)
let parse_dump ents regs lat ses tbs =
  let ent s = match split_on ',' s with
    | [id; ver; conf; st; en; work; exp; reason; fl; peers; eps; bk] ->
        let fl = int_of_string fl in
        { r_id = nn (int_of_string id); r_start = bytes_of_hex st; r_end = bytes_of_hex en; r_ver = nn (int_of_string ver);
          r_conf = nn (int_of_string conf); r_peers = parse_peers peers; r_work = nat (int_of_string work);
          r_expired = (exp = "1"); r_reason = nn (int_of_string reason);
          r_reload = (fl land 1 <> 0); r_pending = (fl land 4 <> 0); r_ready = (fl land 8 <> 0);
          r_sepochs = (if eps = "" then [] else List.map (fun x -> nn (int_of_string x)) (split_on '/' eps)); r_bk = parse_bk bk }
    | _ -> raise (Parse ("ent " ^ s)) in
  let reg s = match split_on '>' s with [v; st] -> (parse_verid v, bytes_of_hex st) | _ -> raise (Parse s) in
  let la s = match split_on '>' s with
    | [id; vc] -> (match split_on ',' vc with [v; c] -> (nn (int_of_string id), (nn (int_of_string v), nn (int_of_string c))) | _ -> raise (Parse s))
    | _ -> raise (Parse s) in
  let l f s = if s = "_" then [] else List.map f (split_on ';' s) in
  let sp s = match split_on '>' s with [id; e] -> (nn (int_of_string id), nn (int_of_string e)) | _ -> raise (Parse s) in
  { c_sorted = l ent ents; c_regions = l reg regs; c_latest = l la lat; c_sepochs = l sp ses; c_tomb = l (fun x -> nn (int_of_string x)) tbs }

(* ---- PD oracle from the logged Q lines ---- *)
let show_req q = match q with
  | ReqGet k -> "get\t" ^ hex_of_bytes k
  | ReqPrev k -> "prev\t" ^ hex_of_bytes k
  | ReqById id -> "byid\t" ^ string_of_int (ni id)
  | ReqScan (s, e, lim) -> Printf.sprintf "scan\t%s\t%s\t%d" (hex_of_bytes s) (hex_of_bytes e) (int_of_nat lim)
  | ReqBatch (rs, lim) -> Printf.sprintf "batch\t%s\t%d" (show_ranges rs) (int_of_nat lim)
let make_pd (qs : string list array) =
  fun t q ->
    let i = int_of_nat t in
    if i >= Array.length qs then raise (Pd_mismatch ("model asks PD a call the code did not make: " ^ show_req q));
    let fields = qs.(i) in
    let n = List.length fields in
    let reqs = String.concat "\t" (List.filteri (fun j _ -> j < n - 1) fields) in
    let ans = List.nth fields (n - 1) in
    if reqs <> show_req q then raise (Pd_mismatch (Printf.sprintf "PD call %d: code asked [%s], model asks [%s]" i reqs (show_req q)));
    (match q with
     | ReqGet _ | ReqPrev _ | ReqById _ -> PdOne (if ans = "none" then None else Some (parse_desc ans))
     | ReqScan _ | ReqBatch _ -> PdMany (parse_descs ans))

let fuel = nat 3000
let limit128 = nat 128

let res_loc r = match r with Ok x -> "ok " ^ show_loc x | Err _ -> "err"
let res_locs r = match r with Ok x -> "ok " ^ show_locs x | Err _ -> "err"

(* returns (result string, new cache, number of PD calls used) *)
(* ---- the real sender's effect on the cache, explained as a composition of model operations ----
   after RegionRequestSender.SendReqCtx the implementation's dump must be reachable from the model state by:
   OnRegionEpochNotMatch with the returned current regions (if that was the final region error), bumps of store fail-epochs,
   and per entry: a switch of the work peer (switchWorkLeaderToPeer = switch_work, or plain set_work), reload flags,
   an invalidation (invalidate_r with the reason found). Everything else is unexplained = a mismatch. *)
(* the region states PD and the stores reported in the current sequence (the history of C09_converges_reachable) *)
let history : desc list ref = ref []
let hist_seen : (string, unit) Hashtbl.t = Hashtbl.create 256
let note_desc (d : desc) =
  let k = show_verid ((d.d_id, d.d_ver), d.d_conf) ^ "," ^ hex_of_bytes d.d_start ^ "," ^ hex_of_bytes d.d_end ^ "," ^ show_peers d.d_peers in
  if not (Hashtbl.mem hist_seen k) then begin
    Hashtbl.replace hist_seen k ();
    history := { d with d_leader = (nn 0, nn 0); d_bk = None } :: !history end
let note_ans a = (match a with PdOne (Some d) -> note_desc d | PdOne None -> () | PdMany l -> List.iter note_desc l); a
(* from the first quiescent point of a sequence on, PD must report the ground truth (hypothesis of C09_converges):
   the answer to "region of k" is the current region that contains k, with its leader *)
let quiescent = ref false
let cur_truth : desc list ref = ref []
let pd_truth_checked = ref 0
let pd_truth_bad : string list ref = ref []
let same_desc (a : desc) (b : desc) =
  a.d_id = b.d_id && a.d_start = b.d_start && a.d_end = b.d_end && a.d_ver = b.d_ver && a.d_conf = b.d_conf && a.d_peers = b.d_peers
let check_pd_truth q a =
  if !quiescent then
    (match q with
     | ReqGet k ->
         incr pd_truth_checked;
         let want = List.filter (fun t -> contains t.d_start t.d_end k) !cur_truth in
         (match a, want with
          | PdOne (Some d), [t] when same_desc d t && d.d_leader = t.d_leader -> ()
          | _ -> pd_truth_bad := ("PD answer for key " ^ hex_of_bytes k ^ " is not the current region with its leader") :: !pd_truth_bad)
     | _ -> ())
let sender_prims : (string, int) Hashtbl.t = Hashtbl.create 16
let rec explain (c : cache) (res : string) (target : cache) : (cache * string list) option =
  (* a send failure on an earlier attempt (store fail-epoch bump) may precede the final epoch-not-match answer: try that order first *)
  let sts = List.sort_uniq compare (List.map fst c.c_sepochs @ List.map fst target.c_sepochs) in
  let mono = List.for_all (fun st -> ni (store_epoch target.c_sepochs st) >= ni (store_epoch c.c_sepochs st)) sts in
  let differ = List.exists (fun st -> store_epoch target.c_sepochs st <> store_epoch c.c_sepochs st) sts in
  if mono && differ then
    (match explain { c with c_sepochs = target.c_sepochs } res target with
     | Some (t, ps) -> Some (t, "store_epoch_bump" :: ps)
     | None -> explain1 c res target)
  else explain1 c res target
and explain1 (c : cache) (res : string) (target : cache) : (cache * string list) option =
  let prims = ref [] in
  let note p = prims := p :: !prims in
  let c0 = match split_on ' ' res with
    | "ok" :: "regionerr" :: "epochnotmatch" :: ctx :: cur :: _ when ctx <> "-" ->
        (match split_on '@' ctx with
         | [v; st] -> List.iter note_desc (parse_descs cur);
                      if !quiescent then List.iter (fun d -> incr pd_truth_checked;
                          if not (List.exists (same_desc d) !cur_truth) then
                            pd_truth_bad := ("a store's EpochNotMatch lists region " ^ show_verid ((d.d_id, d.d_ver), d.d_conf) ^ " which is not a current region") :: !pd_truth_bad) (parse_descs cur);
                      (match on_epoch_not_match c (parse_verid v) (nn (int_of_string st)) (parse_descs cur) with
                       | Ok (_, c') -> note "on_epoch_not_match"; c' | Err _ -> c)
         | _ -> c)
    | _ -> c in
  if c0.c_tomb <> target.c_tomb || List.length c0.c_sorted <> List.length target.c_sorted then None else
  let ep l st = store_epoch l st in
  let stores = List.sort_uniq compare (List.map fst c0.c_sepochs @ List.map fst target.c_sepochs) in
  let bumps_ok = List.for_all (fun st -> ni (ep target.c_sepochs st) >= ni (ep c0.c_sepochs st)) stores in
  if not bumps_ok then None else begin
    List.iter (fun st -> if ep target.c_sepochs st <> ep c0.c_sepochs st then note "store_epoch_bump") stores;
    let fix_entry se (m : region) (t : region) : (region * string list) option =
      let cands_work = if m.r_work = t.r_work then [ (m, []) ]
                       else [ (switch_work se t.r_work m, ["switch_work"]); (set_work t.r_work m, ["set_work"]) ] in
      let rec first = function
        | [] -> None
        | (m1, p1) :: rest ->
            let (m2, p2) = if (t.r_reload && not m1.r_reload) || (t.r_pending && not m1.r_pending)
              then (set_flags (fun x -> x.r_reload || t.r_reload) (fun x -> x.r_pending || t.r_pending) (fun x -> x.r_ready) m1, ["set_flags"]) else (m1, []) in
            let (m3, p3) = if t.r_reason <> m2.r_reason then (invalidate_r t.r_reason m2, ["invalidate"]) else (m2, []) in
            if m3 = t then Some (m3, p1 @ p2 @ p3) else first rest in
      first cands_work in
    let try_with se =
      let ok = ref true and ps = ref [] in
      List.iter2 (fun m t -> match fix_entry se m t with
                    | Some (_, p) -> ps := p @ !ps | None -> ok := false) c0.c_sorted target.c_sorted;
      if !ok then Some !ps else None in
    let same_frame = (c0.c_regions = target.c_regions || List.sort compare c0.c_regions = List.sort compare target.c_regions)
                     && List.sort compare c0.c_latest = List.sort compare target.c_latest in
    if not same_frame then None else
    match (match try_with target.c_sepochs with Some p -> Some p | None -> try_with c0.c_sepochs) with
    | Some p -> List.iter note p; Some (target, !prims)
    | None -> None
  end

let txn_mode = ref false
let run_op (c : cache) (op : string) (args : string list) (qs : string list array) =
  let pd0 = (if !txn_mode then codec_pd (make_pd qs) else make_pd qs) in
  let pd = fun t q -> let a = note_ans (pd0 t q) in check_pd_truth q a; a and budget = nat (Array.length qs) and t0 = O in
  let a i = List.nth args i in
  let fin ((r, c1), t1) show = (show r, c1, int_of_nat t1) in
  match op with
  | "locate" -> fin (find_region_by_key pd budget fuel t0 c (bytes_of_hex (a 0)) false) res_loc
  | "locate_end" -> fin (find_region_by_key pd budget fuel t0 c (bytes_of_hex (a 0)) true) res_loc
  | "try" -> ((match try_find c (bytes_of_hex (a 0)) false with Some r -> "ok " ^ show_loc r | None -> "none"), c, 0)
  | "byid" -> fin (locate_by_id pd budget t0 c (nn (int_of_string (a 0)))) res_loc
  | "byidpd" ->
      (match load_by_id pd budget t0 (nn (int_of_string (a 0))) with
       | (Ok r, t1) -> ("ok " ^ show_loc r, c, int_of_nat t1) | (Err _, t1) -> ("err", c, int_of_nat t1))
  | "bloadfrom" ->
      fin (batch_load_range pd budget fuel t0 c (bytes_of_hex (a 0)) [] (nat (int_of_string (a 1))))
        (fun r -> match r with Err _ -> "err" | Ok rs -> "ok " ^ hex_of_bytes (List.nth rs (List.length rs - 1)).r_end)
  | "range" -> fin (locate_key_range pd budget limit128 fuel t0 c (bytes_of_hex (a 0)) (bytes_of_hex (a 1)) []) res_locs
  | "batch" -> fin (batch_locate pd budget limit128 fuel t0 c (parse_ranges (a 1)) (a 0 = "1")) res_locs
  | "group" ->
      let keys = if a 0 = "" then [] else List.map bytes_of_hex (split_on ';' (a 0)) in
      fin (group_assign pd budget fuel t0 c keys None [])
        (fun r -> match r with
           | Err _ -> "err"
           | Ok asg ->
               let first = (match asg with (_, r) :: _ -> show_verid (r_verid r) | [] -> "0,0,0") in
               let gs = List.sort compare (List.map (fun (v, ks) -> show_verid v ^ "=" ^ String.concat "/" (List.map hex_of_bytes ks)) (groups_of asg)) in
               "ok " ^ first ^ " " ^ String.concat ";" gs)
  | "groupf" ->
      (* GroupKeysByRegion with tikv.equalRegionStartKey as filter; first = region of key 0 if that key is kept, else the zero id *)
      let keys = if a 0 = "" then [] else List.map bytes_of_hex (split_on ';' (a 0)) in
      fin (group_assign_f pd budget eq_start fuel t0 c keys None [])
        (fun r -> match r with
           | Err _ -> "err"
           | Ok asg ->
               let first = (match keys with
                 | k0 :: _ ->
                     (match group_assign_f pd0 budget eq_start fuel t0 c [k0] None [] with
                      | ((Ok ((_, r) :: _), _), _) -> show_verid (r_verid r)
                      | _ -> "0,0,0")
                 | [] -> "0,0,0") in
               let gs = List.sort compare (List.map (fun (v, ks) -> show_verid v ^ "=" ^ String.concat "/" (List.map hex_of_bytes ks)) (groups_of asg)) in
               "ok " ^ first ^ " " ^ String.concat ";" gs)
  | "listids" -> fin (list_region_ids pd budget fuel t0 c (bytes_of_hex (a 0)) (bytes_of_hex (a 1)) [])
        (fun r -> match r with Err _ -> "err" | Ok rs -> "ok " ^ String.concat ";" (List.map (fun r -> string_of_int (ni r.r_id)) rs))
  | "loadrange" -> fin (load_regions_in_range pd budget limit128 fuel t0 c (bytes_of_hex (a 0)) (bytes_of_hex (a 1)) []) res_locs
  | "bload" -> fin (batch_load_range pd budget fuel t0 c (bytes_of_hex (a 0)) (bytes_of_hex (a 1)) (nat (int_of_string (a 2)))) res_locs
  | "bloads" -> fin (batch_load_ranges pd budget fuel t0 c (parse_ranges (a 2)) (nat (int_of_string (a 1))) (a 0 = "1")) res_locs
  | "inval" -> ("ok", invalidate c (parse_verid (a 0)) (nn (int_of_string (a 1))), 0)
  | "expire" ->
      (match entry_at c (bytes_of_hex (a 0)) (parse_verid (a 1)) with
       | Some r -> ("ok", upd_entry c r expire_r, 0) | None -> ("model: no such entry", c, 0))
  | "flag" ->
      let bits = int_of_string (a 2) in
      (match entry_at c (bytes_of_hex (a 0)) (parse_verid (a 1)) with
       | Some r -> ("ok", upd_entry c r (set_flags (fun x -> x.r_reload || bits land 1 <> 0) (fun x -> x.r_pending || bits land 4 <> 0)
                                           (fun x -> x.r_ready || bits land 8 <> 0)), 0)
       | None -> ("model: no such entry", c, 0))
  | "clear" -> ("ok", { empty_cache with c_sepochs = c.c_sepochs; c_tomb = c.c_tomb }, 0)
  | "reresolve" ->
      let c1 = if a 0 = "_" then c else
        List.fold_left (fun c x -> match split_on ':' x with
          | [sid; rm] ->
              (* outcome of the store check: 0 confirmed, 1 removed, 2 GetStore failed transiently (nothing changes) *)
              store_check c (nn (int_of_string sid)) (match rm with "1" -> RoRemoved | "2" -> RoTransient | _ -> RoOk)
          | _ -> raise (Parse x)) c (split_on '/' (a 0)) in
      ("ok", c1, 0)
  | "lbucket" ->
      fin (find_region_by_key pd budget fuel t0 c (bytes_of_hex (a 0)) false)
        (fun r -> match r with
           | Err _ -> "err"
           | Ok x ->
               let v = ni (bk_ver x.r_bk) in
               (match x.r_bk with
                | None -> Printf.sprintf "ok %s v%d nobuckets" (show_loc x) v
                | Some (_, keys) ->
                    (match locate_bucket_full x.r_start x.r_end keys (bytes_of_hex (a 1)) with
                     | None -> Printf.sprintf "ok %s v%d nil" (show_loc x) v
                     | Some (bs, be) -> Printf.sprintf "ok %s v%d %s:%s" (show_loc x) v (hex_of_bytes bs) (hex_of_bytes be))))
  | "bvnm" ->
      (match parse_bk (a 1) with
       | Some (ver, keys) -> ("ok", on_bucket_version_not_match c (parse_verid (a 0)) ver keys, 0)
       | None -> ("model: bad buckets", c, 0))
  | "ubuckets" ->
      let (c1, t1) = update_buckets pd budget t0 c (parse_verid (a 0)) (nn (int_of_string (a 1))) (nn (int_of_string (a 2))) in
      ("ok", c1, int_of_nat t1)
  | "sendfail" -> ("ok", on_send_fail c (parse_verid (a 0)) (nat (int_of_string (a 1))) (a 2 = "1"), 0)
  | "gc" -> ("ok", gc c, 0)
  | "uplead" ->
      let leader = if a 1 = "none" then None else Some (parse_peer (a 1)) in
      ("ok", update_leader c (parse_verid (a 0)) leader (nat (int_of_string (a 2))), 0)
  | "epoch" ->
      List.iter note_desc (parse_descs (a 2));
      (match on_epoch_not_match c (parse_verid (a 0)) (nn (int_of_string (a 1))) (parse_descs (a 2)) with
       | Ok (rt, c1) -> ((if rt then "ok retry" else "ok"), c1, 0)
       | Err _ -> ("err", c, 0))
  | "ctx" ->
      (match rpc_ctx c (parse_verid (a 0)) with
       | (Some (r, (pid, sid)), c1) -> (Printf.sprintf "ok %d:%d %d" (ni pid) (ni sid) (int_of_nat r.r_work), c1, 0)
       | (None, c1) -> ("none", c1, 0))
  | "ctxread" ->
      let kind = (match a 1 with "follower" -> RkFollower | "mixed" -> RkMixed | "preferleader" -> RkPreferLeader | _ -> RkLeader) in
      (match rpc_ctx_read c (parse_verid (a 0)) kind (nn (int_of_string (a 2))) (a 3 = "1") with
       | (Some ((_, (pid, sid)), i), c1) -> (Printf.sprintf "ok %d:%d %d" (ni pid) (ni sid) (int_of_nat i), c1, 0)
       | (None, c1) -> ("none", c1, 0))
  | "u_newregion" ->
      let kinds = List.map (fun x -> match split_on ':' x with
                    | [sid; k; t] -> (int_of_string sid, (int_of_string k, t = "1")) | _ -> raise (Parse x)) (split_on '/' (a 3)) in
      let ps = List.map (fun x -> match split_on ':' x with
                 | [pid; sid; w; l] ->
                     let (k, tomb) = List.assoc (int_of_string sid) kinds in
                     { p_peer = (nn (int_of_string pid), nn (int_of_string sid)); p_witness = (w = "1"); p_learner = (l = "1");
                       p_kind = nn k; p_tomb = tomb }
                 | _ -> raise (Parse x)) (split_on '/' (a 0)) in
      let down = if a 2 = "_" then [] else List.map parse_peer (split_on '/' (a 2)) in
      let ix l = if l = [] then "_" else String.concat "/" (List.map (fun i -> string_of_int (int_of_nat i)) l) in
      ((match new_region_peers (parse_peer (a 1)) down ps with
        | None -> "err"
        | Some (((avail, tikv), tiflash), w) ->
            Printf.sprintf "ok avail=%s tikv=%s tiflash=%s work=%d" (show_peers (List.map (fun p -> p.p_peer) avail)) (ix tikv) (ix tiflash) (int_of_nat w)), c, 0)
  | "u_merge" ->
      let cs = List.map new_region (parse_descs (a 0)) and us = List.map new_region (parse_descs (a 1)) in
      ("ok " ^ show_locs (merge_all cs us), c, 0)
  | "u_after" -> ("ok " ^ show_ranges (ranges_after_key (parse_ranges (a 0)) (bytes_of_hex (a 1))), c, 0)
  | "u_gap" -> ("ok " ^ (if regions_have_gap (parse_ranges (a 0)) (parse_descs (a 1)) (nat (int_of_string (a 2))) then "true" else "false"), c, 0)
  | _ -> ("model: unknown op " ^ op, c, 0)

let () =
  let cases = ref 0 and mism = ref 0 and seqs = ref 0 and badseq = ref 0 in
  let counts = Hashtbl.create 64 in
  let bump k = Hashtbl.replace counts k (1 + (try Hashtbl.find counts k with Not_found -> 0)) in
  let cache = ref empty_cache in
  let seqid = ref "" and seq_bad = ref false in
  let cur_op : (string * string * string list) option ref = ref None in   (* idx, op, args *)
  let qs : string list list ref = ref [] in
  let result = ref "" in
  let truth : desc list ref = ref [] in
  let last_ctx : (verid * (n * n)) option ref = ref None in
  let last_op : (string * string * string list) option ref = ref None in
  let inv_on = ref true in
  let replies = ref 0 in
  let report kind idx op args extra =
    incr mism;
    if not !seq_bad then begin seq_bad := true; incr badseq end;
    if !mism <= 60 then
      print_endline (String.concat "\t" ([kind; !seqid; idx; op] @ [String.concat " " args] @ extra)) in
  (* the cache invariant of the convergence proof (cinv, executable form cinvb) on the implementation's cache contents *)
  let inv_checked = ref 0 and inv_failed = ref 0 and wf_checked = ref 0 and wf_failed = ref 0 in
  let hist_checked = ref 0 and hist_failed = ref 0 and hist_states = ref 0 in
  let clause_names = ["sorted"; "hist"; "addr"; "uniq"; "dom_start"; "dom_lat"; "dom_id"; "ok"; "len"; "tomb"] in
  let check_inv () =
    (match !pd_truth_bad with
     | [] -> ()
     | m :: _ ->
         let (idx, op, args) = (match !last_op with Some x -> x | None -> ("-", "-", [])) in
         report "PD-NOT-TRUTH" idx op args [m]; pd_truth_bad := []);
    if !truth <> [] && !inv_on then begin
      incr inv_checked;
      if not (cinvb !truth !cache) then begin
        incr inv_failed;
        let bad = List.filter_map (fun (n, b) -> if b then None else Some n) (List.combine clause_names (cinv_parts !truth !cache)) in
        let (idx, op, args) = (match !last_op with Some x -> x | None -> ("-", "-", [])) in
        report "INVARIANT" idx op args ["cinv clauses violated: " ^ String.concat "," bad; "cache=" ^ show_dump !cache]
      end
    end in
  read_lines (fun line ->
    match split_tab line with
    | "SEQ" :: cls :: seed :: rest -> txn_mode := (rest = ["txn"]); incr seqs; seqid := cls ^ "\t" ^ seed; seq_bad := false; cache := empty_cache; cur_op := None; last_ctx := None; truth := []; last_op := None; inv_on := (cls <> "unit"); history := []; Hashtbl.reset hist_seen; quiescent := false; cur_truth := []
    | "T" :: ds :: _ -> truth := (try parse_descs ds with _ -> []); List.iter note_desc !truth; cur_truth := !truth
    | "X" :: ev :: _ when String.length ev > 6 && String.sub ev 0 6 = "reply " ->
        (* the store's answer as the model's store_reply (Converge.v) predicts it from the ground truth *)
        (match !last_ctx with
         | Some (v, p) ->
             let ((id, _), _) = v in
             let has_leader = List.exists (fun d -> d.d_id = id && fst d.d_leader <> nn 0) !truth
                              || not (List.exists (fun d -> d.d_id = id) !truth) in
             let w = split_on ' ' ev in
             let kind = List.nth w 1 in
             if has_leader && List.mem kind ["ok"; "notleader"; "regionnotfound"; "epochnotmatch"] && ev <> "reply notleader none" then begin
               incr replies;
               let m = (match store_reply !truth (fun t -> [t]) v p with
                        | RepOk -> "reply ok" | RepNotLeader (a, b) -> Printf.sprintf "reply notleader %d:%d" (ni a) (ni b)
                        | RepRegionNotFound -> "reply regionnotfound" | RepEpochNotMatch _ -> "reply epochnotmatch") in
               if m <> ev then report "MISMATCH-REPLY" "-" "store_reply" [show_verid v] ["impl=" ^ ev; "model=" ^ m]
             end
         | None -> ());
        last_ctx := None
    | "O" :: idx :: op :: args -> cur_op := Some (idx, op, args); last_op := !cur_op; qs := []; result := ""
    | "Q" :: rest -> qs := rest :: !qs
    | "R" :: r :: _ -> result := r
    | "R" :: [] -> result := ""
    | "D" :: ents :: regs :: lat :: ses :: tbs :: _ ->
        let impl_dump = ents ^ "\t" ^ regs ^ "\t" ^ lat ^ "\t" ^ ses ^ "\t" ^ tbs in
        (match !cur_op with
         | None ->
             if show_dump !cache <> impl_dump then begin
               report "MISMATCH-STATE" "-" "-" [] ["impl=" ^ impl_dump; "model=" ^ show_dump !cache];
               cache := parse_dump ents regs lat ses tbs end
         | Some (idx, op, args) ->
             incr cases;
             let qarr = Array.of_list (List.rev !qs) in
             let (mres, c1, used) =
               if op = "ubrace" then begin
                 (* the background reload and OnBucketVersionNotMatch in either order *)
                 (try
                    let pdm = (if !txn_mode then codec_pd (make_pd qarr) else make_pd qarr) and budget = nat (Array.length qarr) in
                    let v = parse_verid (List.nth args 0) and latest = nn (int_of_string (List.nth args 1)) in
                    let (ver, keys) = (match parse_bk (List.nth args 2) with Some x -> x | None -> (nn 0, [])) in
                    let (ca, ta) = update_buckets pdm budget O !cache v (nn 0) latest in
                    let ca = on_bucket_version_not_match ca v ver keys in
                    let cb0 = on_bucket_version_not_match !cache v ver keys in
                    let (cb, tb) = update_buckets pdm budget O cb0 v (nn 0) latest in
                    let impl_dump = ents ^ "\t" ^ regs ^ "\t" ^ lat ^ "\t" ^ ses ^ "\t" ^ tbs in
                    (* third interleaving: the reload was decided before the version-not-match arrived and is carried out after it *)
                    let (cc, tc) = if int_of_nat ta > 0 then
                        (match load_by_id pdm budget O (fst (fst v)) with
                         | (Ok lr, t1) -> (snd (insert_new cb0 lr), t1)
                         | (Err _, t1) -> (cb0, t1))
                      else (cb0, O) in
                    if show_dump cb = impl_dump && int_of_nat tb = Array.length qarr then ("ok", cb, int_of_nat tb)
                    else if show_dump cc = impl_dump && int_of_nat tc = Array.length qarr then ("ok", cc, int_of_nat tc)
                    else ("ok", ca, int_of_nat ta)
                  with e -> ("model-exception " ^ Printexc.to_string e, !cache, 0))
               end else
               if op = "send" then begin
                 (try
                    let target = parse_dump ents regs lat ses tbs in
                    (match explain !cache !result target with
                     | Some (c1, prims) ->
                         List.iter (fun p -> Hashtbl.replace sender_prims p (1 + (try Hashtbl.find sender_prims p with Not_found -> 0))) prims;
                         (!result, c1, 0)
                     | None -> ("model: the sender's effect on the cache is not a composition of the modelled cache operations", !cache, 0))
                  with e -> ("model-exception " ^ Printexc.to_string e, !cache, 0))
               end else
               (try run_op !cache op args qarr with
                | Pd_mismatch m -> ("model: " ^ m, !cache, Array.length qarr)
                | Parse m -> ("model: parse " ^ m, !cache, Array.length qarr)
                | e -> ("model-exception " ^ Printexc.to_string e, !cache, Array.length qarr)) in
             let cls = if !result = "err" then "err" else if String.length !result >= 5 && String.sub !result 0 5 = "panic" then "panic" else "ok" in
             bump (op ^ ":" ^ cls ^ (if Array.length qarr > 0 then ":pd" else ":cache"));
             let ok_res = (mres = !result) and ok_pd = (used = Array.length qarr) in
             let mdump = show_dump c1 in
             if not ok_res then report "MISMATCH" idx op args ["impl=" ^ !result; "model=" ^ mres]
             else if not ok_pd then report "MISMATCH-PD" idx op args [Printf.sprintf "impl made %d PD calls, model %d" (Array.length qarr) used]
             else if mdump <> impl_dump then report "MISMATCH-STATE" idx op args ["impl=" ^ impl_dump; "model=" ^ mdump];
             (if op = "ctx" && String.length !result > 3 && String.sub !result 0 3 = "ok " then
                (try last_ctx := Some (parse_verid (List.nth args 0), parse_peer (List.nth (split_on ' ' !result) 1)) with _ -> last_ctx := None)
              else if op <> "ctx" then last_ctx := None);
             if ok_res && ok_pd && mdump = impl_dump then cache := c1
             else cache := (try parse_dump ents regs lat ses tbs with _ -> c1);
             cur_op := None);
        check_inv ()
    | "X" :: ev :: _ when String.length ev >= 10 && String.sub ev 0 10 = "conv begin" ->
        (* a quiescent point: the ground truth must pass the executable form of truth_wf (hypothesis of C09_converges_checked) *)
        incr wf_checked; quiescent := !inv_on;
        if not (truth_wfb !truth) then begin incr wf_failed; report "TRUTH-NOT-WF" "-" "conv begin" [] [] end;
        (* ... and everything PD / the stores reported so far must obey the epoch discipline relative to it (hist_ok) *)
        if !inv_on then begin
          incr hist_checked; hist_states := !hist_states + List.length !history;
          if not (hist_okb !truth !history) then begin
            incr hist_failed;
            let names = ["same version as a current region, other range/peers"; "one version, two start keys"; "newer than the current region over its start key";
                         "newer than the current region of the same id"; "empty range"] in
            let bad = List.filter_map (fun (n, b) -> if b then None else Some n) (List.combine names (hist_parts !truth !history)) in
            report "HISTORY" "-" "conv begin" [] ["hist_ok clauses violated: " ^ String.concat "; " bad]
          end
        end
    | _ -> ());
  Printf.printf "STATS\tcases=%d\tmismatches=%d\tseqs=%d\tbadseqs=%d\treplies=%d\tinv_checked=%d\tinv_failed=%d\twf_checked=%d\twf_failed=%d\thist_checked=%d\thist_failed=%d\thist_states=%d\tpd_truth_checked=%d\n" !cases !mism !seqs !badseq !replies !inv_checked !inv_failed !wf_checked !wf_failed !hist_checked !hist_failed !hist_states !pd_truth_checked;
  Hashtbl.iter (fun k v -> Printf.printf "COUNT\t%s\t%d\n" k v) counts;
  Hashtbl.iter (fun k v -> Printf.printf "SENDERPRIM\t%s\t%d\n" k v) sender_prims
