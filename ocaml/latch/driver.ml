(* driver for the Latch model (C17): replays the Go driver's DFS / walk lines on the extracted
   automaton [exec], compares result codes and full state dumps after every edge, compares the
   enabled-edge sets, and cross-checks the macro edges against the composite [acquire]/[release]. *)
let rec ipos p = match p with XH -> 1 | XO q -> 2 * ipos q | XI q -> 2 * ipos q + 1
let i_of_n (x : n) : int = match x with N0 -> 0 | Npos p -> ipos p
let rec pos_i (i : int) : positive = if i = 1 then XH else if i land 1 = 0 then XO (pos_i (i lsr 1)) else XI (pos_i (i lsr 1))
let n_i (i : int) : n = if i = 0 then N0 else Npos (pos_i i)

let sf_tab : (int, int) Hashtbl.t = Hashtbl.create 16
let sf (k : n) : n = n_i (try Hashtbl.find sf_tab (i_of_n k) with Not_found -> 0)

(* per case *)
let nslots = ref 1
let ntx = ref 0
let commits : (int, int) Hashtbl.t = Hashtbl.create 16
let rec_ts : int list ref = ref []
let rec_max = ref 0
let no_macro = ref false
let with_close = ref false
let cacts : cact list ref = ref []
let ncok = ref 0
let nslotpred = ref 0
let case_size = ref 1
let prog_acts = ref ""
let stack : (state * int) list ref = ref [ (init_state, 0) ]
let case_id = ref ""
let case_spec = ref ""

let ints l = if l = [] then "-" else String.concat "," (List.map string_of_int l)
let nats l = ints (List.map int_of_nat l)

let dump_lat (l : latches) : string =
  let b = Buffer.create 256 in
  for i = 0 to !nslots - 1 do
    let sl = l.slots (n_i i) in
    Buffer.add_string b (Printf.sprintf "s%d#%d[" i (List.length sl.squeue));
    Buffer.add_string b (String.concat " " (List.map (fun nd ->
      Printf.sprintf "%d:%d:%s" (i_of_n nd.nkey) (i_of_n nd.nmax)
        (match nd.nval with None -> "-" | Some h -> string_of_int (int_of_nat h))) sl.squeue));
    Buffer.add_string b "]w[";
    Buffer.add_string b (String.concat " " (List.map (fun w -> string_of_int (int_of_nat w)) sl.swaiting));
    Buffer.add_string b "] "
  done;
  Buffer.add_string b "L";
  for i = 0 to !ntx - 1 do
    let lk = l.locks (nat_of_int i) in
    Buffer.add_string b (Printf.sprintf " %d:%d:%d:%d" i (int_of_nat lk.lacq) (if lk.lstale then 1 else 0) (i_of_n lk.lcommit))
  done;
  Buffer.contents b

let pc_char p = match p with TNew -> 'N' | TAcq -> 'A' | TWait -> 'W' | TDone -> 'D' | TUnl -> 'U' | TRel -> 'R' | TDrop -> 'X'

let dump (s : state) : string =
  let b = Buffer.create 256 in
  Buffer.add_string b (dump_lat s.lat);
  Buffer.add_string b " P ";
  for i = 0 to !ntx - 1 do Buffer.add_char b (pc_char (s.pc (nat_of_int i))) done;
  Buffer.add_string b " C ";
  Buffer.add_string b (nats s.chan);
  (match s.sch with
   | SIdle -> Buffer.add_string b " S idle"
   | SRel (i, wl) -> Buffer.add_string b (Printf.sprintf " S rel:%d:%s" (int_of_nat i) (nats wl))
   | SWake wl -> Buffer.add_string b (Printf.sprintf " S wake:%s" (nats wl))
   | SRun (j, wl) -> Buffer.add_string b (Printf.sprintf " S run:%d:%s" (int_of_nat j) (nats wl))
   | STrig -> Buffer.add_string b " S trig");
  Buffer.contents b

let ares_s r = match r with ASuccess -> "S" | ALocked -> "L" | AStale -> "X"

exception Disabled
let ns () = n_i !nslots
let ex s l = match exec sf (ns ()) s l with Some s' -> s' | None -> raise Disabled

(* apply an edge: returns (state', result string, extra complaints) *)
let apply (s : state) (used : int) (op : string) : state * int * string * string list =
  let arg = String.sub op 1 (String.length op - 1) in
  let complaints = ref [] in
  match op.[0] with
  | 'a' ->
      let i = nat_of_int (int_of_string arg) in
      let (_, r) = acquire_slot sf s.lat i in
      (ex s (LAcq i), used, ares_s r, [])
  | 'A' ->
      let i = nat_of_int (int_of_string arg) in
      let (lc, r) = acquire sf s.lat i in
      let cur = ref (ex s (LAcq i)) in
      while !cur.pc i = TAcq do cur := ex !cur (LAcq i) done;
      if dump_lat lc <> dump_lat !cur.lat then complaints := "composite acquire differs from iterated acquire_slot steps" :: !complaints;
      (!cur, used, ares_s r, !complaints)
  | 'u' ->
      let ii = int_of_string arg in
      let i = nat_of_int ii in
      let c = if (s.lat.locks i).lstale then 0 else (try Hashtbl.find commits ii with Not_found -> 0) in
      (ex s (LUnlock (i, n_i c)), used, string_of_int c, [])
  | 'p' ->
      let r = match s.chan with i :: _ -> string_of_int (int_of_nat i) | [] -> "?" in
      (ex s LPop, used, r, [])
  | 'r' ->
      let r = (match s.sch with
        | SRel (i, _) -> (match snd (release_slot sf s.lat i) with RNone -> "-" | RWake w -> string_of_int (int_of_nat w) | RPanic -> "panic")
        | _ -> "?") in
      if r = "panic" then (s, used, r, []) else (ex s LRel, used, r, [])
  | 'R' ->
      (match s.sch with
       | SRel (i, wl0) ->
           let ((lc, woke), pan) = release sf s.lat i in
           if pan then (s, used, "panic", []) else begin
             let cur = ref (ex s LRel) in
             let same st = (match st.sch with SRel (i', _) -> i' = i | _ -> false) in
             while same !cur do cur := ex !cur LRel done;
             if dump_lat lc <> dump_lat !cur.lat then complaints := "composite release differs from iterated release_slot steps" :: !complaints;
             let wl_after = (match !cur.sch with SWake wl -> wl | SIdle -> [] | _ -> []) in
             if wl_after <> wl0 @ woke then complaints := "composite release wake-up list differs" :: !complaints;
             (!cur, used, nats woke, !complaints)
           end
       | _ -> raise Disabled)
  | 'w' ->
      let r = (match s.sch with
        | SWake (j :: _) -> if (s.lat.locks j).lstale then "X" else ares_s (snd (acquire_slot sf s.lat j))
        | SRun (j, _) -> ares_s (snd (acquire_slot sf s.lat j))
        | _ -> "?") in
      (ex s LWake, used, r, [])
  | 'V' ->
      let j = (match s.sch with SWake (j :: _) -> j | SRun (j, _) -> j | _ -> raise Disabled) in
      let (lc, r) = acquire sf s.lat j in
      let cur = ref (ex s LWake) in
      let same st = (match st.sch with SRun (j', _) -> j' = j | _ -> false) in
      while same !cur do cur := ex !cur LWake done;
      if dump_lat lc <> dump_lat !cur.lat then complaints := "composite acquire (woken) differs from iterated steps" :: !complaints;
      (!cur, used, ares_s r, !complaints)
  | 'W' ->
      let wl0 = (match s.sch with SWake wl -> wl | _ -> raise Disabled) in
      let cur = ref s in
      let busy st = (match st.sch with SWake _ | SRun _ -> true | _ -> false) in
      while busy !cur do cur := ex !cur LWake done;
      let r = String.concat "" (List.map (fun j -> if !cur.pc j = TDone then "D" else "L") wl0) in
      (!cur, used, r, [])
  | 't' -> (ex s LTrig, used, "-", [])
  | 'x' -> (ex s LClose, used, "-", [])
  | 'c' ->
      (match String.split_on_char ':' arg with
       | [a; t] ->
           let sl = n_i (int_of_string a) in
           let s' = ex s (LRecycle (sl, n_i (int_of_string t))) in
           let removed = List.length (s.lat.slots sl).squeue - List.length (s'.lat.slots sl).squeue in
           (s', used + 1, string_of_int removed, [])
       | _ -> raise Disabled)
  | _ -> raise Disabled

let enabled (s : state) (used : int) : string list =
  let en = ref [] in
  let add x = en := x :: !en in
  for i = 0 to !ntx - 1 do
    (match s.pc (nat_of_int i) with
     | TAcq -> add (Printf.sprintf "a%d" i); if not !no_macro then add (Printf.sprintf "A%d" i)
     | TDone -> add (Printf.sprintf "u%d" i)
     | _ -> ())
  done;
  (match s.sch with
   | SIdle -> if s.chan <> [] then add "p"
   | SRel _ -> add "r"; if not !no_macro then add "R"
   | SWake _ -> add "w"; if not !no_macro then (add "V"; add "W")
   | SRun _ -> add "w"; if not !no_macro then add "V"
   | STrig -> add "t");
  if !with_close && not s.gl.closed then add "x";
  if used < !rec_max then
    for sl = 0 to !nslots - 1 do
      List.iter (fun t -> add (Printf.sprintf "c%d:%d" sl t)) !rec_ts
    done;
  List.sort compare !en


(* ---- script mode: the real scheduler after every client action, run to quiescence ---- *)
let tx_start : (int, int) Hashtbl.t = Hashtbl.create 16
let tx_keys : (int, int list) Hashtbl.t = Hashtbl.create 16
let rec quiesce (s : state) : state =
  let try_l l = exec sf (ns ()) s l in
  match try_l LPop with Some s' -> quiesce s' | None ->
  match try_l LRel with Some s' -> quiesce s' | None ->
  match try_l LWake with Some s' -> quiesce s' | None ->
  match try_l LTrig with Some s' -> quiesce s' | None ->
  match try_l (LRecTask O) with Some s' -> quiesce s' | None -> s

let sdump (s : state) : string =
  let b = Buffer.create 256 in
  for i = 0 to !nslots - 1 do
    let sl = s.lat.slots (n_i i) in
    Buffer.add_string b (Printf.sprintf "s%d#%d[" i (List.length sl.squeue));
    Buffer.add_string b (String.concat " " (List.map (fun nd ->
      Printf.sprintf "%d:%d:%s" (i_of_n nd.nkey) (i_of_n nd.nmax)
        (match nd.nval with None -> "-" | Some h -> string_of_int (int_of_nat h))) sl.squeue));
    Buffer.add_string b "]w[";
    Buffer.add_string b (String.concat " " (List.map (fun w ->
      Printf.sprintf "%d@%d" (int_of_nat w) (int_of_nat (s.lat.locks w).lacq)) sl.swaiting));
    Buffer.add_string b "] "
  done;
  Buffer.add_string b "T ";
  for i = 0 to !ntx - 1 do
    let ii = nat_of_int i in
    Buffer.add_char b (match s.pc ii with
      | TNew -> 'N' | TAcq -> 'A' | TWait -> 'B'
      | TDone -> if (s.lat.locks ii).lstale then 'S' else 'K'
      | TUnl | TRel | TDrop -> 'U')
  done;
  Buffer.add_string b (Printf.sprintf " R %d" (i_of_n s.gl.lastrec));
  Buffer.contents b

(* consumer tier: transactions driven by KVTxn.Commit follow the caller contract: UnLock as soon as Lock returned,
   commit ts only when not stale (the commit ts is taken from the TS line printed after the real Commit returned) *)
let auto : (int, unit) Hashtbl.t = Hashtbl.create 16
let rec settle (s : state) : state =
  let s = quiesce s in
  let cand = List.filter (fun ii -> Hashtbl.mem auto ii && s.pc (nat_of_int ii) = TDone) (List.init !ntx (fun x -> x)) in
  match cand with
  | [] -> s
  | ii :: _ ->
      let i = nat_of_int ii in
      let c = if (s.lat.locks i).lstale then 0 else (try Hashtbl.find commits ii with Not_found -> 0) in
      (match exec sf (ns ()) s (LUnlock (i, n_i c)) with Some s' -> settle s' | None -> s)

let script_apply (s : state) (a : string) : state * string =
  let arg () = int_of_string (String.sub a 1 (String.length a - 1)) in
  match a.[0] with
  | 'L' ->
      let ii = arg () in let i = nat_of_int ii in
      let cur = ref (ex s (LStart (i, List.map n_i (Hashtbl.find tx_keys ii), n_i (Hashtbl.find tx_start ii)))) in
      while !cur.pc i = TAcq do cur := ex !cur (LAcq i) done;
      if Hashtbl.mem auto ii then begin
        let s' = settle !cur in
        (s', if s'.pc i = TWait then "blk" else if (s'.lat.locks i).lstale then "stale" else "ok")
      end else begin
        let s' = settle !cur in
        (s', if s'.pc i = TDone then "ret" else "blk")
      end
  | 'U' ->
      let ii = arg () in let i = nat_of_int ii in
      let c = if (s.lat.locks i).lstale then 0 else (try Hashtbl.find commits ii with Not_found -> 0) in
      (settle (ex s (LUnlock (i, n_i c))), "-")
  | 'X' -> (quiesce (ex s LClose), "-")
  | 'Q' ->
      (* the even returned locks are sent while run() is stuck with the first one in hand; Close(); run() drains *)
      let todo = List.filter (fun ii -> ii mod 2 = 0 && s.pc (nat_of_int ii) = TDone) (List.init !ntx (fun x -> x)) in
      let unl st ii = exec sf (ns ()) st (LUnlock (nat_of_int ii, n_i (try Hashtbl.find commits ii with Not_found -> 0))) in
      (match todo with
       | [] -> (quiesce (ex s LClose), "pending=0 closed")
       | first :: rest ->
           let cur = ref (ex (match unl s first with Some x -> x | None -> raise Disabled) LPop) in
           List.iter (fun ii -> match unl !cur ii with Some x -> cur := x | None -> raise Disabled) rest;
           let res = Printf.sprintf "pending=%d closed" (List.length !cur.chan) in
           (quiesce (ex !cur LClose), res))
  | 'N' -> (s, "-")   (* a commit that must bypass the latches: nothing happens *)
  | 'M' ->
      let todo = List.filter (fun ii -> s.pc (nat_of_int ii) = TDone) (List.init !ntx (fun x -> x)) in
      let unl st ii = exec sf (ns ()) st (LUnlock (nat_of_int ii, n_i (try Hashtbl.find commits ii with Not_found -> 0))) in
      (match todo with
       | [] -> (s, "pending=0 blocked=0")
       | first :: rest ->
           (* run() receives the first lock and is stuck; the channel takes what fits; the others block *)
           let cur = ref (ex (match unl s first with Some x -> x | None -> raise Disabled) LPop) in
           let rem = ref rest and go = ref true in
           while !go do (match !rem with
             | [] -> go := false
             | ii :: r -> (match unl !cur ii with Some x -> cur := x; rem := r | None -> go := false)) done;
           let res = Printf.sprintf "pending=%d blocked=%d" (List.length !cur.chan) (List.length !rem) in
           (* release: the scheduler drains, blocked senders get in as room appears *)
           let rec drain st rem = (match rem with
             | [] -> quiesce st
             | ii :: r -> (match unl st ii with
                 | Some x -> drain x r
                 | None -> (match List.find_map (fun l -> exec sf (ns ()) st l) [LRel; LWake; LTrig; LPop] with
                            | Some x -> drain x rem | None -> raise Disabled))) in
           (drain !cur !rem, res))
  | _ -> raise Disabled

let () =
  let nedges = ref 0 and mism = ref 0 and nen = ref 0 and pfail = ref 0 in
  let counts = Hashtbl.create 64 in
  let bump k = Hashtbl.replace counts k (1 + (try Hashtbl.find counts k with Not_found -> 0)) in
  let path () = String.concat " " (List.rev_map (fun x -> x) []) in
  ignore path;
  let ops : string list ref = ref [] in
  let mismatch what line extra =
    incr mism;
    if !mism <= 30 then
      print_endline (String.concat "\t" ["MISMATCH"; what; !case_id; !case_spec; String.concat " " (List.rev !ops); line; extra]) in
  read_lines (fun line ->
    match split_tab line with
    | "CASE" :: id :: spec :: _ ->
        case_id := id; case_spec := spec;
        Hashtbl.reset sf_tab; Hashtbl.reset commits; Hashtbl.reset auto; ntx := 0; stack := [ (init_state, 0) ]; ops := [];
        rec_ts := []; rec_max := 0; no_macro := false; with_close := false; cacts := []; nslots := 1;
        List.iter (fun f -> match String.split_on_char '=' f with
          | ["rec"; v] -> rec_ts := List.filter_map (fun x -> if x = "" then None else Some (int_of_string x)) (String.split_on_char ',' v)
          | ["recmax"; v] -> rec_max := int_of_string v
          | ["nomacro"; v] -> no_macro := (v = "1")
          | ["size"; v] -> case_size := int_of_string v
          | ["close"; v] -> with_close := (v = "1")
          | _ -> ()) (String.split_on_char ';' spec);
        bump ("case:" ^ (List.hd (String.split_on_char '-' id)))
    | "NS" :: v :: _ ->
        nslots := int_of_string v;
        (* predicted by the model: NewLatches rounds the size up to a power of two *)
        let p = i_of_n (round_pow2 (n_i !case_size)) in
        incr nslotpred;
        if p <> !nslots then mismatch "nslots" line (Printf.sprintf "model round_pow2(%d)=%d" !case_size p)
    | "SF" :: k :: v :: rest ->
        Hashtbl.replace sf_tab (int_of_string k) (int_of_string v);
        (match rest with
         | hx :: _ when hx <> "" ->
             (* predicted by the model: murmur3.Sum32(key) & (slots-1) *)
             let p = i_of_n (slot_id (n_i !case_size) (bytes_of_hex hx)) in
             incr nslotpred;
             if p <> int_of_string v then mismatch "slot-id" line (Printf.sprintf "model slot_id=%d" p)
         | _ -> ())
    | "T" :: i :: st :: cm :: keys :: "=>" :: sorted :: slots :: _ ->
        let ii = int_of_string i in
        let parse v = if v = "-" then [] else List.map int_of_string (String.split_on_char ',' v) in
        Hashtbl.replace commits ii (int_of_string cm);
        ntx := max !ntx (ii + 1);
        let (s, u) = List.hd !stack in
        (match exec sf (ns ()) s (LStart (nat_of_int ii, List.map n_i (parse keys), n_i (int_of_string st))) with
         | Some s' ->
             stack := (s', u) :: List.tl !stack;
             let lk = s'.lat.locks (nat_of_int ii) in
             let mk = List.map i_of_n lk.lkeys in
             if mk <> parse sorted then mismatch "genlock-keys" line (ints mk);
             let ms = List.map (fun k -> i_of_n (sf k)) lk.lkeys in
             if ms <> parse slots then mismatch "genlock-slots" line (ints ms)
         | None -> mismatch "start-disabled" line "")
    | "CA" :: "lock" :: i :: st :: _ -> cacts := CLock (nat_of_int (int_of_string i), n_i (int_of_string st)) :: !cacts
    | "CA" :: "ret" :: i :: b :: _ -> cacts := CRet (nat_of_int (int_of_string i), b = "1") :: !cacts
    | "CA" :: "unlock" :: i :: c :: _ -> cacts := CUnlock (nat_of_int (int_of_string i), n_i (int_of_string c)) :: !cacts
    | "ACTS" :: a :: _ -> prog_acts := a
    | "END" :: _ when !cacts <> [] ->
        (* the caller contract, checked with the extracted client_okb on the client actions of the real consumer *)
        if client_okb (List.rev !cacts) then incr ncok
        else begin incr pfail;
          print_endline (String.concat "\t" ["PROPFAIL"; "P"; "client_ok"; !case_id; !case_spec; (if !prog_acts <> "" then !prog_acts else String.concat " " (List.rev !ops));
            "the client actions observed on the real consumer (Lock / return / UnLock) violate the caller contract client_ok (extracted client_okb = false): a lock that returned was not handed back, or a commit ts was set on a stale lock"]) end;
        cacts := []
    | "AUTO" :: i :: _ -> Hashtbl.replace auto (int_of_string i) ()
    | "TS" :: i :: st :: cm :: keys :: _ ->
        let ii = int_of_string i in
        let parse v = if v = "-" then [] else List.map int_of_string (String.split_on_char ',' v) in
        Hashtbl.replace commits ii (int_of_string cm); Hashtbl.replace tx_start ii (int_of_string st);
        Hashtbl.replace tx_keys ii (parse keys); ntx := max !ntx (ii + 1)
    | "G" :: a :: "=>" :: res :: "|" :: d :: _ ->
        incr nedges;
        let (s, u) = List.hd !stack in
        ops := a :: !ops;
        bump ("script:" ^ String.make 1 a.[0] ^ ":" ^ res);
        (match script_apply s a with
         | (s', r) ->
             stack := [ (s', u) ];
             if r <> res then mismatch "script-result" line ("model=" ^ r)
             else if sdump s' <> d then mismatch "script-dump" line ("model=" ^ sdump s')
         | exception Disabled -> mismatch "script-model-disabled" line "the model's automaton does not allow this client action here"
         | exception Not_found -> mismatch "script-model-disabled" line "unknown transaction")
    | "N" :: "init" :: "=>" :: _ :: "|" :: d :: _ ->
        let (s, _) = List.hd !stack in
        if dump s <> d then mismatch "init-dump" line (dump s)
    | "N" :: op :: "=>" :: res :: "|" :: d :: _ ->
        incr nedges;
        let (s, u) = List.hd !stack in
        ops := op :: !ops;
        bump ("op:" ^ String.make 1 op.[0] ^ ":" ^ (if String.length res > 0 && (res.[0] = 'L' || res.[0] = 'X' || res.[0] = 'S' || res.[0] = 'D') then res else "."));
        (match apply s u op with
         | (s', u', r, compl) ->
             stack := (s', u') :: !stack;
             if r <> res then mismatch "result" line ("model=" ^ r)
             else if dump s' <> d then mismatch "dump" line ("model=" ^ dump s');
             List.iter (fun c -> mismatch "composite" line c) compl
         | exception Disabled ->
             stack := (s, u) :: !stack;
             mismatch "model-disabled" line "the model's automaton does not allow this edge here")
    | "E" :: rest ->
        incr nen;
        let (s, u) = List.hd !stack in
        let impl = List.sort compare (List.filter (fun x -> x <> "") (String.split_on_char ' ' (String.concat " " rest))) in
        let m = enabled s u in
        if m <> impl then mismatch "enabled-set" line ("model=" ^ String.concat " " m)
    | "B" :: _ ->
        (match !stack with _ :: (_ :: _ as r) -> stack := r | _ -> ());
        (match !ops with _ :: r -> ops := r | [] -> ())
    | "P" :: _ -> incr pfail; print_endline ("PROPFAIL\t" ^ line)
    | ("PS" | "TOTAL" | "STRESS") :: _ -> print_endline line
    | _ -> ());
  Printf.printf "STATS\tedges=%d\tenabled_sets=%d\tmismatches=%d\tpropfails=%d\tclient_ok_traces=%d\tslot_predictions=%d\n" !nedges !nen !mism !pfail !ncok !nslotpred;
  Hashtbl.iter (fun k v -> Printf.printf "COUNT\t%s\t%d\n" k v) counts
