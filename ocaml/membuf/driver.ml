(* driver for the MemBuf models (C08): reads the Go driver's lines on stdin
     SEQ <id> <class> / O <op> <args..> => <impl result> / END
   runs L0 (Staged) and L1 (VLog) on every op and reports
     MISMATCH  seq idx ... impl=.. l1=..      L1 (model of the code) disagrees with the code
     L0DIFF    seq idx haz=0 ... impl=.. l0=..     the reference model disagrees with the code
     NOTE      seq idx cp|revert              checkpoint bookkeeping of the run (only for reported sequences)
   plus STATS / COUNT lines. *)
let rec int_of_pos p = match p with XH -> 1 | XO q -> 2 * int_of_pos q | XI q -> 2 * int_of_pos q + 1
let fint_of_n x = match x with N0 -> 0 | Npos p -> int_of_pos p
let rec pos_of_int i = if i = 1 then XH else if i land 1 = 0 then XO (pos_of_int (i lsr 1)) else XI (pos_of_int (i lsr 1))
let fn_of_int i = if i <= 0 then N0 else Npos (pos_of_int i)
let btab : n array = Array.init 256 fn_of_int
let rec fint_of_nat x acc = match x with O -> acc | S y -> fint_of_nat y (acc + 1)
let rec fnat_of_int i acc = if i <= 0 then acc else fnat_of_int (i - 1) (S acc)
let nat_i i = fnat_of_int i O
let i_nat x = fint_of_nat x 0

(* byte strings: "-" empty, r<hh>x<len> a run of one byte, else hex *)
let dec_bytes (s : string) : n list =
  if s = "-" || s = "_" then []          (* "_" = empty NON-nil slice on the Go side: same abstract value *)
  else if s.[0] = 'r' then begin
    let x = String.index s 'x' in
    let b = int_of_string ("0x" ^ String.sub s 1 (x - 1)) in
    let len = int_of_string (String.sub s (x + 1) (String.length s - x - 1)) in
    List.init len (fun _ -> btab.(b))
  end else
    List.init (String.length s / 2) (fun i -> btab.(hexval s.[2*i] * 16 + hexval s.[2*i+1]))

let enc_bytes (l : n list) : string =
  match l with
  | [] -> "-"
  | b0 :: _ ->
    let len = List.length l in
    let v0 = fint_of_n b0 in
    if len >= 16 && List.for_all (fun b -> fint_of_n b = v0) l then Printf.sprintf "r%02xx%d" v0 len
    else begin
      let buf = Buffer.create (2 * len) in
      List.iter (fun b -> Buffer.add_string buf (Printf.sprintf "%02x" (fint_of_n b))) l;
      Buffer.contents buf
    end

let dec_fops (s : string) : flag_op list =
  if s = "-" then [] else
  List.map (fun x -> match flag_op_of_index (fn_of_int (int_of_string x)) with Some o -> o | None -> failwith "flag op")
    (String.split_on_char ',' s)

let dec_limit s = if s = "max" then unlimited else n_of_hex s   (* hex *)

let dec_pred s = match s with
  | "any" -> PAny | "never" -> PNever | "nonempty" -> PNonEmpty
  | _ -> PLenLe (nat_i (int_of_string (String.sub s 2 (String.length s - 2))))   (* le<n> *)

let parse_op (f : string list) : op option =
  match f with
  | ["set"; k; v; fo] -> Some (OSet (dec_bytes k, dec_bytes v, dec_fops fo))
  | ["flags"; k; fo] -> Some (OFlags (dec_bytes k, dec_fops fo))
  | ["staging"] -> Some OStaging
  | ["release"; h] -> Some (ORelease (nat_i (int_of_string h)))
  | ["cleanup"; h] -> Some (OCleanup (nat_i (int_of_string h)))
  | ["cp"] -> Some OCheckpoint
  | ["revert"; i] -> Some (ORevert (nat_i (int_of_string i)))
  | ["limits"; e; b] -> Some (OSetLimits (dec_limit e, dec_limit b))
  | ["get"; k] -> Some (OGet (dec_bytes k))
  | ["gflags"; k] -> Some (OGetFlags (dec_bytes k))
  | ["len"] -> Some OLen | ["size"] -> Some OSize | ["dirty"] -> Some ODirty
  | ["iter"; r; lo; hi] -> Some (OIter (r = "1", dec_bytes lo, dec_bytes hi))
  | ["iterf"; r; lo; hi] -> Some (OIterFlags (r = "1", dec_bytes lo, dec_bytes hi))
  | ["sget"; k] -> Some (OSnapGet (dec_bytes k))
  | ["siter"; r; lo; hi] -> Some (OSnapIter (r = "1", dec_bytes lo, dec_bytes hi))
  | ["inspect"; h] -> Some (OInspect (nat_i (int_of_string h)))
  | ["hist"; k; p] -> Some (OHist (dec_bytes k, dec_pred p))
  | _ -> None

let dec_of_n (x : n) : string =
  (* sizes stay far below 2^62 *)
  string_of_int (fint_of_n x)

let show_out (o : out) : string =
  match o with
  | RUnit -> "ok"
  | RErr EKeyTooLarge -> "err:key" | RErr EEntryTooLarge -> "err:entry" | RErr ETxnTooLarge -> "err:txn"
  | RPanic -> "panic" | RMisuse -> "misuse"
  | RNat x -> "n:" ^ string_of_int (i_nat x)
  | RNum x -> "n:" ^ dec_of_n x
  | RBool b -> if b then "b:1" else "b:0"
  | RVal None -> "notfound"
  | RVal (Some v) -> "v:" ^ enc_bytes v
  | RNil -> "nil"
  | RFlagsOf None -> "notfound"
  | RFlagsOf (Some f) -> "f:" ^ dec_of_n f ^ ":" ^ dec_of_n (preds_word f)
  | RKVs l -> "kv:" ^ String.concat "," (List.map (fun (k, v) -> enc_bytes k ^ "=" ^ enc_bytes v) l)
  | RKFVs l -> "kfv:" ^ String.concat "," (List.map (fun ((k, f), v) ->
        enc_bytes k ^ "/" ^ dec_of_n f ^ "=" ^ (match v with Some v -> enc_bytes v | None -> "~")) l)

(* L2 (Art.v): shape of the radix tree, printed like ART.VerifDump *)
let rec dump_art (b : Buffer.t) (t : art) : unit =
  match t with
  | Leaf k -> Buffer.add_string b ("L" ^ enc_bytes k)
  | Node (plen, pfx, ipl, ch) ->
      Buffer.add_string b (Printf.sprintf "N%d:%d:%s:%s(" (i_nat (kind_of (nchildren ch))) (i_nat plen) (enc_bytes pfx)
                             (match ipl with Some k -> enc_bytes k | None -> "~"));
      let rec go first c = match c with
        | CNil -> ()
        | CCons (by, t', r) ->
            if not first then Buffer.add_char b ',';
            Buffer.add_string b (Printf.sprintf "%02x=" (fint_of_n by)); dump_art b t'; go false r in
      go true ch; Buffer.add_char b ')'
let show_tree (o : art option) : string =
  match o with None -> "nil" | Some t -> let b = Buffer.create 256 in dump_art b t; Buffer.contents b

let () =
  let s0 = ref init0 and s1 = ref init1 in
  let l2 : art option ref = ref None in
  let bit : biter option ref = ref None in
  let l2checks = ref 0 and l2diffs = ref 0 in
  let seq = ref "" and idx = ref 0 and haz = ref false in
  let notes = ref [] and bad = ref false in
  let nseq = ref 0 and nops = ref 0 and nmut = ref 0 and mism = ref 0 and l0d = ref 0 and hazseq = ref 0 and l0seq = ref 0 in
  let mutbuf = Buffer.create 4096 in
  let distinct = Hashtbl.create 4096 in
  let nontriv = ref 0 in
  let seq_struct = ref 0 and seq_mut = ref 0 in
  let counts = Hashtbl.create 64 in
  let bump k = Hashtbl.replace counts k (1 + (try Hashtbl.find counts k with Not_found -> 0)) in
  let out_lines = Buffer.create 4096 in
  let emit s = Buffer.add_string out_lines s; Buffer.add_char out_lines '\n' in
  let seq_l0 = ref false in
  read_lines (fun line ->
    match split_tab line with
    | "SEQ" :: id :: cls :: _ ->
        s0 := init0; s1 := init1; l2 := None; bit := None; seq := id; idx := 0; haz := false; notes := []; bad := false; seq_l0 := false;
        Buffer.clear mutbuf; Buffer.clear out_lines; seq_struct := 0; seq_mut := 0;
        incr nseq; bump ("class:" ^ cls)
    | "END" :: _ ->
        if !haz then incr hazseq;
        if !seq_l0 then incr l0seq;
        (* distinct non-trivial: at least 4 mutators and one staging/checkpoint op; distinct by the mutator list *)
        if !seq_mut >= 4 && !seq_struct >= 1 then begin
          let d = Digest.string (Buffer.contents mutbuf) in
          if not (Hashtbl.mem distinct d) then begin Hashtbl.replace distinct d (); incr nontriv end
        end;
        if !bad then begin
          print_string (Buffer.contents out_lines);
          List.iter (fun (i, what) -> Printf.printf "NOTE\t%s\t%d\t%s\n" !seq i what) (List.rev !notes)
        end
    | "O" :: rest ->
        let rec split acc l = match l with "=>" :: r -> (List.rev acc, r) | x :: r -> split (x :: acc) r | [] -> (List.rev acc, []) in
        let (opf, res) = split [] rest in
        let impl = String.concat " " res in
        incr nops;
        (match opf with
         | ["seekl"; lo] ->
             let m = (match seek_first (dec_bytes lo) !l2 with Some k -> "L" ^ enc_bytes k | None -> "end") in
             incr l2checks; bump "op:seekl";
             if m <> impl then begin incr mism; bad := true;
               emit (Printf.sprintf "MISMATCH\t%s\t%d\tseekl %s\timpl=%s\tl2=%s" !seq !idx lo impl m) end
         | ["rangel"; rv; lo; hi] ->
             let m = "ks:" ^ String.concat "," (List.map enc_bytes (range_leaves !l2 (rv = "1") (dec_bytes lo) (dec_bytes hi))) in
             incr l2checks; bump "op:rangel";
             if m <> impl then begin incr mism; bad := true;
               emit (Printf.sprintf "MISMATCH\t%s\t%d\trangel %s %s %s\timpl=%s\tl2=%s" !seq !idx rv lo hi impl m) end
         | ["bopen"; rv; lo; hi] ->
             (* BatchedUse.v: a batched snapshot iterator kept across operations *)
             let m = if !s1.stages1 = [] then "nostage"
                     else begin bit := Some (bopen1 !s1 (rv = "1") (dec_bytes lo) (dec_bytes hi)); "ok" end in
             incr l2checks; bump "op:bopen";
             if m <> impl then begin incr mism; bad := true;
               emit (Printf.sprintf "MISMATCH\t%s\t%d\t%s\timpl=%s\tl1=%s" !seq !idx (String.concat " " opf) impl m) end
         | ["bnext"; n] ->
             let m = (match !bit with
                      | None -> "none"
                      | Some it ->
                          let ((l, v), it') = bnext1 !s1 it (nat_i (int_of_string n)) in
                          bit := Some it'; show_out (RKVs l) ^ (if v then "|v" else "|x")) in
             incr l2checks; bump "op:bnext";
             if m <> impl then begin incr mism; bad := true;
               emit (Printf.sprintf "MISMATCH\t%s\t%d\t%s\timpl=%s\tl1=%s" !seq !idx (String.concat " " opf) impl m) end
         | ["tree"] ->
             (* structure differential + the model's own map property: in-order(L2) = the keys of L1's table *)
             let m = show_tree !l2 in
             incr l2checks; bump "op:tree";
             if m <> impl then begin incr mism; bad := true;
               emit (Printf.sprintf "MISMATCH\t%s\t%d\ttree\timpl=%s\tl2=%s" !seq !idx impl m) end;
             if keys_of_tree !l2 <> List.map fst !s1.keys1 then begin incr l2diffs; bad := true;
               emit (Printf.sprintf "MISMATCH\t%s\t%d\ttree-inorder\timpl=L1-table\tl2=in-order differs" !seq !idx) end
         | ["seq"] ->
             let m = Printf.sprintf "ws:%s:%s" (dec_of_n !s1.wseq1) (dec_of_n !s1.sseq1) in
             if m <> impl then begin incr mism; bad := true;
               emit (Printf.sprintf "MISMATCH\t%s\t%d\tseq\timpl=%s\tl1=%s" !seq !idx impl m) end
         | _ ->
           (match (try parse_op opf with _ -> None) with
            | None -> incr mism; bad := true; emit (Printf.sprintf "MISMATCH\t%s\t%d\t%s\timpl=%s\tl1=unparsed-op" !seq !idx (String.concat " " opf) impl)
            | Some o ->
              let mutating = is_mutator o in
              if mutating then begin
                incr nmut; incr seq_mut;
                Buffer.add_string mutbuf (String.concat " " opf); Buffer.add_char mutbuf ';';
                (match o with OStaging | OCheckpoint -> incr seq_struct | _ -> ())
              end;
              bump ("op:" ^ List.hd opf);
              let (s0', o0) = (try step0 !s0 o with e -> (!s0, RPanic)) in
              let (s1', o1) = (try step1 !s1 o with e -> (!s1, RPanic)) in
              (match o with
               | OCheckpoint -> notes := (!idx, "cp " ^ show_out o1 ^ " depth=" ^ string_of_int (List.length s1'.stages1)) :: !notes
               | ORevert _ -> notes := (!idx, "revert " ^ String.concat " " opf ^ " -> " ^ show_out o1) :: !notes
               | _ -> ());
              (match o with
               | OSet (k, _, _) | OFlags (k, _) when List.length s1'.keys1 > List.length !s1.keys1 -> l2 := insert_root k !l2
               | OGet k ->
                   incr l2checks;
                   if lookup k !l2 <> List.mem_assoc k !s1.keys1 then begin incr l2diffs; bad := true;
                     emit (Printf.sprintf "MISMATCH\t%s\t%d\tl2-lookup %s\timpl=L1-table\tl2=search differs" !seq !idx (enc_bytes k)) end
               | OSnapIter (rv, lo, hi) ->
                   (* the model of the batched snapshot iterator (Batched.v) on the reference model's snapshot *)
                   incr l2checks;
                   let snap = snapshot0 !s0 in
                   let r = show_out (RKVs (batched (S (nat_i (List.length snap))) snap rv lo hi)) in
                   if r <> impl then begin incr l2diffs; bad := true;
                     emit (Printf.sprintf "MISMATCH\t%s\t%d\tbatched-model %s\timpl=%s\tl2=%s" !seq !idx (String.concat " " opf) impl r) end
               | OIter (_, lo, _) when lo <> [] && !l2 <> None ->
                   incr l2checks;
                   let want = (try Some (List.find (fun k -> lex_cmp lo k <> Gt) (List.map fst !s1.keys1)) with Not_found -> None) in
                   let got = (match !l2 with Some t -> seek_ge lo t | None -> None) in
                   if got <> want then begin incr l2diffs; bad := true;
                     emit (Printf.sprintf "MISMATCH\t%s\t%d\tl2-seek %s\timpl=L1-table\tl2=seek differs" !seq !idx (enc_bytes lo)) end
               | _ -> ());
              s0 := s0'; s1 := s1';
              let m1 = show_out o1 and m0 = show_out o0 in
              if m1 <> impl then begin incr mism; bad := true;
                if !mism <= 200 then emit (Printf.sprintf "MISMATCH\t%s\t%d\t%s\timpl=%s\tl1=%s" !seq !idx (String.concat " " opf) impl m1) end;
              if m0 <> impl then begin incr l0d; bad := true; seq_l0 := true;
                emit (Printf.sprintf "L0DIFF\t%s\t%d\thaz=%d\t%s\timpl=%s\tl0=%s" !seq !idx (if !haz then 1 else 0) (String.concat " " opf) impl m0) end));
        incr idx
    | _ -> ());
  Printf.printf "STATS\tseqs=%d\tops=%d\tmutators=%d\tmismatches=%d\tl0diffs=%d\thazard_seqs=%d\tl0diff_seqs=%d\tdistinct_nontrivial=%d\tl2_checks=%d\tl2_diffs=%d\n"
    !nseq !nops !nmut !mism !l0d !hazseq !l0seq !nontriv !l2checks !l2diffs;
  Hashtbl.iter (fun k v -> Printf.printf "COUNT\t%s\t%d\n" k v) counts
