(* driver for the BatchRPC model (C18): reads the event log of harness/go/ov_batchrpc/.../batchrpc on stdin.
   Per scenario it (1) evaluates the extracted monitor predicates on what every caller observed
   (black box: identity, exactly-once return, not later than 20x the time-out, no panic), and
   (2) for single-connection scenarios replays the white-box events through the extracted transition
   function `step` (trace inclusion: every observed event must be an enabled step of the model; the
   model's return values and in-flight table must equal the observed ones).
   Output:  ORACLE <sc> <oracle> <detail>       a monitor predicate failed on the implementation
            REJECT <sc> <oracle> <evno> <reason> <event>   the trace is not a run of the model
            ACCEPT <sc> <steps>   /  BLACKBOX <sc> <callers>   /  STATS k=v ...  / SAMPLE ...        *)

let ios s = try int_of_string s with _ -> -999
let nat i = nat_of_int i
let lbl_name = function
  | Submit _ -> "Submit" | Build _ -> "Build" | DropCanceled _ -> "DropCanceled" | NoConn _ -> "NoConn"
  | InitFail _ -> "InitFail" | Store _ -> "Store" | FailSent _ -> "FailSent" | RecvLoad _ -> "RecvLoad"
  | RecvFinish _ -> "RecvFinish" | StreamFail _ -> "StreamFail" | Abort _ -> "Abort" | Return _ -> "Return"
  | Close -> "Close" | Restart -> "Restart"

exception Reject of string * string (* oracle, reason *)

let parse_pairs s = (* "id:pay,id:pay" *)
  if s = "" then [] else
  List.map (fun x -> match String.split_on_char ':' x with
    | [a; b] -> (ios a, ios b) | _ -> (-999, -999)) (String.split_on_char ',' s)

type sc = { id : string; spec : string; mutable evs : string list list }

let counts = Hashtbl.create 64
let bump k n = Hashtbl.replace counts k (n + (try Hashtbl.find counts k with Not_found -> 0))

let conns_of spec =
  try
    let re = Str.regexp "\"conns\":\\([0-9]+\\)" in
    ignore (Str.search_forward re spec 0); ios (Str.matched_group 1 spec)
  with Not_found -> 1
let class_of spec =
  try
    let re = Str.regexp "\"class\":\"\\([a-z]+\\)\"" in
    ignore (Str.search_forward re spec 0); Str.matched_group 1 spec
  with Not_found -> "?"

(* ---------------------------------------------------------------- black-box monitor *)
let blackbox (s : sc) =
  let subs = Hashtbl.create 64 and rets = Hashtbl.create 64 in
  let fails = ref 0 in
  let oracle name detail = incr fails; Printf.printf "ORACLE\t%s\t%s\t%s\n" s.id name detail in
  List.iter (fun e -> match e with
    | "SUB" :: c :: _ -> Hashtbl.replace subs (ios c) true
    | "RET" :: c :: kind :: p :: late :: _ ->
        let c = ios c in
        let prev = try Hashtbl.find rets c with Not_found -> [] in
        Hashtbl.replace rets c ((kind, ios p, late = "1") :: prev)
    | "HANG" :: c :: _ -> oracle "exactly_once" ("caller " ^ c ^ " did not return (watchdog)")
    | "PANIC" :: c :: r -> oracle "no_panic" ("caller " ^ c ^ " panicked: " ^ String.concat " " r)
    | "HARNESS" :: r -> oracle "harness" (String.concat " " r)
    | "END" :: rest ->
        let n = List.length rest in
        if n >= 4 then begin
          let pr = List.nth rest (n - 4) and ps = List.nth rest (n - 3) and ps2 = List.nth rest (n - 2) in
          let inj = ios (List.nth rest (n - 1)) in (* send-loop panics injected through the repo's failpoint *)
          if pr <> "0" then oracle "no_panic" ("batchRecvLoop recovered " ^ pr ^ " panic(s)");
          if ios ps > inj || ios ps2 > inj || ios ps < 0 then
            oracle "no_panic" (Printf.sprintf "batchSendLoop recovered %s/%s panic(s), %d injected" ps ps2 inj)
        end
    | _ -> ()) s.evs;
  Hashtbl.iter (fun c _ ->
    let rs = try Hashtbl.find rets c with Not_found -> [] in
    let returns = List.length rs in
    bump "calls" 1;
    if not (obs_once (nat returns)) then begin
      if returns <> 0 then oracle "exactly_once" (Printf.sprintf "caller %d returned %d times" c returns)
      else if not (List.exists (fun e -> match e with "HANG" :: c' :: _ -> ios c' = c | _ -> false) s.evs)
      then oracle "exactly_once" (Printf.sprintf "caller %d has no RET event" c)
    end;
    List.iter (fun (kind, p, late) ->
      let r = if kind = "ok" then Some (Resp (nat (max p 0))) else if String.length kind >= 2 && String.sub kind 0 2 = "ok" then None else Some (Err EStream) in
      bump ("ret:" ^ (if String.length kind > 4 && String.sub kind 0 4 = "fail" then "fail" else kind)) 1;
      (match r with
       | None -> oracle "own_response" (Printf.sprintf "caller %d got a response of another request type (%s)" c kind)
       | Some r ->
         if kind = "ok" && p < 0 then oracle "own_response" (Printf.sprintf "caller %d got an undecodable payload" c)
         else if not (obs_identity (nat c) r) then
           oracle "own_response" (Printf.sprintf "caller %d received the response of request %d" c p));
      if late then oracle "bounded_by_timeout" (Printf.sprintf "caller %d returned later than 20x its time-out" c)) rs) subs;
  !fails

(* ---------------------------------------------------------------- white-box acceptor *)
let whitebox (s : sc) =
  let evs = Array.of_list s.evs in
  (* all (id, caller) pairs ever handed to Send, in id order: the order of allocation *)
  let allpairs = ref [] in
  Array.iter (fun e -> match e with
    | "SB" :: _ :: _ :: _ :: pairs :: _ -> allpairs := parse_pairs pairs @ !allpairs
    | _ -> ()) evs;
  let allpairs = List.stable_sort (fun (a, _) (b, _) -> compare a b) (List.rev !allpairs) in
  let maxid = List.fold_left (fun m (i, _) -> max m i) 0 allpairs in
  let known = Hashtbl.create 64 in
  List.iter (fun (i, _) -> Hashtbl.replace known i true) allpairs;
  let unk = Hashtbl.create 8 in
  let map_id i = if Hashtbl.mem known i then i else
      (match Hashtbl.find_opt unk i with Some j -> j | None -> let j = maxid + 1 + Hashtbl.length unk in Hashtbl.replace unk i j; j) in
  let st = ref init and steps = ref 0 in
  let cur = ref 0 in
  let apply oracle l =
    match step !st l with
    | Some s' -> st := s'; incr steps; bump ("step:" ^ lbl_name l) 1
    | None -> raise (Reject (oracle, "model step " ^ lbl_name l ^ " is not enabled")) in
  let entry c = ent !st (nat c) in
  let todo = ref allpairs in
  let build_upto id =
    let rec go () = match !todo with
      | (i, c) :: r when i <= id ->
          if c < 0 then raise (Reject ("own_response", Printf.sprintf "request under id %d carries an undecodable payload" i));
          todo := r;
          (match step !st (Build (nat c, nat i)) with
           | Some s' -> st := s'; incr steps; bump "step:Build" 1
           | None -> raise (Reject ("ids_fresh", Printf.sprintf "id %d handed to caller %d is not fresh (next_id=%d) or the caller is not queued" i c (int_of_nat (next_id !st)))));
          go ()
      | _ -> () in go () in
  let pending = Hashtbl.create 4 in
  let close_pending = ref false and closed_seen = ref false in
  let do_close () = if !close_pending then (close_pending := false; apply "exactly_once" Close) in
  let batches = Hashtbl.create 16 in
  let must_empty = Hashtbl.create 16 in
  let id_of_caller = Hashtbl.create 64 in
  List.iter (fun (i, c) -> if not (Hashtbl.mem id_of_caller c) then Hashtbl.replace id_of_caller c i) allpairs;
  (* pending h = number of Recv failures of stream h whose recreateStreamingClient has not been replayed yet *)
  let npending h = try Hashtbl.find pending h with Not_found -> 0 in
  let flush_fail h = if npending h > 0 then begin
      Hashtbl.replace pending h (npending h - 1); apply "fail_pending" (StreamFail (nat h))
    end in
  let model_ids_of_host h =
    List.sort compare (List.filter_map (fun (i, c) -> if int_of_nat (e_host (ent !st c)) = h then Some (int_of_nat i) else None) (tab !st)) in
  let expect_ret c want =
    apply "exactly_once" (Return (nat c));
    match e_ret (entry c), want with
    | Some (Resp p), `Ok q ->
        if int_of_nat p <> q then raise (Reject ("own_response", Printf.sprintf "caller %d returned payload %d, the model delivers %d" c q (int_of_nat p)))
    | Some (Err _), `Fail -> ()
    | Some (Resp _), `Fail -> raise (Reject ("exactly_once", Printf.sprintf "caller %d returned a failure but its channel held a response" c))
    | Some (Err _), `Ok _ -> raise (Reject ("own_response", Printf.sprintf "caller %d returned a response but its entry had been failed" c))
    | None, _ -> raise (Reject ("exactly_once", "no return value")) in
  let run_event e = match e with
    | "SUB" :: c :: h :: _ -> apply "exactly_once" (Submit (nat (ios c), nat (ios h)))
    | "SB" :: conn :: h :: inc :: pairs :: _ ->
        let ps = parse_pairs pairs in
        build_upto (List.fold_left (fun m (i, _) -> max m i) 0 ps);
        List.iter (fun (i, c) ->
          (match e_st (entry c) with
           | Built j when int_of_nat j = i -> ()
           | _ -> raise (Reject ("ids_fresh", Printf.sprintf "request of caller %d sent under id %d which the model did not allocate to it" c i)));
          if int_of_nat (e_host (entry c)) <> ios h then raise (Reject ("own_response", Printf.sprintf "request of caller %d sent on the stream of host %s" c h));
          apply "ids_fresh" (Store (nat c))) ps;
        Hashtbl.replace batches (conn, h, inc) ps
    | "SE" :: conn :: h :: inc :: "err" :: _ ->
        let ps = try Hashtbl.find batches (conn, h, inc) with Not_found -> [] in
        List.iter (fun (_, c) -> match e_st (entry c) with Stored _ -> apply "exactly_once" (FailSent (nat c)) | _ -> ()) ps
    | "RV" :: _ :: h :: _ :: pairs :: _ ->
        let h = ios h in
        List.iter (fun (i, p) ->
          let i' = map_id i in
          (* the caller's abort was logged before this response was read: the dispatch must see canceled = 1 *)
          (match lookup (nat i') (tab !st) with
           | Some c when e_canceled (ent !st c) -> Hashtbl.replace must_empty i true
           | _ -> ());
          (match step !st (RecvLoad (nat h, nat i', nat (max p 0))) with
           | Some s' -> st := s'; incr steps; bump "step:RecvLoad" 1
           | None -> raise (Reject ("own_response", Printf.sprintf "response for id %d with payload %d on stream %d is not a dispatch step of the model (foreign payload / wrong stream / loop state)" i p h)));
          (match loops !st (nat h) with LLoaded _ -> apply "exactly_once" (RecvFinish (nat h)) | _ -> bump "outdated" 1)) (parse_pairs pairs)
    | "RE" :: _ :: h :: _ -> Hashtbl.replace pending (ios h) (npending (ios h) + 1)
    | "NSF" :: _ :: h :: _ -> flush_fail (ios h) (* re-creation attempted (and failed): the epoch CAS of this failure has happened *)
    | "NS" :: _ :: h :: _ :: snap :: _ ->
        let h = ios h in
        if npending h > 0 then begin
          flush_fail h;
          (* white-box table oracle: the real table restricted to this host, read while the stream is re-created *)
          let real = List.sort compare (List.filter_map (fun x -> if x = "-" || x = "" || x = "?" then None else Some (ios x)) (String.split_on_char ',' snap)) in
          if snap <> "?" && real <> model_ids_of_host h then
            raise (Reject ("fail_pending", Printf.sprintf "after re-creating stream %d the table holds ids [%s] of that host, the model [%s]" h
                             (String.concat "," (List.map string_of_int real)) (String.concat "," (List.map string_of_int (model_ids_of_host h)))))
        end
    | "CLOSE" :: _ -> close_pending := true; closed_seen := true
    | "INJ" :: "sendpanic" :: _ -> apply "ids_fresh" Restart
    | "RET" :: c :: kind :: p :: _ ->
        let c = ios c in
        let abort k =
          (match e_st (entry c) with
           | Queued when Hashtbl.mem id_of_caller c && not (e_canceled (entry c)) ->
               (* the request was selected by buildWithLimit before its caller gave up (it is sent later) *)
               build_upto (Hashtbl.find id_of_caller c)
           | _ -> ());
          apply "exactly_once" (Abort (nat c, k)) in
        (match kind with
         | "ok" ->
             if e_comp (entry c) = [] then raise (Reject ("own_response", Printf.sprintf "caller %d returned a response but no dispatch to its entry was observed" c));
             expect_ret c (`Ok (ios p))
         | "ctx" -> abort ECtx
         | "timeout" -> abort ETimeout
         | "closed" -> do_close (); abort EClosed
         | "fail:init" ->
             if e_comp (entry c) = [] then apply "exactly_once" (InitFail (nat c));
             expect_ret c `Fail
         | "fail:noconn" ->
             if e_comp (entry c) = [] then apply "exactly_once" (NoConn (nat c));
             expect_ret c `Fail
         | "fail:idle" -> ()
         | k when String.length k >= 4 && String.sub k 0 4 = "fail" ->
             if e_comp (entry c) = [] then begin
               (match e_st (entry c) with
                | Stored _ -> flush_fail (int_of_nat (e_host (entry c)))
                | Queued | Built _ -> apply "exactly_once" (InitFail (nat c)) (* stream could not be created (real dial failure) *)
                | _ -> ())
             end;
             if e_comp (entry c) = [] then raise (Reject ("exactly_once", Printf.sprintf "caller %d returned a failure that no step of the model produces (entry state unchanged)" c));
             expect_ret c `Fail
         | _ -> () (* ok-wrongtype: reported by the black-box monitor *))
    | "CRES" :: l :: _ when String.length l > 5 ->
        List.iter (fun x -> match String.split_on_char ':' x with
          | [_; i; canc; buffered] ->
              let i = ios i in
              if canc = "1" && ios buffered > 0 && Hashtbl.mem must_empty i then
                raise (Reject ("canceled_never_delivered", Printf.sprintf "the entry of id %d was canceled before its response was read from the stream, yet the response was put on its channel" i));
              (* the canceled flag of every entry that was in flight equals the model's (set exactly by the caller's abort) *)
              (match lookup (nat i) (alloc !st) with
               | Some c ->
                   let m = e_canceled (ent !st c) in
                   if m <> (canc = "1") then
                     raise (Reject ("canceled_never_delivered", Printf.sprintf "entry of id %d (caller %d): canceled flag is %s, the model has %b" i (int_of_nat c) canc m))
               | None -> ())
          | _ -> ()) (String.split_on_char ',' (String.sub l 5 (String.length l - 5)))
    | "END" :: tabs :: sent :: _ ->
        do_close ();
        List.iter (fun h -> while npending h > 0 do flush_fail h done) (Hashtbl.fold (fun h _ a -> h :: a) pending []);
        if not !closed_seen && String.length tabs >= 4 && String.sub tabs 0 4 = "tab=" then begin
          let body = String.sub tabs 4 (String.length tabs - 4) in
          let real = List.sort compare (List.filter_map (fun x -> match String.split_on_char ':' x with
              | [_; i; _; _] -> Some (ios i) | _ -> None) (String.split_on_char ',' body)) in
          let model = List.sort compare (List.map (fun (i, _) -> int_of_nat i) (tab !st)) in
          if real <> model then
            raise (Reject ("table", Printf.sprintf "at quiescence the table holds ids [%s], the model [%s]"
                             (String.concat "," (List.map string_of_int real)) (String.concat "," (List.map string_of_int model))));
          let sentv = if String.length sent > 5 then ios (String.sub sent 5 (String.length sent - 5)) else -999 in
          if sentv <> List.length real then
            raise (Reject ("table", Printf.sprintf "at quiescence sent=%d but the table holds %d entries" sentv (List.length real)))
        end
    | _ -> () in
  (try
     Array.iteri (fun i e -> cur := i; run_event e) evs;
     bump "traces_accepted" 1; bump "model_steps" !steps;
     Printf.printf "ACCEPT\t%s\t%d\n" s.id !steps; 0
   with Reject (oracle, reason) ->
     Printf.printf "REJECT\t%s\t%s\t%d\t%s\t%s\n" s.id oracle !cur reason (String.concat " " evs.(!cur)); 1)

let () =
  let scs = ref [] and cur = ref None in
  read_lines (fun line ->
    match split_tab line with
    | "SC" :: id :: spec :: _ ->
        let s = { id; spec; evs = [] } in scs := s :: !scs; cur := Some s
    | f -> (match !cur with Some s -> s.evs <- f :: s.evs | None -> ()));
  let scs = List.rev !scs in
  let sigs = Hashtbl.create 64 in
  List.iter (fun s ->
    s.evs <- List.rev s.evs;
    bump "scenarios" 1; bump ("class:" ^ class_of s.spec) 1; bump "events" (List.length s.evs);
    let bf = blackbox s in
    Printf.printf "BLACKBOX\t%s\t%d\n" s.id bf;
    let newpool = List.exists (fun e -> match e with "CLOSE" :: "addr" :: _ -> true | _ -> false) s.evs in
    (* the acceptor models ONE batchCommandsClient: several connections, or a pool re-created after CloseAddr, are black-box only *)
    let wf = if conns_of s.spec = 1 && not newpool then whitebox s else (bump "blackbox_only" 1; 0) in
    (* distinct non-trivial: distinct event-kind signatures of scenarios with at least 2 callers and a fault or reorder *)
    let kinds = String.concat "" (List.map (fun e -> match e with
        | "RET" :: _ :: k :: _ -> "r" ^ String.sub k 0 1 | k :: _ -> String.sub k 0 2 | [] -> "") s.evs) in
    let ncall = List.length (List.filter (fun e -> match e with "SUB" :: _ -> true | _ -> false) s.evs) in
    if ncall >= 2 then Hashtbl.replace sigs (Digest.string kinds) true;
    ignore wf) scs;
  Printf.printf "STATS";
  Hashtbl.iter (fun k v -> Printf.printf "\t%s=%d" k v) counts;
  Printf.printf "\tdistinct=%d\n" (Hashtbl.length sigs)
