(* driver for the BatchRPC model (C18): reads the event log of harness/go/ov_batchrpc/.../batchrpc on stdin.
   Per scenario it (1) evaluates the extracted monitor predicates on what every caller observed
   (black box: identity, exactly-once return, not later than 20x the time-out / completion in the drain phase,
   no unexpected panic), and (2) for single-connection scenarios replays the white-box events -- per store
   (connection pool) -- through the extracted transition function `xstep` of the builder/send-loop/async layer
   over the core `step` (trace inclusion: every observed event must be an enabled step of the model; builder rounds
   (ids, priorities, leftovers), return values, the in-flight table after every dispatched response batch, at stream
   re-creation and at quiescence, and the canceled flags must equal the model's).
   Output:  ORACLE <sc> <oracle> <detail>       a monitor predicate failed on the implementation
            REJECT <sc> <oracle> <evno> <reason> <event>   the trace is not a run of the model
            ACCEPT <sc> <steps>   /  BLACKBOX <sc> <failures>   /  STATS k=v ...                          *)

let ios s = try int_of_string s with _ -> -999
let nat i = nat_of_int i
let lbl_name = function
  | Submit _ -> "Submit" | Build _ -> "Build" | DropCanceled _ -> "DropCanceled" | NoConn _ -> "NoConn"
  | InitFail _ -> "InitFail" | Store _ -> "Store" | FailSent _ -> "FailSent" | RecvLoad _ -> "RecvLoad"
  | RecvFinish _ -> "RecvFinish" | StreamFail _ -> "StreamFail" | Abort _ -> "Abort" | Return _ -> "Return"
  | Close -> "Close" | Restart -> "Restart" | RecvPanic _ -> "RecvPanic" | FailPanic _ -> "FailPanic"
  | CloseFail _ -> "CloseFail" | QueueFail _ -> "QueueFail" | IdleFail _ -> "IdleFail"
let xlbl_name = function
  | XSubmit _ -> "XSubmit" | XFetch _ -> "XFetch" | XBuildRound _ -> "XBuildRound" | XClean -> "XClean"
  | XNoConn -> "XNoConn" | XSendExit -> "XSendExit" | XIdleExit -> "XIdleExit" | XWake -> "XWake" | XCore l -> lbl_name l

exception Reject of string * string (* oracle, reason *)
exception Skip of string (* a schedule the acceptor does not follow: left to the black-box monitor *)

let parse_pairs s = (* "id:pay,id:pay" *)
  if s = "" then [] else
  List.map (fun x -> match String.split_on_char ':' x with
    | [a; b] -> (ios a, ios b) | _ -> (-999, -999)) (String.split_on_char ',' s)
let parse_triples s = (* "a:b:c,..." *)
  if s = "" then [] else
  List.filter_map (fun x -> match String.split_on_char ':' x with
    | [a; b; c] -> Some (ios a, ios b, ios c) | _ -> None) (String.split_on_char ',' s)
(* built entries of a builder dump: "id:caller:bucket[:priority],..." *)
let parse_built s =
  if s = "" then [] else
  List.filter_map (fun x -> match String.split_on_char ':' x with
    | [a; b; c; d] -> Some (ios a, ios b, ios c, ios d) | [a; b; c] -> Some (ios a, ios b, ios c, -1) | _ -> None) (String.split_on_char ',' s)
let after_eq s = match String.index_opt s '=' with Some i -> String.sub s (i + 1) (String.length s - i - 1) | None -> s
let has_prefix p s = String.length s >= String.length p && String.sub s 0 (String.length p) = p

(* the resource-control wrapper: SUB ... g=<rc>:<group>:<gate>:<icpt>; the scripted controller's group priorities *)
let group_pri g = nat (match int_of_nat g with 1 -> 1 | 2 -> 8 | 3 -> 12 | _ -> 0)
let bg_group = nat 9
let gspec_of_sub (fields : string list) (override : int) =
  let g = List.find_opt (fun f -> has_prefix "g=" f) fields in
  match g with
  | Some f -> (match String.split_on_char ':' (after_eq f) with
      | [rc; grp; gate; ic] -> ({ g_rc = (rc = "1"); g_override = nat override; g_group = nat (ios grp); g_gate = nat (ios gate) }, ic = "1")
      | _ -> ({ g_rc = false; g_override = nat override; g_group = O; g_gate = O }, false))
  | None -> ({ g_rc = false; g_override = nat override; g_group = O; g_gate = O }, false)

type sc = { id : string; spec : string; mutable evs : string list list }

let counts = Hashtbl.create 64
let bump k n = Hashtbl.replace counts k (n + (try Hashtbl.find counts k with Not_found -> 0))

let spec_int key spec dflt =
  try
    let re = Str.regexp ("\"" ^ key ^ "\":\\([0-9]+\\)") in
    ignore (Str.search_forward re spec 0); ios (Str.matched_group 1 spec)
  with Not_found -> dflt
let conns_of spec = spec_int "conns" spec 1
let pools_of spec = max 1 (spec_int "pools" spec 1)
let nobatch_of spec = try ignore (Str.search_forward (Str.regexp_string "\"nobatch\":true") spec 0); true with Not_found -> false
let class_of spec =
  try
    let re = Str.regexp "\"class\":\"\\([a-z]+\\)\"" in
    ignore (Str.search_forward re spec 0); Str.matched_group 1 spec
  with Not_found -> "?"

(* the tag of a pool-specific event is "TAG" for store 0 and "TAG@k" for store k *)
let split_at ch t = match String.index_opt t ch with
  | Some i -> (String.sub t 0 i, ios (String.sub t (i + 1) (String.length t - i - 1)))
  | None -> (t, 0)
(* ... followed by "#g" for generation g > 0 of the store's pool (CloseAddr drops the pool, the next call creates a new one) *)
let split_gen t = split_at '#' t
let split_tag t = split_at '@' (fst (split_gen t))

(* ---------------------------------------------------------------- black-box monitor *)
let blackbox (s : sc) =
  let subs = Hashtbl.create 64 and rets = Hashtbl.create 64 in
  let expect = Hashtbl.create 64 and cancels = Hashtbl.create 64 in
  let icb = Hashtbl.create 16 and ica = Hashtbl.create 16 and icspec = Hashtbl.create 16 in
  (* the call's own time bound in ms (its time-out parameter / the deadline of its own context; max_int: none) *)
  let own_to = Hashtbl.create 64 in
  let collapse_sc = (try ignore (Str.search_forward (Str.regexp_string "\"collapse\":true") s.spec 0); true with Not_found -> false) in
  let fails = ref 0 in
  let oracle name detail = incr fails; Printf.printf "ORACLE\t%s\t%s\t%s\n" s.id name detail in
  let badids = ref 0 in
  List.iter (fun e -> match e with
    | t :: _ :: _ :: _ :: pairs :: _ when fst (split_tag t) = "RV" ->
        List.iter (fun (_, p) -> if p = -9 then incr badids) (parse_pairs pairs)
    | _ -> ()) s.evs;
  List.iter (fun e -> match e with
    | "SUB" :: c :: rest ->
        Hashtbl.replace subs (ios c) true;
        (match rest with
         | _ :: _ :: _ :: tmo :: mode :: _ ->
             let a = has_prefix "async" mode and lg = (try ignore (Str.search_forward (Str.regexp_string "-long") mode 0); true with Not_found -> false) in
             let base = if lg then (if a then max_int else 30000) else ios tmo in
             let dl = (match List.find_opt (fun f -> has_prefix "dl=" f) rest with Some f when ios (after_eq f) > 0 -> ios (after_eq f) | _ -> max_int) in
             Hashtbl.replace own_to (ios c) (min base dl)
         | _ -> ());
        (match rest with
         | _ :: p :: _ :: _ :: mode :: _ ->
             let (g, ic) = gspec_of_sub rest (max 0 (ios p)) in
             if ic then Hashtbl.replace icspec (ios c) (g, has_prefix "async" mode)
         | _ -> ());
        (* expected payload (the caller's own number; the collapse key for a collapsed ResolveLock) and whether the
           harness will ever cancel this call's context *)
        (match rest with
         | _ :: _ :: _ :: _ :: _ :: _ :: exp :: canc :: _ -> Hashtbl.replace expect (ios c) (ios exp); if canc = "1" then Hashtbl.replace cancels (ios c) true
         | _ -> Hashtbl.replace cancels (ios c) true)
    | "RET" :: c :: kind :: p :: late :: rest ->
        let c = ios c in
        (* a time-out error is the call's OWN: it cannot come before the call's own time-out / context deadline has passed
           (checked where no other deadline exists in the stack: the collapse wrapper -- the shared request runs with
           context.Background() and a 30 s time-out) *)
        (match rest with
         | el :: _ when collapse_sc && kind = "timeout" ->
             let own = (try Hashtbl.find own_to c with Not_found -> 0) in
             if own < max_int && 2 * ios el < own || own = max_int then
               oracle "own_error" (Printf.sprintf "caller %d returned a deadline / time-out error after %s ms although its own time-out (%s) had not passed: another call's deadline became its result" c el
                                     (if own = max_int then "none" else string_of_int own ^ " ms"))
         | _ -> ());
        let prev = try Hashtbl.find rets c with Not_found -> [] in
        Hashtbl.replace rets c ((kind, ios p, late = "1") :: prev)
    | "HANG" :: c :: _ -> Hashtbl.replace cancels (ios c) true; oracle "exactly_once" ("caller " ^ c ^ " did not return (watchdog)")
    | "ICB" :: c :: _ -> Hashtbl.replace icb (ios c) (1 + (try Hashtbl.find icb (ios c) with Not_found -> 0))
    | "ICA" :: c :: kind :: p :: _ -> Hashtbl.replace ica (ios c) ((kind, ios p) :: (try Hashtbl.find ica (ios c) with Not_found -> []))
    | "PANIC" :: c :: r -> oracle "no_panic" ("caller " ^ c ^ " panicked: " ^ String.concat " " r)
    | "HARNESS" :: r -> oracle "harness" (String.concat " " r)
    | "END" :: rest ->
        let n = List.length rest in
        if n >= 5 then begin
          let pr = List.nth rest (n - 5) and ps = List.nth rest (n - 4) and ps2 = List.nth rest (n - 3) in
          let inj = ios (List.nth rest (n - 2)) and injr = ios (List.nth rest (n - 1)) in
          (* panics injected through the repo's failpoints / through response batches with an id lacking its response *)
          if int_of_float (float_of_string pr) > injr + !badids then
            oracle "no_panic" (Printf.sprintf "batchRecvLoop recovered %s panic(s), %d injected" pr (injr + !badids));
          if ios ps > inj || ios ps2 > inj || ios ps < 0 then
            oracle "no_panic" (Printf.sprintf "batchSendLoop recovered %s/%s panic(s), %d injected" ps ps2 inj)
        end
    | _ -> ()) s.evs;
  Hashtbl.iter (fun c _ ->
    let rs = try Hashtbl.find rets c with Not_found -> [] in
    let returns = List.length rs in
    bump "calls" 1;
    if not (obs_once (nat returns)) then begin
      if returns <> 0 then oracle "exactly_once" (Printf.sprintf "caller %d returned %d times" c returns)
      else if not (List.exists (fun e -> match e with "HANG" :: c' :: _ -> ios c' = c | _ -> false) s.evs)
      then oracle "exactly_once" (Printf.sprintf "caller %d has no RET event" c)
    end;
    List.iter (fun (kind, p, late) ->
      let r = if kind = "ok" then Some (Resp (nat (max p 0))) else if has_prefix "ok" kind then None else Some (Err EStream) in
      bump ("ret:" ^ (if has_prefix "fail" kind then "fail" else kind)) 1;
      (match r with
       | None -> oracle "own_response" (Printf.sprintf "caller %d got a response of another request type (%s)" c kind)
       | Some r ->
         if kind = "ok" && p < 0 then oracle "own_response" (Printf.sprintf "caller %d got an undecodable payload" c)
         else if not (obs_identity (nat (try Hashtbl.find expect c with Not_found -> c)) r) then
           oracle "own_response" (let e = (try Hashtbl.find expect c with Not_found -> c) in
             if e = c then Printf.sprintf "caller %d received the response of request %d" c p
             else Printf.sprintf "caller %d (command fingerprint %d) received the response to a different command (fingerprint %d): its request shared a flight with an unequal request" c e p));
      (* an error is the call's OWN error: "context canceled" only if its own context was cancelled *)
      if kind = "ctx" && not (Hashtbl.mem cancels c) then
        oracle "own_error" (Printf.sprintf "caller %d returned `context canceled` although its own context was never cancelled" c);
      if late then oracle "bounded_by_timeout" (Printf.sprintf "caller %d returned later than 20x its time-out" c)) rs;
    (* an RPC interceptor on the call's context sees a synchronous call exactly once (unless the request gate refused it),
       with the call's own response; an asynchronous call at most once *)
    (match Hashtbl.find_opt icspec c with
     | Some (g, is_async) when returns = 1 ->
         let nb = (try Hashtbl.find icb c with Not_found -> 0) and la = (try Hashtbl.find ica c with Not_found -> []) in
         let want = int_of_nat (icpt_runs bg_group g is_async) in   (* predicted by the wrapper model *)
         if nb <> want || List.length la <> want then
           oracle "interceptor_once" (Printf.sprintf "the RPC interceptor of caller %d ran %d/%d times (before/after), expected %d" c nb (List.length la) want);
         List.iter (fun (k, p) -> if k = "ok" && p <> (try Hashtbl.find expect c with Not_found -> c) then
           oracle "own_response" (Printf.sprintf "the RPC interceptor of caller %d was handed the response of request %d" c p)) la
     | _ -> ())) subs;
  !fails

(* ---------------------------------------------------------------- white-box acceptor (one store) *)
let whitebox (scid : string) (label : string) (cfg_limit : int) (nh : int) (evl : string list list) =
  let evs = Array.of_list evl in
  let n_ev = Array.length evs in
  (* look-ahead tables: in which ROUND a caller is built, what a caller returns *)
  let built_at = Hashtbl.create 64 and ret_kind = Hashtbl.create 64 and ret_at = Hashtbl.create 64 in
  (* several connections: one core instance with a lane = (connection, forwarded host) per stream; the connection a request
     is sent on is only decided by getClientAndSend, the acceptor looks it up in the caller's Send event *)
  let conn_of = Hashtbl.create 64 and subp = Hashtbl.create 64 and gspecs = Hashtbl.create 64 in
  let lane conn h = ios h + nh * (max 0 (ios conn)) in
  let maxid = ref 0 and round_idx = ref [] in
  Array.iteri (fun i e -> match e with
    | "ROUND" :: _ :: b :: _ ->
        round_idx := i :: !round_idx;
        List.iter (fun (id, c, _, _) -> maxid := max !maxid id; if not (Hashtbl.mem built_at c) then Hashtbl.replace built_at c i) (parse_built (after_eq b))
    | "SB" :: conn :: _ :: _ :: pairs :: _ ->
        List.iter (fun (id, c) -> maxid := max !maxid id; if not (Hashtbl.mem conn_of c) then Hashtbl.replace conn_of c (max 0 (ios conn))) (parse_pairs pairs)
    | "SUB" :: c :: h :: p :: _ :: _ :: mode :: rest ->
        let a = try ignore (Str.search_forward (Str.regexp_string "async") mode 0); true with Not_found -> false in
        let (g, _) = gspec_of_sub rest (max 0 (ios p)) in
        Hashtbl.replace gspecs (ios c) g;
        (* predicted, not observed: the priority the wrapper gives the request *)
        Hashtbl.replace subp (ios c) (ios h, int_of_nat (gate_priority bg_group group_pri g), a)
    | "RET" :: c :: kind :: _ -> if not (Hashtbl.mem ret_kind (ios c)) then (Hashtbl.replace ret_kind (ios c) kind; Hashtbl.replace ret_at (ios c) i)
    | _ -> ()) evs;
  (* calls that the watchdog had to give up on: their final "ctx" return is the harness's own cancellation *)
  let hung = Hashtbl.create 8 in
  Array.iter (fun e -> match e with "HANG" :: c :: _ -> Hashtbl.replace hung (ios c) true | _ -> ()) evs;
  let failpanic = Array.exists (fun e -> match e with "INJ" :: "failpanic" :: _ -> true | _ -> false) evs in
  let unk = Hashtbl.create 8 in
  let map_id i = if i <= !maxid then i else
      (match Hashtbl.find_opt unk i with Some j -> j | None -> let j = !maxid + 1 + Hashtbl.length unk in Hashtbl.replace unk i j; j) in
  let xs = ref xinit and steps = ref 0 and cur = ref 0 in
  let st () = core !xs in
  let apply oracle l =
    match xstep !xs l with
    | Some x' -> xs := x'; incr steps; bump ("step:" ^ xlbl_name l) 1
    | None -> raise (Reject (oracle, "model step " ^ xlbl_name l ^ " is not enabled")) in
  let capply oracle l = apply oracle (XCore l) in
  let entry c = ent (st ()) (nat c) in
  let in_inb c = memb (nat c) (inb !xs) in
  let is_async c = asy !xs (nat c) in
  (* the entry is created (and, for an asynchronous call, batchConn.closed re-checked) when the request is enqueued, which
     is some time after the call started: the model's XSubmit is replayed at the first evidence of the entry *)
  let ensure c =
    match e_st (entry c) with
    | Fresh ->
        (match Hashtbl.find_opt subp c with
         | Some (h, p, a) ->
             let ln = h + nh * (try Hashtbl.find conn_of c with Not_found -> 0) in
             apply "exactly_once" (XSubmit (nat c, nat ln, nat p, a))
         | None -> raise (Reject ("exactly_once", Printf.sprintf "caller %d appears without having started a call" c)))
    | _ -> () in
  let pending = Hashtbl.create 4 in
  let close_pending = ref false and closed_seen = ref false in
  let do_close () = if !close_pending then (close_pending := false; capply "exactly_once" Close) in
  let batches = Hashtbl.create 16 and must_empty = Hashtbl.create 16 and failed_sent = Hashtbl.create 16 in
  let pre_aborted = Hashtbl.create 8 and deferred = Hashtbl.create 8 in
  let max_stored = ref 0 in
  let npending h = try Hashtbl.find pending h with Not_found -> 0 in
  let flush_fail h = if npending h > 0 then begin
      Hashtbl.replace pending h (npending h - 1); capply "fail_pending" (StreamFail (nat h)) end in
  let model_ids_of_host h =
    List.sort compare (List.filter_map (fun (i, c) -> if int_of_nat (e_host (ent (st ()) c)) = h then Some (int_of_nat i) else None) (tab (st ()))) in
  let ids_str l = String.concat "," (List.map string_of_int l) in
  let snap_ids snap = List.sort compare (List.filter_map (fun x -> if x = "-" || x = "" || x = "?" then None else Some (ios x)) (String.split_on_char ',' snap)) in
  let abort_of_kind = function "ctx" -> Some ECtx | "timeout" -> Some ETimeout | "closed" -> Some EClosed | _ -> None in
  let do_abort c k =
    if k = EClosed then do_close ();
    ensure c;
    if k = EClosed && is_async c then begin
      (* an asynchronous call reports "closed" through the sender's re-check / the drain of the channel / the exit of
         a recv loop, never through a select on batchConn.closed *)
      (match e_st (entry c) with
       | Queued -> (match xstep !xs XSendExit with Some x' -> xs := x'; incr steps; bump "step:XSendExit" 1 | None -> bump "async_closed_unexplained" 1)
       | Stored _ -> capply "exactly_once" (CloseFail (nat c))
       | _ -> ());
      if e_comp (entry c) <> [] && e_ret (entry c) = None then capply "exactly_once" (Return (nat c))
    end else capply "exactly_once" (Abort (nat c, k)) in
  let expect_ret c want =
    capply "exactly_once" (Return (nat c));
    match e_ret (entry c), want with
    | Some (Resp p), `Ok q ->
        if int_of_nat p <> q then raise (Reject ("own_response", Printf.sprintf "caller %d returned payload %d, the model delivers %d" c q (int_of_nat p)))
    | Some (Err _), `Fail -> ()
    | Some (Resp _), `Fail -> raise (Reject ("exactly_once", Printf.sprintf "caller %d returned a failure but its channel held a response" c))
    | Some (Err _), `Ok _ -> raise (Reject ("own_response", Printf.sprintf "caller %d returned a response but its entry had been failed" c))
    | None, _ -> raise (Reject ("exactly_once", "no return value")) in
  let fetch c = ensure c; if is_queued (e_st (entry c)) && not (in_inb c) then apply "builder" (XFetch (nat c)) in
  let run_event e = match e with
    | "SUB" :: _ -> () (* see `ensure` *)
    | "ROUND" :: r :: b :: l :: _ ->
        bump "rounds" 1;
        let quads = parse_built (after_eq b) in
        let built = List.sort compare (List.map (fun (a, b, c, _) -> (a, b, c)) quads) and left = parse_triples (after_eq l) in
        List.iter (fun (i, c, _) -> if c < 0 then raise (Reject ("builder", Printf.sprintf "entry of id %d carries no caller" i))) built;
        List.iter (fun (_, c, _) -> fetch c) built;
        List.iter (fun (c, _, _) -> if c >= 0 then fetch c) left;
        (* entries the builder no longer holds: popped-and-skipped or cleaned because they were cancelled *)
        let keep = Hashtbl.create 16 in
        List.iter (fun (_, c, _) -> Hashtbl.replace keep c true) built; List.iter (fun (c, _, _) -> Hashtbl.replace keep c true) left;
        List.iter (fun c -> let c = int_of_nat c in
          if not (Hashtbl.mem keep c) && not (e_canceled (entry c)) then begin
            match (try abort_of_kind (Hashtbl.find ret_kind c) with Not_found -> None) with
            | Some k when not (k = EClosed && is_async c) && not (Hashtbl.mem hung c) -> do_abort c k; Hashtbl.replace pre_aborted c true
            | _ -> raise (Reject ("builder", Printf.sprintf "caller %d left the builder without being built although its call was not given up: an entry popped by buildWithLimit is lost (never sent, never failed, not queued any more)" c))
          end) (inb !xs);
        apply "builder" XClean;
        let takes = List.map (fun (_, c, _) -> nat c) built in
        (* unbounded limit: buildWithLimit pops everything.  A finite limit: available() at the time of the build cannot
           be read without a race, so only the weakest quota (Some 0) is demanded; what IS checked exactly is that
           nothing popped is lost (every entry that left the builder was built or had been given up) *)
        let lim = if cfg_limit <= 0 then None else Some O in
        (* no request arrived since the last round: the send loop woke up on its retry timer for the leftover entries *)
        if not (ready !xs) then apply "builder" XWake;
        (match xstep !xs (XBuildRound (lim, takes)) with
         | Some x' -> xs := x'; incr steps; bump "step:XBuildRound" 1
         | None ->
             if not (quota_ok lim (ent (st ())) (pri !xs) (inb !xs) takes) then
               raise (Reject ("builder", Printf.sprintf "round building callers [%s] leaves entries in the builder ([%s]) although the concurrency limit is unbounded"
                                (ids_str (List.map (fun (_, c, _) -> c) built)) (ids_str (List.map int_of_nat (inb !xs)))))
             else if not (round_ok (pri !xs) (inb !xs) takes) then
               raise (Reject ("builder", Printf.sprintf "round building callers [%s] is not a legal buildWithLimit round: an entry was built that is not in the builder, or an entry of high / higher priority stayed behind (builder holds [%s])"
                                (ids_str (List.map (fun (_, c, _) -> c) built)) (ids_str (List.map int_of_nat (inb !xs)))))
             else raise (Reject ("ids_fresh", "a built entry is cancelled / not queued in the model, or the id source went backwards")));
        List.iter (fun (i, c, h) ->
          (match e_st (entry c) with
           | Built j when int_of_nat j = i -> ()
           | _ -> raise (Reject ("ids_fresh", Printf.sprintf "caller %d was given id %d, the model allocates the next consecutive id (next_id=%d after the round)" c i (int_of_nat (next_id (st ()))))));
          if int_of_nat (e_host (entry c)) mod nh <> h then raise (Reject ("own_response", Printf.sprintf "request of caller %d put in the bucket of host %d" c h))) built;
        (* the priority each built entry carries in the real builder is the one the wrapper model predicts *)
        List.iter (fun (_, c, _, op) -> if op >= 0 && op <> int_of_nat (pri !xs (nat c)) then
          raise (Reject ("priority", Printf.sprintf "caller %d is queued with priority %d, the model of the resource-control wrapper predicts %d" c op (int_of_nat (pri !xs (nat c)))))) quads;
        if int_of_nat (next_id (st ())) <> ios r then
          raise (Reject ("ids_fresh", Printf.sprintf "idAlloc is %s after the round, the model has %d" r (int_of_nat (next_id (st ())))));
        (* callers that gave up after buildWithLimit had selected them *)
        List.iter (fun (c, k) -> Hashtbl.remove deferred c; do_abort c k) (Hashtbl.fold (fun c (at, k) a -> if at <= !cur then (c, k) :: a else a) deferred [])
    | "SB" :: conn :: h :: inc :: pairs :: _ ->
        let ps = parse_pairs pairs in
        List.iter (fun (i, c) ->
          (match e_st (entry c) with
           | Built j when int_of_nat j = i -> ()
           | _ -> raise (Reject ("ids_fresh", Printf.sprintf "request of caller %d sent under id %d which no builder round allocated to it" c i)));
          if int_of_nat (e_host (entry c)) <> lane conn h then raise (Reject ("own_response", Printf.sprintf "request of caller %d sent on the stream of host %s of connection %s" c h conn));
          max_stored := max !max_stored i;
          capply "ids_fresh" (Store (nat c))) ps;
        Hashtbl.replace batches (conn, h, inc) ps
    | "SE" :: conn :: h :: inc :: "err" :: _ ->
        let ps = try Hashtbl.find batches (conn, h, inc) with Not_found -> [] in
        List.iter (fun (i, c) -> Hashtbl.replace failed_sent i true;
                    match e_st (entry c) with Stored _ -> capply "exactly_once" (FailSent (nat c)) | _ -> ()) ps
    | "RV" :: conn :: h :: _ :: pairs :: _ ->
        let h = lane conn h in
        (try List.iter (fun (i, p) ->
          let i' = map_id i in
          (match lookup (nat i') (tab (st ())) with
           | Some c when e_canceled (ent (st ()) c) -> Hashtbl.replace must_empty i true
           | _ -> ());
          let p = if p = -9 then (match lookup (nat i') (tab (st ())) with Some c -> -10 - int_of_nat c | None -> -9) else p in
          let pay = if p <= -10 then -10 - p else max p 0 in
          (match xstep !xs (XCore (RecvLoad (nat h, nat i', nat pay))) with
           | Some x' -> xs := x'; incr steps; bump "step:RecvLoad" 1
           | None -> raise (Reject ("own_response", Printf.sprintf "response for id %d with payload %d on stream %d is not a dispatch step of the model (foreign payload / wrong stream / loop state)" i p h)));
          (match loops (st ()) (nat h) with
           | LLoaded _ when p <= -10 -> capply "exactly_once" (RecvPanic (nat h)); bump "recv_panics_expected" 1; raise Exit (* the rest of the batch is lost *)
           | LLoaded _ -> capply "exactly_once" (RecvFinish (nat h))
           | _ -> bump "outdated" 1)) (parse_pairs pairs) with Exit -> ())
    | "RD" :: conn :: h :: _ :: snap :: _ when snap <> "?" && not !closed_seen ->
        (* the recv loop asks for the next message: everything it dispatched has left the table *)
        let h = lane conn h in
        let real = snap_ids snap and model = model_ids_of_host h in
        bump "table_checks" 1;
        List.iter (fun i -> if not (List.mem i real) then
          raise (Reject ("table", Printf.sprintf "id %d of stream %d is in flight in the model but not in `batched` ([%s])" i h (ids_str real)))) model;
        let retired i = match lookup (nat i) (alloc (st ())) with
          | Some c -> (match e_st (ent (st ()) c) with Retired -> true | _ -> false)  (* Built: stored, its Send not logged yet *)
          | None -> false (* allocated in a round whose dump is not logged yet *) in
        List.iter (fun i -> if not (List.mem i model) && retired i && not (Hashtbl.mem failed_sent i) then
          raise (Reject ("table", Printf.sprintf "id %d of stream %d is still in `batched` although the model has retired it (dispatched / failed): [%s] vs model [%s]" i h (ids_str real) (ids_str model)))) real
    | "RE" :: conn :: h :: _ ->
        let h = lane conn h in
        if failpanic && npending h > 0 then
          (* the previous failure of this stream never reached the re-creation: failPendingRequests panicked *)
          capply "fail_pending" (FailPanic (nat h))
        else Hashtbl.replace pending h (npending h + 1)
    | "NSF" :: conn :: h :: _ -> flush_fail (lane conn h)
    | "NS" :: conn :: h :: _ :: snap :: _ ->
        let h = lane conn h in
        if npending h > 0 then begin
          flush_fail h;
          let real = snap_ids snap in
          if snap <> "?" && real <> model_ids_of_host h then
            raise (Reject ("fail_pending", Printf.sprintf "after re-creating stream %d the table holds ids [%s] of that host, the model [%s]" h
                             (ids_str real) (ids_str (model_ids_of_host h))))
        end
    | "CLOSE" :: _ ->
        (* an asynchronous request that a later round of this pool builds was enqueued around the Close: if its call
           returned only after that round it was in the channel before the Close (XSubmit now); if the call had already
           been failed by the sender's re-check and the send loop, not yet gone, builds the entry all the same (harmless:
           the callback runs once), the model has retired the entry -- that schedule is left to the black-box monitor *)
        Hashtbl.iter (fun c (_, _, a) ->
          if a then match Hashtbl.find_opt built_at c, e_st (entry c) with
            | Some at, Fresh when at > !cur ->
                (match Hashtbl.find_opt ret_at c with
                 | Some r when r < at -> raise (Skip (Printf.sprintf "async caller %d failed by the sender's re-check and still built by the send loop" c))
                 | _ -> ensure c)
            | _ -> ()) subp;
        close_pending := true; closed_seen := true
    | "INJ" :: "sendpanic" :: _ -> capply "ids_fresh" Restart
    | "RET" :: c :: kind :: p :: _ ->
        let c = ios c in
        let g = (try Hashtbl.find gspecs c with Not_found -> { g_rc = false; g_override = O; g_group = O; g_gate = O }) in
        (* the wrapper's verdict is predicted from the model and compared with what the call returned *)
        if not (gate_admits bg_group g) && kind <> "fail:gatereq" then
          raise (Reject ("gate", Printf.sprintf "caller %d must be refused by OnRequestWait, it returned %s" c kind));
        if kind = "ok" && gate_result bg_group g (Some (Resp (nat 0))) = Some GRespErr then
          raise (Reject ("gate", Printf.sprintf "caller %d returned a response although OnResponseWait failed" c));
        if Hashtbl.mem pre_aborted c then ()
        else (match kind with
         | "ok" ->
             ensure c;
             if e_comp (entry c) = [] then raise (Reject ("own_response", Printf.sprintf "caller %d returned a response but no dispatch to its entry was observed" c));
             expect_ret c (`Ok (ios p))
         | "ctx" | "timeout" | "closed" ->
             let k = match abort_of_kind kind with Some k -> k | None -> ECtx in
             if Hashtbl.mem built_at c then ensure c;
             (match e_st (entry c), (try Some (Hashtbl.find built_at c) with Not_found -> None) with
              | Queued, Some at when at > !cur && not (e_canceled (entry c))
                                     && not (List.exists (fun r -> r > !cur && r < at) !round_idx) ->
                  (* buildWithLimit selected the request before its caller gave up (the round is logged right after);
                     if a whole other round lies in between, the build came after the abort and must skip the entry *)
                  Hashtbl.replace deferred c (at, k)
              | _ -> do_abort c k)
         | "fail:gatereq" ->
             if gate_admits bg_group g then raise (Reject ("gate", Printf.sprintf "caller %d was refused although its request gate is open" c));
             (match e_st (entry c) with Fresh -> () | _ -> raise (Reject ("gate", Printf.sprintf "caller %d was refused by OnRequestWait but its request reached the batch client" c)))
         | "fail:gateresp" ->
             ensure c;
             if gate_result bg_group g (Some (Resp (nat 0))) <> Some GRespErr then raise (Reject ("gate", Printf.sprintf "caller %d: response gate error without a failing OnResponseWait" c));
             if e_comp (entry c) = [] then raise (Reject ("gate", Printf.sprintf "caller %d: response gate error but no response had been dispatched to its entry" c));
             capply "exactly_once" (Return (nat c));
             (match e_ret (entry c) with Some (Resp _) -> () | _ -> raise (Reject ("gate", Printf.sprintf "caller %d: response gate error on a call whose inner result is not a response" c)))
         | "fail:init" ->
             ensure c;
             if e_comp (entry c) = [] then capply "exactly_once" (InitFail (nat c));
             expect_ret c `Fail
         | "fail:noconn" ->
             if e_comp (entry c) = [] then begin fetch c; apply "exactly_once" XNoConn end;
             expect_ret c `Fail
         | "fail:idle" -> ()
         | k when has_prefix "fail" k ->
             ensure c;
             if e_comp (entry c) = [] then begin
               (match e_st (entry c) with
                | Stored _ -> flush_fail (int_of_nat (e_host (entry c)))
                | Built _ -> capply "exactly_once" (InitFail (nat c)) (* the stream could not be created (real dial failure) *)
                | _ -> ())
             end;
             if e_comp (entry c) = [] then raise (Reject ("exactly_once", Printf.sprintf "caller %d returned a failure that no step of the model produces (entry state unchanged)" c));
             expect_ret c `Fail
         | _ -> () (* ok-wrongtype: reported by the black-box monitor *))
    | "CRES" :: l :: _ when String.length l > 5 ->
        List.iter (fun x -> match String.split_on_char ':' x with
          | [_; i; canc; buffered] ->
              let i = ios i in
              if canc = "1" && ios buffered > 0 && Hashtbl.mem must_empty i then
                raise (Reject ("canceled_never_delivered", Printf.sprintf "the entry of id %d was canceled before its response was read from the stream, yet the response was put on its channel" i));
              (match lookup (nat i) (alloc (st ())) with
               | Some c ->
                   let m = e_canceled (ent (st ()) c) in
                   (* an async entry's context may fire after the call completed (context.AfterFunc): its flag is not compared *)
                   if m <> (canc = "1") && not (is_async (int_of_nat c)) then
                     raise (Reject ("canceled_never_delivered", Printf.sprintf "entry of id %d (caller %d): canceled flag is %s, the model has %b" i (int_of_nat c) canc m))
               | None -> ())
          | _ -> ()) (String.split_on_char ',' (String.sub l 5 (String.length l - 5)))
    | "END" :: tabs :: sent :: _ ->
        do_close ();
        List.iter (fun h -> while npending h > 0 do flush_fail h done) (Hashtbl.fold (fun h _ a -> h :: a) pending []);
        if not !closed_seen && has_prefix "tab=" tabs then begin
          let body = after_eq tabs in
          let real = List.sort compare (List.filter_map (fun x -> match String.split_on_char ':' x with
              | [_; i; _; _] -> Some (ios i) | _ -> None) (String.split_on_char ',' body)) in
          let model = List.sort compare (List.map (fun (i, _) -> int_of_nat i) (tab (st ()))) in
          if real <> model then
            raise (Reject ("table", Printf.sprintf "at quiescence the table holds ids [%s], the model [%s]" (ids_str real) (ids_str model)));
          let sentv = if String.length sent > 5 then List.fold_left (fun a x -> a + ios x) 0 (String.split_on_char ',' (after_eq sent)) else -999 in
          if sentv <> List.length real then
            raise (Reject ("table", Printf.sprintf "at quiescence sent=%d but the table holds %d entries" sentv (List.length real)))
        end
    | _ -> () in
  ignore n_ev;
  (try
     Array.iteri (fun i e -> cur := i; run_event e) evs;
     bump "traces_accepted" 1; bump "model_steps" !steps;
     Printf.printf "ACCEPT\t%s%s\t%d\n" scid label !steps; 0
   with Skip why -> bump "traces_skipped" 1; Printf.printf "SKIP\t%s%s\t%s\n" scid label why; 0
      | Reject (oracle, reason) ->
     Printf.printf "REJECT\t%s\t%s\t%d\t%s%s\t%s\n" scid oracle !cur reason label (String.concat " " evs.(!cur)); 1)

(* the events of store k: its own wire/table events (tag suffix stripped), the calls addressed to it, global events *)
let events_of_pool (s : sc) k =
  let pool_of = Hashtbl.create 64 in
  List.iter (fun e -> match e with
    | "SUB" :: c :: rest -> Hashtbl.replace pool_of c (if List.length rest >= 6 then ios (List.nth rest 5) else 0)
    | _ -> ()) s.evs;
  List.filter_map (fun e -> match e with
    | [] -> None
    | t :: rest ->
        let (tag, p) = split_tag t in
        (match tag with
         | "NS" | "NSF" | "SB" | "SE" | "RV" | "RE" | "RD" | "ROUND" | "CRES" | "END" | "GENUNK" ->
             let g = snd (split_gen t) in
             if p = k then Some ((if g > 0 then Printf.sprintf "%s#%d" tag g else tag) :: rest) else None
         | "CLOSE" when rest <> ["client"] -> if p = k then Some (tag :: rest) else None
         | "SUB" | "RET" | "HANG" | "PANIC" ->
             (match rest with c :: _ when (try Hashtbl.find pool_of c with Not_found -> 0) = k -> Some e | _ -> None)
         | _ -> Some e)) s.evs

(* Pool generations of one store (Pool.v: a product of independent core instances, a call lives in exactly one of them).
   The events of generation g: the wire / builder / table events tagged #g, the calls that were enqueued in that
   generation (they show up in its builder dumps or Send events; a call that never got that far and returned the closed
   error belongs to the generation closed last before it returned; other calls without any trace in a pool are left to the
   black-box monitor), the CloseAddr that closed generation g, Close of the whole client. *)
let is_pool_tag = function "NS" | "NSF" | "SB" | "SE" | "RV" | "RE" | "RD" | "ROUND" | "CRES" | "END" -> true | _ -> false
let generations (evl : string list list) =
  let evs = Array.of_list evl in
  let ngen = ref 1 in
  let gen_of_caller = Hashtbl.create 64 and closed_at = Hashtbl.create 4 in
  let place g c = if c >= 0 && not (Hashtbl.mem gen_of_caller c) then Hashtbl.replace gen_of_caller c g in
  Array.iteri (fun i e -> match e with
    | [] -> ()
    | t :: rest ->
        let (tag, g) = split_gen t in
        if is_pool_tag tag then ngen := max !ngen (g + 1);
        (match tag, rest with
         | "ROUND", _ :: b :: l :: _ ->
             List.iter (fun (_, c, _, _) -> place g c) (parse_built (after_eq b));
             List.iter (fun (c, _, _) -> place g c) (parse_triples (after_eq l))
         | "SB", _ :: _ :: _ :: pairs :: _ -> List.iter (fun (_, c) -> place g c) (parse_pairs pairs)
         | "CLOSE", "addr" :: x :: _ -> ngen := max !ngen (ios x + 1); if not (Hashtbl.mem closed_at (ios x)) then Hashtbl.replace closed_at (ios x) i
         | "CLOSE", "client" :: _ -> for x = 0 to !ngen - 1 do if not (Hashtbl.mem closed_at x) then Hashtbl.replace closed_at x i done
         | _ -> ())) evs;
  (* calls without a trace in any pool *)
  Array.iteri (fun i e -> match e with
    | "RET" :: c :: "closed" :: _ when not (Hashtbl.mem gen_of_caller (ios c)) ->
        let best = Hashtbl.fold (fun g at b -> if at < i && (match b with Some (_, a) -> at > a | None -> true) then Some (g, at) else b) closed_at None in
        (match best with Some (g, _) -> Hashtbl.replace gen_of_caller (ios c) g | None -> ())
    | _ -> ()) evs;
  let unplaced = ref 0 in
  let sub_seen = Hashtbl.create 64 in
  Array.iter (fun e -> match e with
    | "SUB" :: c :: _ -> if not (Hashtbl.mem gen_of_caller (ios c)) && not (Hashtbl.mem sub_seen c) then (Hashtbl.replace sub_seen c true; incr unplaced)
    | _ -> ()) evs;
  bump "calls_without_pool_trace" !unplaced;
  List.init !ngen (fun g ->
    List.filter_map (fun e -> match e with
      | [] -> None
      | t :: rest ->
          let (tag, eg) = split_gen t in
          if is_pool_tag tag then (if eg = g then Some (tag :: rest) else None)
          else (match tag, rest with
            | ("SUB" | "RET" | "HANG" | "PANIC"), c :: _ -> if Hashtbl.find_opt gen_of_caller (ios c) = Some g then Some e else None
            | "CLOSE", "addr" :: x :: _ -> if ios x = g then Some ["CLOSE"; "addr"] else None
            | _ -> Some e)) evl)

(* ---------------------------------------------------------------- differential on the real async.RunLoop *)
let ints s = List.filter_map (fun x -> if x = "" then None else Some (ios x)) (String.split_on_char ',' s)
let check_runloop mode init spawn extra observed =
  bump "runloop_scripts" 1;
  let obs = ints observed in
  let sp = Hashtbl.create 16 in
  List.iter (fun e -> match String.split_on_char ':' e with
    | [t; cs] -> Hashtbl.replace sp (ios t) (ints cs) | _ -> ()) (String.split_on_char '|' spawn);
  let spawn_f t = List.map nat (try Hashtbl.find sp (int_of_nat t) with Not_found -> []) in
  let i0 = List.map nat (ints init) in
  let st = rl_exec (nat 400) spawn_f { r_runnable = i0; r_running = []; r_done = []; r_log = i0 } in
  let model = List.map int_of_nat (r_done st) in
  let show l = String.concat "," (List.map string_of_int l) in
  let fail why = Printf.printf "ORACLE\trl\trunloop\t%s: script init=[%s] spawn=[%s] extra=%s mode=%s; executed [%s], the model [%s]\n" why init spawn extra mode (show obs) (show model) in
  if mode = "seq" then begin
    if obs <> model then fail "async.RunLoop executed the callbacks differently from the model (each exactly once, in append order)"
  end else begin
    let all = List.sort compare (model @ List.init (ios extra) (fun j -> 1000 + j)) in
    if List.sort compare obs <> all then fail "a callback was lost or ran twice"
    else if List.filter (fun t -> t < 1000) obs <> model && false then ()
  end

let () =
  let scs = ref [] and cur = ref None in
  read_lines (fun line ->
    match split_tab line with
    | "RL" :: mode :: init :: spawn :: extra :: observed :: _ -> check_runloop mode init spawn extra observed
    | "RL" :: mode :: init :: spawn :: extra :: [] -> check_runloop mode init spawn extra ""
    | "SC" :: id :: spec :: _ ->
        let s = { id; spec; evs = [] } in scs := s :: !scs; cur := Some s
    | f -> (match !cur with Some s -> s.evs <- f :: s.evs | None -> ()));
  let scs = List.rev !scs in
  let sigs = Hashtbl.create 64 in
  List.iter (fun s ->
    s.evs <- List.rev s.evs;
    let cls = class_of s.spec in
    bump "scenarios" 1; bump ("class:" ^ cls) 1; bump "events" (List.length s.evs);
    let bf = blackbox s in
    Printf.printf "BLACKBOX\t%s\t%d\n" s.id bf;
    let newpool = List.exists (fun e -> match e with "INJ" :: "idle" :: _ | "GENUNK" :: _ -> true
                                                 | t :: "addr" :: x :: _ when fst (split_tag t) = "CLOSE" -> ios x < 0
                                                 | t :: _ when fst (split_tag t) = "GENUNK" -> true | _ -> false) s.evs in
    let closeaddr = List.exists (fun e -> match e with t :: "addr" :: _ when fst (split_tag t) = "CLOSE" -> true | _ -> false) s.evs in
    (* the acceptor replays one pool per store and generation, with one lane per (connection, forwarded host); a pool re-created by
       idle recycling, the non-batch path, the collapse wrapper and the async-calls-racing-with-Close class (an entry failed by the sender's re-check may still be
       sent by a send loop that has not exited yet) are black-box only *)
    if not newpool && not (nobatch_of s.spec) && cls <> "asyncclose" && cls <> "collapse" && cls <> "idle" then begin
      let np = pools_of s.spec in
      for k = 0 to np - 1 do
        let lbl = if np > 1 then Printf.sprintf "@%d" k else "" in
        let evk = if np > 1 then events_of_pool s k else s.evs in
        let run lbl evs = ignore (whitebox s.id lbl (spec_int "limit" s.spec 0) (max 1 (spec_int "nhosts" s.spec 1)) evs) in
        if closeaddr then begin
          (* one core instance per generation of the pool *)
          bump "scenarios_with_pool_generations" 1;
          List.iteri (fun g evs -> bump "pool_generations_replayed" 1; run (Printf.sprintf "%s#%d" lbl g) evs) (generations evk)
        end else run lbl evk
      done
    end else bump "blackbox_only" 1;
    let kinds = String.concat "" (List.map (fun e -> match e with
        | "RET" :: _ :: k :: _ -> "r" ^ String.sub k 0 1 | k :: _ -> String.sub k 0 (min 2 (String.length k)) | [] -> "") s.evs) in
    let ncall = List.length (List.filter (fun e -> match e with "SUB" :: _ -> true | _ -> false) s.evs) in
    if ncall >= 2 then Hashtbl.replace sigs (Digest.string kinds) true) scs;
  Printf.printf "STATS";
  Hashtbl.iter (fun k v -> Printf.printf "\t%s=%d" k v) counts;
  Printf.printf "\tdistinct=%d\n" (Hashtbl.length sigs)
