(* modelrun for C01: evaluates the extracted Coq history checker [obs_ok] on the observations of one history.
   stdin, one line per history:   <id> <hist> <obs> <scans>  ("~" = empty)
     hist = k=c.s.v,c.s.v;k=...   keys ascending; c s hex; v hex value id or "-" (delete)
     obs  = t.k.own.val,...       own: n (nothing buffered) | d (buffered delete) | v<hex id>; val: "-" (not found) | hex id
     scans = t/k.k.k/k:own,k:own/k:v,k:v;...   range keys ascending / buffered writes (own: d | v<hex>) / returned pairs
   stdout: <id> <one 0/1 per observation | ~> <one 0/1 per scan | ~> *)
let split c s = if s = "~" || s = "" then [] else String.split_on_char c s
let optv s = if s = "-" then None else Some (n_of_hex s)
let parse_rec s = match String.split_on_char '.' s with
  | [c; st; v] -> ((n_of_hex c, n_of_hex st), optv v)
  | _ -> failwith ("bad record " ^ s)
let parse_key s = match String.index_opt s '=' with
  | Some i -> (n_of_hex (String.sub s 0 i), List.map parse_rec (split ',' (String.sub s (i + 1) (String.length s - i - 1))))
  | None -> failwith ("bad key entry " ^ s)
let parse_obs s = match String.split_on_char '.' s with
  | [t; k; own; v] ->
    let o = if own = "n" then None else if own = "d" then Some None else Some (Some (n_of_hex (String.sub own 1 (String.length own - 1)))) in
    { ro_ts = n_of_hex t; ro_key = n_of_hex k; ro_own = o; ro_val = optv v }
  | _ -> failwith ("bad obs " ^ s)
let ownv s = if s = "d" then None else Some (n_of_hex (String.sub s 1 (String.length s - 1)))
let kv f s = match String.index_opt s ':' with
  | Some i -> (n_of_hex (String.sub s 0 i), f (String.sub s (i + 1) (String.length s - i - 1)))
  | None -> failwith ("bad pair " ^ s)
let parse_scan s = match String.split_on_char '/' s with
  | [t; ks; own; res] ->
    { so_ts = n_of_hex t; so_keys = List.map n_of_hex (split '.' ks);
      so_own = List.map (kv ownv) (split ',' own); so_res = List.map (kv n_of_hex) (split ',' res) }
  | _ -> failwith ("bad scan " ^ s)
(* status-cache sequences:  S <id> <txn>:<ttl>:<commit>:<action>,...   (decimal)
   answer:                  S <id> <ttl>.<commit>.<action>.<rpc>.<cacheable>.<committed>.<rolledback>,... *)
let action_of_int = function 0 -> ANoAction | 1 -> ATTLExpireRollback | 2 -> ALockNotExistRollback | 3 -> AMinCommitTSPushed
  | 4 -> ATTLExpirePessimisticRollback | 5 -> ALockNotExistDoNothing | _ -> failwith "action"
let int_of_action = function ANoAction -> 0 | ATTLExpireRollback -> 1 | ALockNotExistRollback -> 2 | AMinCommitTSPushed -> 3
  | ATTLExpirePessimisticRollback -> 4 | ALockNotExistDoNothing -> 5
let bi b = if b then 1 else 0
let status_seq id calls =
  let cache = ref [] in
  let one call = match String.split_on_char ':' call with
    | [txn; ttl; c; a] ->
      let ans = ((n_of_int (int_of_string ttl), n_of_int (int_of_string c)), action_of_int (int_of_string a)) in
      let ((v, cache'), sent) = get_txn_status !cache (n_of_int (int_of_string txn)) ans in
      cache := cache';
      let ((vt, vc), va) = v in
      Printf.sprintf "%d.%d.%d.%d.%d.%d.%d" (int_of_n vt) (int_of_n vc) (int_of_action va) (bi sent) (bi (cacheable v))
        (bi (cs_committed v)) (bi (cs_rolledback v))
    | _ -> failwith ("bad call " ^ call) in
  print_endline ("S " ^ id ^ " " ^ String.concat "," (List.map one (String.split_on_char ',' calls)))
(* getTxnStatusFromLock sequences:  L <id> <txn>;<pess>;<ttl>;<answer>/...,...   answer = ttl:commit:action | nf ; "-" = empty script
   answer:  L <id> <ttl.commit.action | err>|<rine.curmax.pess>/...,... *)
let age_ms = 10000
let lock_seq id calls =
  let cache = ref [] in
  let one call = match String.split_on_char ';' call with
    | [txn; pess; ttl; sc] ->
      let script = if sc = "-" then [] else List.map (fun a ->
        if a = "nf" then AnsNotFound else match String.split_on_char ':' a with
          | [t; c; ac] -> AnsStatus ((n_of_int (int_of_string t), n_of_int (int_of_string c)), action_of_int (int_of_string ac))
          | _ -> failwith ("bad answer " ^ a)) (String.split_on_char '/' sc) in
      let li = { li_txn = n_of_int (int_of_string txn); li_ttl = n_of_int (int_of_string ttl); li_age = n_of_int age_ms; li_pess = (pess = "1") } in
      let (((r, cache'), rqs), _) = status_from_lock !cache li script in
      cache := cache';
      let rs = match r with
        | SrStatus ((vt, vc), va) -> Printf.sprintf "%d.%d.%d" (int_of_n vt) (int_of_n vc) (int_of_action va)
        | SrScriptEnd -> "err" in
      rs ^ "|" ^ String.concat "/" (List.map (fun q -> Printf.sprintf "%d.%d.%d" (bi q.rq_rine) (bi q.rq_cur_max) (bi q.rq_pess)) rqs)
    | _ -> failwith ("bad call " ^ call) in
  print_endline ("L " ^ id ^ " " ^ String.concat "," (List.map one (String.split_on_char ',' calls)))
let () =
  try
    while true do
      let line = input_line stdin in
      match String.split_on_char ' ' (String.trim line) with
      | ["S"; id; calls] -> status_seq id calls
      | ["L"; id; calls] -> lock_seq id calls
      | [id; h; o; sc] ->
        let hist = List.map parse_key (split ';' h) in
        let obs = List.map parse_obs (split ',' o) in
        let bits = String.concat "" (List.map (fun x -> if obs_ok hist x then "1" else "0") obs) in
        let all = si_ok hist obs in
        if all <> not (String.contains bits '0') then failwith "si_ok <> forall obs_ok";
        let sbits = String.concat "" (List.map (fun x -> if scan_ok hist x then "1" else "0") (List.map parse_scan (split ';' sc))) in
        print_endline (id ^ " " ^ (if bits = "" then "~" else bits) ^ " " ^ (if sbits = "" then "~" else sbits))
      | _ -> if String.trim line <> "" then failwith ("bad line " ^ line)
    done
  with End_of_file -> ()
