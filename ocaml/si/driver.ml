(* modelrun for C01: evaluates the extracted Coq history checker [obs_ok] on the observations of one history.
   stdin, one line per history:   <id> <hist> <obs> <scans>  ("~" = empty)
     hist = k=c.s.v,c.s.v;k=...   keys ascending; c s hex; v hex value id or "-" (delete)
     obs  = t.k.own.val,...       own: n (nothing buffered) | d (buffered delete) | v<hex id>; val: "-" (not found) | hex id
     scans = t/k.k.k/k:own,k:own/k:v,k:v;...   range keys ascending / buffered writes (own: d | v<hex>) / returned pairs
   stdout: <id> <one 0/1 per observation | ~> <one 0/1 per scan | ~> *)
let split c s = if s = "~" || s = "" then [] else String.split_on_char c s
let optv s = if s = "-" then None else Some (n_of_hex s)
let parse_rec s = match String.split_on_char '.' s with
  | [c; st; v] -> ((n_of_hex c, n_of_hex st), optv v)
  | _ -> failwith ("bad record " ^ s)
let parse_key s = match String.index_opt s '=' with
  | Some i -> (n_of_hex (String.sub s 0 i), List.map parse_rec (split ',' (String.sub s (i + 1) (String.length s - i - 1))))
  | None -> failwith ("bad key entry " ^ s)
let parse_obs s = match String.split_on_char '.' s with
  | [t; k; own; v] ->
    let o = if own = "n" then None else if own = "d" then Some None else Some (Some (n_of_hex (String.sub own 1 (String.length own - 1)))) in
    { ro_ts = n_of_hex t; ro_key = n_of_hex k; ro_own = o; ro_val = optv v }
  | _ -> failwith ("bad obs " ^ s)
let ownv s = if s = "d" then None else Some (n_of_hex (String.sub s 1 (String.length s - 1)))
let kv f s = match String.index_opt s ':' with
  | Some i -> (n_of_hex (String.sub s 0 i), f (String.sub s (i + 1) (String.length s - i - 1)))
  | None -> failwith ("bad pair " ^ s)
let parse_scan s = match String.split_on_char '/' s with
  | [t; ks; own; res] ->
    { so_ts = n_of_hex t; so_keys = List.map n_of_hex (split '.' ks);
      so_own = List.map (kv ownv) (split ',' own); so_res = List.map (kv n_of_hex) (split ',' res) }
  | _ -> failwith ("bad scan " ^ s)
let () =
  try
    while true do
      let line = input_line stdin in
      match String.split_on_char ' ' (String.trim line) with
      | [id; h; o; sc] ->
        let hist = List.map parse_key (split ';' h) in
        let obs = List.map parse_obs (split ',' o) in
        let bits = String.concat "" (List.map (fun x -> if obs_ok hist x then "1" else "0") obs) in
        let all = si_ok hist obs in
        if all <> not (String.contains bits '0') then failwith "si_ok <> forall obs_ok";
        let sbits = String.concat "" (List.map (fun x -> if scan_ok hist x then "1" else "0") (List.map parse_scan (split ';' sc))) in
        print_endline (id ^ " " ^ (if bits = "" then "~" else bits) ^ " " ^ (if sbits = "" then "~" else sbits))
      | _ -> if String.trim line <> "" then failwith ("bad line " ^ line)
    done
  with End_of_file -> ()
