(* driver for the RangeTask model (C14): one query per stdin line, one answer per stdout line.
   Numbers are hex; keys are hex byte strings ("-" = empty).
   store  = rec;rec;...        rec = key|lock|writes
   lock   = - | start,primary,kind,val       kind = put | del | pess
   writes = - | start,commit,val/...         val  = D (delete) | V<hex> *)
let split_on c s = if s = "" then [] else String.split_on_char c s
let key_of s = bytes_of_hex s
let hex_of_key k = hex_of_bytes k

let parse_lock s =
  if s = "-" then None else
  match String.split_on_char ',' s with
  | st :: p :: k :: v :: ext ->
    let kind = (match k with "put" -> LPut | "del" -> LDel | "pess" -> LPess | _ -> failwith ("kind " ^ k)) in
    let (a, mc, secs) = (match ext with
      | [a; mc; secs] -> (a = "1", n_of_hex mc, if secs = "." then [] else List.map key_of (String.split_on_char '+' secs))
      | _ -> (false, N0, [])) in
    Some { l_start = n_of_hex st; l_primary = key_of p; l_kind = kind; l_val = key_of v; l_async = a; l_min_commit = mc; l_secs = secs }
  | _ -> failwith ("lock " ^ s)
let parse_val v = if v = "D" then None else Some (bytes_of_hex (let r = String.sub v 1 (String.length v - 1) in if r = "" then "-" else r))
let parse_writes s =
  if s = "-" then [] else
  List.map (fun w -> match String.split_on_char ',' w with
    | [st; c; v] -> { w_start = n_of_hex st; w_commit = n_of_hex c; w_val = parse_val v }
    | _ -> failwith ("write " ^ w)) (String.split_on_char '/' s)
let parse_rec s = match String.split_on_char '|' s with
  | [k; l; w] -> { k_key = key_of k; k_lock = parse_lock l; k_writes = parse_writes w }
  | _ -> failwith ("rec " ^ s)
let parse_store s = if s = "." then [] else List.map parse_rec (split_on ';' s)

let show_val v = match v with None -> "D" | Some b -> "V" ^ (if b = [] then "" else hex_of_bytes b)
let show_lock l = match l with None -> "-" | Some l ->
  String.concat "," [hex_of_n l.l_start; hex_of_key l.l_primary;
    (match l.l_kind with LPut -> "put" | LDel -> "del" | LPess -> "pess"); hex_of_key l.l_val;
    (if l.l_async then "1" else "0"); hex_of_n l.l_min_commit;
    (if l.l_secs = [] then "." else String.concat "+" (List.map hex_of_key l.l_secs))]
let show_writes ws = if ws = [] then "-" else
  String.concat "/" (List.map (fun w -> String.concat "," [hex_of_n w.w_start; hex_of_n w.w_commit; show_val w.w_val]) ws)
let show_rec r = String.concat "|" [hex_of_key r.k_key; show_lock r.k_lock; show_writes r.k_writes]
let show_store st = if st = [] then "." else String.concat ";" (List.map show_rec st)

let parse_layout s = if s = "." then [] else List.map key_of (String.split_on_char ',' s)
let parse_layouts s = List.map parse_layout (String.split_on_char '|' s)
let show_ranges l = if l = [] then "." else String.concat "," (List.map (fun (a, b) -> hex_of_key a ^ ":" ^ hex_of_key b) l)

let parse_oracle s = match String.split_on_char ':' s with
  | [rs; re; "N"] -> { o_loc = (key_of rs, key_of re); o_env1 = []; o_env2 = []; o_res = None }
  | [rs; re; a; b] -> { o_loc = (key_of rs, key_of re); o_env1 = []; o_env2 = []; o_res = Some (key_of a, key_of b) }
  | _ -> failwith ("oracle " ^ s)
let show_trace tr = if tr = [] then "." else String.concat ";" (List.map (fun ((k, e), ks) ->
  hex_of_key k ^ ":" ^ hex_of_key e ^ ":" ^ (if ks = [] then "." else String.concat "," (List.map hex_of_key ks))) tr)

let nat s = nat_of_int (int_of_string s)

let answer line =
  match split_tab line with
  | ["part"; id; fuel; rpt; s; e; lays] ->
    let be = batch_end_of (parse_layouts lays) (nat rpt) in
    id ^ "\t" ^ (match run_on_range be (nat fuel) (key_of s) (key_of e) with
                 | Some l -> "ok\t" ^ show_ranges l | None -> "none")
  | ["gc"; id; fuel; sp; limit; st; subs] | ["gcv"; _; id; fuel; sp; limit; st; subs] ->
    (* gcv <T|U|I>: the ScanLock answer view (typed / untyped / identity); plain gc = typed *)
    let view = (match split_tab line with "gcv" :: "U" :: _ -> untyped_view | "gcv" :: "I" :: _ -> (fun r -> r) | _ -> typed_view) in
    (* subs = sub-ranges handled one after the other: s~e~oracle;oracle;... separated by spaces *)
    let rec go st subs acc = match subs with
      | [] -> "ok\t" ^ String.concat " # " (List.rev acc) ^ "\t" ^ show_store st
      | sub :: rest ->
        (match String.split_on_char '~' sub with
         | [s; e; os] ->
           let os = List.map parse_oracle (split_on ';' os) in
           (match gc_resolve_range_v view (nat fuel) (n_of_hex sp) (nat limit) (key_of s) (key_of e) os st with
            | GcOk (st', tr) -> go st' rest (show_trace tr :: acc)
            | GcOutOfFuel -> "fuel" | GcBadOracle -> "bad\t" ^ String.concat " # " (List.rev acc))
         | _ -> failwith ("sub " ^ sub)) in
    id ^ "\t" ^ go (parse_store st) (split_on ' ' subs) []
  | ["gcl"; id; fuel; sp; limit; st; subs] ->
    (* regions predicted from layouts: subs = s~e~iter;iter;...   iter = scanlayout/reslayout/reslayout...   layout = k,k,... | . *)
    let parse_iter it = (match String.split_on_char '/' it with
      | sc :: rs -> { y_scan = parse_layout sc; y_res = List.map parse_layout rs }
      | [] -> failwith "iter") in
    let show_or o = hex_of_key (fst o.o_loc) ^ ":" ^ hex_of_key (snd o.o_loc) ^ ":" ^
      (match o.o_res with None -> "N" | Some (a, b) -> hex_of_key a ^ ":" ^ hex_of_key b) in
    let rec go st subs acc accO = match subs with
      | [] -> "ok\t" ^ String.concat " # " (List.rev acc) ^ "\t" ^ show_store st ^ "\t" ^ String.concat " # " (List.rev accO)
      | sub :: rest ->
        (match String.split_on_char '~' sub with
         | [s; e; its] ->
           let ys = List.map parse_iter (split_on ';' its) in
           (match gc_resolve_range_l (nat fuel) (n_of_hex sp) (nat limit) (key_of s) (key_of e) ys st with
            | (GcOk (st', tr), os) -> go st' rest (show_trace tr :: acc) (String.concat ";" (List.map show_or os) :: accO)
            | (GcOutOfFuel, _) -> "fuel" | (GcBadOracle, os) -> "bad\t" ^ String.concat ";" (List.map show_or os))
         | _ -> failwith ("sub " ^ sub)) in
    id ^ "\t" ^ go (parse_store st) (split_on ' ' subs) [] []
  | ["final"; id; sp; st] -> id ^ "\t" ^ show_store (resolve_all (parse_store st) (n_of_hex sp))
  | ["reads"; id; st; tss] ->
    let st = parse_store st in
    let tss = List.map n_of_hex (String.split_on_char ',' tss) in
    id ^ "\t" ^ String.concat "," (List.concat_map (fun r -> List.map (fun ts ->
      hex_of_key r.k_key ^ "@" ^ hex_of_n ts ^ "=" ^
      (match read_at st r.k_key ts with RBlocked s -> "blocked:" ^ hex_of_n s | RValue None -> "N" | RValue (Some v) -> "V" ^ (if v = [] then "" else hex_of_bytes v))) tss) st)
  | ["del"; id; fuel; rpt; notify; s; e; lays; st] ->
    let lays = parse_layouts lays in
    id ^ "\t" ^ (match delete_range_task (batch_end_of lays (nat rpt)) (batch_end_of lays (nat "1")) (nat fuel) (notify = "1") (key_of s) (key_of e) (parse_store st) with
                 | Some (st', pieces) -> "ok\t" ^ show_store st' ^ "\t" ^ show_ranges pieces
                 | None -> "none")
  | ["vis"; id; stale; cached; ts] ->
    id ^ "\t" ^ (match check_visibility (stale = "1") (n_of_hex cached) (n_of_hex ts) with
                 | VisOk -> "ok" | VisAbortedByGC -> "gc" | VisPDTimeout -> "pdtimeout")
  | ["visrun"; id; cached; ts; evs] ->
    (* events: U<hex sp> | S | C separated by ',' *)
    let ev e = if e = "S" then VSend else if e = "C" then VCheck else VUpdate (n_of_hex (String.sub e 1 (String.length e - 1))) in
    let (r, n) = run_read (n_of_hex cached) (n_of_hex ts) (List.map ev (split_on ',' evs)) in
    id ^ "\t" ^ (match r with VisOk -> "ok" | VisAbortedByGC -> "gc" | VisPDTimeout -> "pdtimeout") ^ "\t" ^ string_of_int (int_of_nat n)
  | ["addkeys"; id; mc0; answers] ->
    (* answers: L<mc>+<mc>...[!] | M<commit> separated by ';' in delivery order; '!' = the answer holds a lock that is not async-commit *)
    let parse a =
      if a.[0] = 'M' then (RMissing (n_of_hex (String.sub a 1 (String.length a - 1))), false)
      else begin
        let na = String.length a > 1 && a.[String.length a - 1] = '!' in
        let body = String.sub a 1 (String.length a - 1 - (if na then 1 else 0)) in
        (RLocked (List.map n_of_hex (List.filter (fun x -> x <> "") (String.split_on_char '+' body))), na) end in
    id ^ "\t" ^ (match check_all_secondaries_f (n_of_hex mc0) (List.map parse (split_on ';' answers)) with
                 | CasDecided c -> "ok\t" ^ hex_of_n c | CasFallback -> "fallback" | CasError -> "error")
  | ["gcsp"; id; expected; granted] -> id ^ "\t" ^ hex_of_n (gc_safe_point (n_of_hex expected) (n_of_hex granted))
  | ["outcomes"; id; st] ->
    (* for every lock: key@start=outcome of its transaction (committed_at at its primary; N = rolled back) *)
    let st = parse_store st in
    id ^ "\t" ^ String.concat "," (List.concat_map (fun r -> match r.k_lock with
      | Some l -> [hex_of_key r.k_key ^ "@" ^ hex_of_n l.l_start ^ "=" ^ (match committed_at st l.l_primary l.l_start with Some c -> hex_of_n c | None -> "N")]
      | None -> []) st)
  | ["markers"; id; sp; st] ->
    id ^ "\t" ^ String.concat "," (List.map (fun (k, t) -> hex_of_key k ^ "@" ^ hex_of_n t) (markers (parse_store st) (n_of_hex sp)))
  | ["pok"; id; st] -> id ^ "\t" ^ (if primaries_okb (parse_store st) then "1" else "0")
  | ["wf"; id; sp; st] -> id ^ "\t" ^ (if wf_storeb (parse_store st) then "1" else "0")
  | id :: _ -> id ^ "\tunknown-op"
  | [] -> "?"

let () = read_lines (fun line ->
  if line <> "" then
    print_endline (try answer line with e -> (match split_tab line with _ :: id :: _ -> id | _ -> "?") ^ "\tmodel-exception " ^ Printexc.to_string e))
