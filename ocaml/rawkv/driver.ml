(* driver for the RawKV model: replays the Go driver's OP lines on the extracted model
   (one model store per sequence and column family), prints MISMATCH lines and statistics. *)
let bx (s : string) : n list =
  (* hex, "-" = empty, "*<n>x<hh>" = n copies of byte hh *)
  if String.length s > 0 && s.[0] = '*' then
    Scanf.sscanf s "*%dx%2x" (fun cnt b -> List.init cnt (fun _ -> byte_tab.(b)))
  else bytes_of_hex s
let rle (l : n list) : string option =
  match l with
  | [] -> None
  | b :: _ -> let len = List.length l in
      if len >= 32 && List.for_all (fun x -> x = b) l then Some (Printf.sprintf "*%dx%02x" len (int_of_n b)) else None
let hx (l : n list) : string = match rle l with Some r -> r | None -> hex_of_bytes l
let hexraw (l : n list) : string = if l = [] then "" else hx l
let optv (o : n list option) : string = match o with None -> "N" | Some v -> "V" ^ hexraw v
let hxs (l : n list list) : string = if l = [] then "." else String.concat "," (List.map hx l)
let split_on c s = if s = "." || s = "none" || s = "" then [] else String.split_on_char c s
let keys_of s = List.map bx (split_on ',' s)
(* "L=a,b;c;FAIL": layouts seen by the served RPCs, FAIL = an injected failing request *)
let layouts_of s : n list list option list =
  let s = String.sub s 2 (String.length s - 2) in
  if s = "none" then [] else List.map (fun l -> if l = "FAIL" then None else Some (keys_of l)) (String.split_on_char ';' s)
let rec firstn k l = if k <= 0 then [] else match l with [] -> [] | x :: r -> x :: firstn (k-1) r
let rec somes l = match l with [] -> [] | Some x :: r -> x :: somes r | None :: r -> somes r

(* crc64-ECMA as hash/crc64 computes it (reflected, poly 0xC96C5795D7870F42) *)
let crc_tab : int64 array =
  Array.init 256 (fun i ->
    let c = ref (Int64.of_int i) in
    for _ = 0 to 7 do
      if Int64.logand !c 1L = 1L then c := Int64.logxor (Int64.shift_right_logical !c 1) 0xC96C5795D7870F42L
      else c := Int64.shift_right_logical !c 1
    done; !c)
let crc64 (bs : int list) : int64 =
  let c = ref (Int64.lognot 0L) in
  List.iter (fun b ->
    let idx = Int64.to_int (Int64.logand (Int64.logxor !c (Int64.of_int b)) 0xFFL) in
    c := Int64.logxor crc_tab.(idx) (Int64.shift_right_logical !c 8)) bs;
  Int64.lognot !c
let prefix : int list ref = ref []   (* API v2: the keyspace prefix is part of the stored key *)
let digest (k : n list) (v : n list) : n =
  let bs = !prefix @ List.map int_of_n (k @ v) in
  n_of_hex (Printf.sprintf "%Lx" (crc64 bs))

(* the loop must finish on exactly the layouts of the served RPCs: it finishes on all n of them
   and does not finish on the first n-1 (a loop that is done ignores further layouts) *)
let run_loop (ls : n list list list) (f : n list list list -> 'a option) : ('a, string) result =
  let n = List.length ls in
  match f ls with
  | None -> Error "model-needs-more-iterations"
  | Some r ->
      if n > 0 && f (firstn (n - 1) ls) <> None then Error (Printf.sprintf "model-finishes-before-%d-served-rpcs" n)
      else Ok r

let kvres (ps : (n list * n list) list) : string =
  "ok " ^ hxs (List.map fst ps) ^ " " ^
  (if ps = [] then "." else String.concat "," (List.map (fun p -> "V" ^ hexraw (snd p)) ps))

let contains (s : string) (sub : string) : bool =
  let n = String.length s and m = String.length sub in
  let rec go i = i + m <= n && (String.sub s i m = sub || go (i + 1)) in go 0

(* key lists of the sub-batches the model sends under one layout, as a sorted list of strings *)
let model_batches ch l0 keys : string list =
  List.sort compare (List.map (fun b -> hxs (snd b)) (sub_batches ch l0 keys))

let () =
  let stores : (string, (n list * entry) list) Hashtbl.t = Hashtbl.create 8 in
  let get_st cf = try Hashtbl.find stores cf with Not_found -> [] in
  let nonatomic = ref false in
  let nops = ref 0 and mism = ref 0 in
  let counts = Hashtbl.create 64 in
  let bump k = Hashtbl.replace counts k (1 + (try Hashtbl.find counts k with Not_found -> 0)) in
  read_lines (fun line ->
    match split_tab line with
    | "SEQ" :: _ :: js :: _ ->
        Hashtbl.reset stores; nonatomic := contains js "\"nonatomic\":true";
        prefix := [];
        if contains js "\"api\":\"v2\"" then begin
          let re = Str.regexp "\"ksid\":\\([0-9]+\\)" in
          let id = (try ignore (Str.search_forward re js 0); int_of_string (Str.matched_group 1 js) with Not_found -> 0) in
          prefix := [Char.code 'r'; (id lsr 16) land 255; (id lsr 8) land 255; id land 255]
        end
    | "OP" :: id :: idx :: name :: rest ->
        let rec split acc l = match l with
          | x :: r when String.length x >= 2 && String.sub x 0 2 = "C=" -> (List.rev acc, x, r)
          | x :: r -> split (x :: acc) r
          | [] -> (List.rev acc, "C=CF_DEFAULT", []) in
        let (args, cff, tail) = split [] rest in
        let cf = String.sub cff 2 (String.length cff - 2) in
        (* A=<0|1>: the client's atomic-mode field when the call was made *)
        let tail = (match tail with a :: r when String.length a >= 2 && String.sub a 0 2 = "A=" -> nonatomic := (a = "A=0"); r | _ -> tail) in
        let lf = List.nth tail 0 and bf = List.nth tail 1 and nf = List.nth tail 2 in
        let wf = (match List.nth_opt tail 3 with Some w when String.length w >= 2 && String.sub w 0 2 = "W=" -> String.sub w 2 (String.length w - 2) | _ -> "none") in
        let wire = if wf = "none" then [] else String.split_on_char ';' wf in
        (* request streams as the gate saw them: RawScan "limit:start:end" (reverse: start = upper bound), RawChecksum "start:end" *)
        let wire_scans = List.filter_map (fun w -> match String.split_on_char ':' w with
          | ["scan"; _; rev; lim; lo; hi] -> Some (if rev = "1" then lim ^ ":" ^ lo ^ ":" ^ hi else lim ^ ":" ^ lo ^ ":" ^ hi) | _ -> None) wire in
        let wire_cksums = List.filter_map (fun w -> match String.split_on_char ':' w with
          | ["cksum"; lo; hi] -> Some (lo ^ ":" ^ hi) | _ -> None) wire in
        let stream_cmp (want : string list) (got : string list) (ok : string) =
          if want = got then ok else "model-stream " ^ String.concat ";" want in
        let hx_tr (l : n list) : string = hx l in ignore hx_tr;
        let impl = List.nth tail (List.length tail - 1) in
        let lso = layouts_of lf in
        let ls = somes lso in
        let failed = List.exists (fun x -> x = None) lso in
        let l0 = match ls with l :: _ -> l | [] -> [] in
        let bats = let s = String.sub bf 2 (String.length bf - 2) in if s = "none" then [] else String.split_on_char ';' s in
        let (rerrs, warm) = (match String.split_on_char ',' (String.sub nf 2 (String.length nf - 2)) with
          | [_; e; x; _] | [_; e; x] -> (int_of_string e, x = "1") | [_; e] -> (int_of_string e, false) | _ -> (0, false)) in
        let st = get_st cf in
        let set s = Hashtbl.replace stores cf s in
        let arg i = List.nth args i in
        let exact = (warm && rerrs = 0 && not failed) in
        let cmp_batches ch keys ok =
          if not exact then ok else
          let got = List.sort compare (List.map (fun b -> hxs (List.map (fun it -> bx (List.hd (String.split_on_char ':' it))) (split_on ',' b))) bats) in
          let want = model_batches ch l0 keys in
          if got = want then ok else "model-batches " ^ String.concat ";" want in
        let single_failed = failed && List.mem name ["put"; "get"; "del"; "cas"; "scan"; "rscan"; "cksum"] in
        let m = (try
          match name with
          | _ when single_failed ->
              (* the request of a single-request call (or one request of a range read) was answered by an error or without a body:
                 the call returns the error and changes nothing *)
              if name = "cas" && !nonatomic then "err atomic" else "err injected"
          | "put" -> set (srv_put st (bx (arg 0)) (bx (arg 1)) (n_of_int (int_of_string (arg 2)))); "ok"
          | "get" -> "ok " ^ optv (srv_get st (bx (arg 0)))
          | "ttl" -> "err unsupported"   (* mocktikv has no CmdGetKeyTTL *)
          | "del" -> set (st_del st (bx (arg 0))); "ok"
          | "bput" ->
              let ks = keys_of (arg 0) and vs = keys_of (arg 1) in
              let nt = if arg 2 = "." then 0 else List.length (String.split_on_char ',' (arg 2)) in
              if not (batch_put_args_ok (nat_of_int (List.length ks)) (nat_of_int (List.length vs)) (nat_of_int nt)) then "err args" else
              let ts = if arg 2 = "." then List.map (fun _ -> 0) ks else List.map int_of_string (String.split_on_char ',' (arg 2)) in
              let kvs = List.map2 (fun (k, v) t -> (k, { e_val = v; e_ttl = n_of_int t })) (List.combine ks vs) ts in
              if failed then begin
                (* the call returned an error: the store holds exactly the batches that were served *)
                let pairs b = List.map (fun it -> match String.split_on_char ':' it with
                  | [k; v; t] -> (bx k, { e_val = bx v; e_ttl = n_of_int (int_of_string t) }) | _ -> failwith "bput batch") (split_on ',' b) in
                set (List.fold_left (fun s b -> srv_batch_put s (pairs b)) st bats); "err injected"
              end else
              (match batch_put st [(l0, all_served)] kvs with
               | Some (s, true) -> set s;
                   (* the requests of a warm call: the literal three-slice chunker over every region group *)
                   if not exact then "ok" else
                   let want = List.sort compare (List.concat_map (fun g ->
                     List.map (fun b -> String.concat "," (List.map2 (fun (k, v) t -> hx k ^ ":" ^ hx v ^ ":" ^ string_of_int (int_of_n t))
                                            (List.combine b.b_keys b.b_vals) b.b_ttls)) (append_batches kvs (snd g)))
                     (group_keys l0 (List.map fst kvs))) in
                   let got = List.sort compare bats in
                   if got = want then "ok" else "model-batches " ^ String.concat ";" want
               | _ -> "model-none")
          | "bget" ->
              (match batch_get st [(l0, all_served)] (keys_of (arg 0)) with
               | Some (Some vs) -> cmp_batches key_chunks (keys_of (arg 0)) ("ok " ^ (if vs = [] then "." else String.concat "," (List.map optv vs)))
               | _ -> "model-none")
          | "bdel" ->
              if failed then begin
                set (List.fold_left (fun s b -> srv_batch_delete s (keys_of b)) st bats); "err injected"
              end else
              (match bdel_rounds st [(l0, all_served)] (keys_of (arg 0)) with
               | Some (s, true) -> set s; cmp_batches key_chunks (keys_of (arg 0)) "ok"
               | _ -> "model-none")
          | "drange" ->
              if failed then
                (match drange_run st lso (bx (arg 0)) (bx (arg 1)) with
                 | DrFailed (s, _) -> set s;
                     stream_cmp (List.map (fun (a, b) -> hx a ^ ":" ^ hx b) (drange_reqs lso (bx (arg 0)) (bx (arg 1)))) bats "err injected"
                 | DrDone _ -> "model-done-before-the-failing-request"
                 | DrFuel -> "model-needs-more-iterations")
              else
              (match run_loop ls (fun l -> drange_loop st l (bx (arg 0)) (bx (arg 1))) with
               | Ok s -> set s;
                   stream_cmp (List.map (fun (a, b) -> hx a ^ ":" ^ hx b) (drange_reqs lso (bx (arg 0)) (bx (arg 1)))) bats "ok"
               | Error e -> e)
          | "scan" ->
              (match run_loop ls (fun l -> match client_scan st l (bx (arg 0)) (bx (arg 1)) (nat_of_int (int_of_string (arg 2))) with
                                          | None -> Some None | Some None -> None | Some (Some ps) -> Some (Some ps)) with
               | Ok (Some ps) ->
                   let reqs = scan_reqs st ls (bx (arg 0)) (bx (arg 1)) (nat_of_int (int_of_string (arg 2))) O in
                   stream_cmp (List.map (fun ((c, e), n) -> Printf.sprintf "%d:%s:%s" (int_of_nat n) (hx c) (hx e)) reqs) wire_scans (kvres ps)
               | Ok None -> "err limit" | Error e -> e)
          | "rscan" ->
              (match run_loop ls (fun l -> match client_rscan st l (bx (arg 0)) (bx (arg 1)) (nat_of_int (int_of_string (arg 2))) with
                                          | None -> Some None | Some None -> None | Some (Some ps) -> Some (Some ps)) with
               | Ok (Some ps) ->
                   let reqs = rscan_reqs st ls (bx (arg 0)) (bx (arg 1)) (nat_of_int (int_of_string (arg 2))) O in
                   (* on the wire the lower bound comes first: lo = EndKey, hi = StartKey *)
                   stream_cmp (List.map (fun ((c, e), n) -> Printf.sprintf "%d:%s:%s" (int_of_nat n) (hx e) (hx c)) reqs) wire_scans (kvres ps)
               | Ok None -> "err limit" | Error e -> e)
          | "cksum" ->
              (* handleKvRawChecksum reads column family CF_DEFAULT whatever the client says *)
              (match run_loop ls (fun l -> cksum digest (get_st "CF_DEFAULT") l (bx (arg 0)) (bx (arg 1))) with
               | Ok c ->
                   stream_cmp (List.map (fun (a, b) -> hx a ^ ":" ^ hx b) (cksum_reqs ls (bx (arg 0)) (bx (arg 1)))) wire_cksums
                     (Printf.sprintf "ok %s %d %d" (hex_of_n c.c_xor) (int_of_n c.c_kvs)
                           (int_of_n c.c_bytes + List.length !prefix * int_of_n c.c_kvs))  (* "including prefix in APIV2" *)
               | Error e -> e)
          | "cas" ->
              if !nonatomic then "err atomic" else
              let prev = if arg 1 = "N" then None else Some (bx (let s = arg 1 in let h = String.sub s 1 (String.length s - 1) in if h = "" then "-" else h)) in
              (match srv_cas st (bx (arg 0)) prev (bx (arg 2)) with
               | ((p, sw), s') -> set s'; Printf.sprintf "ok %s %d" (optv p) (if sw then 1 else 0))
          | _ -> "unknown-op"
          with e -> "model-exception " ^ Printexc.to_string e) in
        incr nops;
        let cls = if String.length impl >= 3 && String.sub impl 0 3 = "err" then "err" else if String.length impl >= 5 && String.sub impl 0 5 = "panic" then "panic" else "ok" in
        bump (name ^ ":" ^ cls);
        if m <> impl then begin
          incr mism;
          let short s = if String.length s > 600 then String.sub s 0 600 ^ "..." else s in
          if !mism <= 200 then print_endline (String.concat "\t" ["MISMATCH"; id; idx; name; "model=" ^ short m; "impl=" ^ short impl])
        end
    | _ -> ());
  Printf.printf "STATS\tops=%d\tmismatches=%d\n" !nops !mism;
  Hashtbl.iter (fun k v -> Printf.printf "COUNT\t%s\t%d\n" k v) counts
