(* driver for the RawKV model: replays the Go driver's OP lines on the extracted model
   (one model store per sequence), prints MISMATCH lines and statistics. *)
let hexraw (l : n list) : string = if l = [] then "" else hex_of_bytes l
let optv (o : n list option) : string = match o with None -> "N" | Some v -> "V" ^ hexraw v
let hxs (l : n list list) : string = if l = [] then "." else String.concat "," (List.map hex_of_bytes l)
let split_on c s = if s = "." || s = "none" then [] else String.split_on_char c s
let keys_of s = List.map bytes_of_hex (split_on ',' s)
let layouts_of s = (* "L=a,b;c" *)
  let s = String.sub s 2 (String.length s - 2) in
  if s = "none" then [] else List.map (fun l -> keys_of l) (String.split_on_char ';' s)
let rec nat_of_int_big i = nat_of_int i
let rec firstn k l = if k <= 0 then [] else match l with [] -> [] | x :: r -> x :: firstn (k-1) r

(* crc64-ECMA as hash/crc64 computes it (reflected, poly 0xC96C5795D7870F42) *)
let crc_tab : int64 array =
  Array.init 256 (fun i ->
    let c = ref (Int64.of_int i) in
    for _ = 0 to 7 do
      if Int64.logand !c 1L = 1L then c := Int64.logxor (Int64.shift_right_logical !c 1) 0xC96C5795D7870F42L
      else c := Int64.shift_right_logical !c 1
    done; !c)
let crc64 (bs : int list) : int64 =
  let c = ref (Int64.lognot 0L) in
  List.iter (fun b ->
    let idx = Int64.to_int (Int64.logand (Int64.logxor !c (Int64.of_int b)) 0xFFL) in
    c := Int64.logxor crc_tab.(idx) (Int64.shift_right_logical !c 8)) bs;
  Int64.lognot !c
let digest (k : n list) (v : n list) : n =
  let bs = List.map int_of_n (k @ v) in
  n_of_hex (Printf.sprintf "%Lx" (crc64 bs))

(* the loop must finish on exactly the layouts of the served RPCs: it finishes on all n of them
   and does not finish on the first n-1 (a loop that is done ignores further layouts) *)
let run_loop (ls : n list list list) (f : n list list list -> 'a option) : ('a, string) result =
  let n = List.length ls in
  match f ls with
  | None -> Error "model-needs-more-iterations"
  | Some r ->
      if n > 0 && f (firstn (n - 1) ls) <> None then Error (Printf.sprintf "model-finishes-before-%d-served-rpcs" n)
      else Ok r

let kvres (ps : (n list * n list) list) : string =
  "ok " ^ hxs (List.map fst ps) ^ " " ^
  (if ps = [] then "." else String.concat "," (List.map (fun p -> "V" ^ hexraw (snd p)) ps))

let all_served : n list -> bool = fun _ -> true

let () =
  let st = ref [] in
  let nops = ref 0 and mism = ref 0 in
  let counts = Hashtbl.create 64 in
  let bump k = Hashtbl.replace counts k (1 + (try Hashtbl.find counts k with Not_found -> 0)) in
  read_lines (fun line ->
    match split_tab line with
    | "SEQ" :: _ -> st := []
    | "OP" :: id :: idx :: name :: rest ->
        let rec split acc l = match l with
          | x :: r when String.length x >= 2 && String.sub x 0 2 = "L=" -> (List.rev acc, x, r)
          | x :: r -> split (x :: acc) r
          | [] -> (List.rev acc, "L=none", []) in
        let (args, lf, tail) = split [] rest in
        let impl = List.nth tail (List.length tail - 1) in
        let ls = layouts_of lf in
        let l0 = match ls with l :: _ -> l | [] -> [] in
        let arg i = List.nth args i in
        let m = (try
          match name with
          | "put" -> st := srv_put !st (bytes_of_hex (arg 0)) (bytes_of_hex (arg 1)) (n_of_int (int_of_string (arg 2))); "ok"
          | "get" -> "ok " ^ optv (srv_get !st (bytes_of_hex (arg 0)))
          | "del" -> st := st_del !st (bytes_of_hex (arg 0)); "ok"
          | "bput" ->
              let ks = keys_of (arg 0) and vs = keys_of (arg 1) in
              let ts = if arg 2 = "." then List.map (fun _ -> 0) ks else List.map int_of_string (String.split_on_char ',' (arg 2)) in
              let kvs = List.map2 (fun (k, v) t -> (k, { e_val = v; e_ttl = n_of_int t })) (List.combine ks vs) ts in
              (match batch_put !st [(l0, all_served)] kvs with Some s -> st := s; "ok" | None -> "model-none")
          | "bget" ->
              (match batch_get !st [(l0, all_served)] (keys_of (arg 0)) with
               | Some vs -> "ok " ^ (if vs = [] then "." else String.concat "," (List.map optv vs))
               | None -> "model-none")
          | "bdel" ->
              (match bdel_rounds !st [(l0, all_served)] (keys_of (arg 0)) with Some s -> st := s; "ok" | None -> "model-none")
          | "drange" ->
              (match run_loop ls (fun l -> drange_loop !st l (bytes_of_hex (arg 0)) (bytes_of_hex (arg 1))) with
               | Ok s -> st := s; "ok" | Error e -> e)
          | "scan" ->
              (match run_loop ls (fun l -> scan !st l (bytes_of_hex (arg 0)) (bytes_of_hex (arg 1)) (nat_of_int (int_of_string (arg 2)))) with
               | Ok ps -> kvres ps | Error e -> e)
          | "rscan" ->
              (match run_loop ls (fun l -> rscan !st l (bytes_of_hex (arg 0)) (bytes_of_hex (arg 1)) (nat_of_int (int_of_string (arg 2)))) with
               | Ok ps -> kvres ps | Error e -> e)
          | "cksum" ->
              (match run_loop ls (fun l -> cksum digest !st l (bytes_of_hex (arg 0)) (bytes_of_hex (arg 1))) with
               | Ok c -> Printf.sprintf "ok %s %d %d" (hex_of_n c.c_xor) (int_of_n c.c_kvs) (int_of_n c.c_bytes)
               | Error e -> e)
          | "cas" ->
              let prev = if arg 1 = "N" then None else Some (bytes_of_hex (let s = arg 1 in let h = String.sub s 1 (String.length s - 1) in if h = "" then "-" else h)) in
              (match srv_cas !st (bytes_of_hex (arg 0)) prev (bytes_of_hex (arg 2)) with
               | ((p, sw), s') -> st := s'; Printf.sprintf "ok %s %d" (optv p) (if sw then 1 else 0))
          | _ -> "unknown-op"
          with e -> "model-exception " ^ Printexc.to_string e) in
        incr nops;
        let cls = if String.length impl >= 3 && String.sub impl 0 3 = "err" then "err" else if String.length impl >= 5 && String.sub impl 0 5 = "panic" then "panic" else "ok" in
        bump (name ^ ":" ^ cls);
        if m <> impl then begin
          incr mism;
          if !mism <= 200 then print_endline (String.concat "\t" ["MISMATCH"; id; idx; name; "model=" ^ m; "impl=" ^ impl])
        end
    | _ -> ());
  Printf.printf "STATS\tops=%d\tmismatches=%d\n" !nops !mism;
  Hashtbl.iter (fun k v -> Printf.printf "COUNT\t%s\t%d\n" k v) counts
