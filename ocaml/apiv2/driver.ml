(* driver for the ApiV2 model: reads the Go driver's lines on stdin, recomputes each result with the
   extracted model, prints mismatches, property-oracle failures and statistics. *)
let mk_ks m id = { ks_mode = (if m = "r" then Raw else Txn); ks_id = n_of_hex id }
let rr r = match r with
  | ROk (s, e) -> "ok " ^ hex_of_bytes s ^ " " ^ hex_of_bytes e
  | ROutOfBound -> "oob" | RDecodeErr -> "decerr"

let model op c args =
  let a i = bytes_of_hex (List.nth args i) in
  match op with
  | "pfx" -> hex_of_bytes (prefix c) ^ " " ^ hex_of_bytes (end_key c)
  | "ek" -> hex_of_bytes (encode_key c (a 0))
  | "dk" -> (match decode_key c (a 0) with Some k -> "ok " ^ hex_of_bytes k | None -> "oob")
  | "er" -> let (s, e) = encode_range c (List.nth args 0 = "1") (a 1) (a 2) in hex_of_bytes s ^ " " ^ hex_of_bytes e
  | "dr" -> rr (decode_range c (a 0) (a 1))
  | "drr" -> rr (decode_region_range c (a 0) (a 1))
  | "erk" -> hex_of_bytes (encode_region_key c (a 0))
  | "drk" -> (match decode_region_key c (a 0) with KOk k -> "ok " ^ hex_of_bytes k | KOutOfBound -> "oob" | KDecodeErr -> "decerr")
  | "err" -> let (s, e) = encode_region_range c (a 0) (a 1) in hex_of_bytes s ^ " " ^ hex_of_bytes e
  | "dbk" ->
      let l = if List.nth args 0 = "" then [] else List.map bytes_of_hex (String.split_on_char ',' (List.nth args 0)) in
      (match decode_bucket_keys c l with
       | Some out -> "ok " ^ String.concat "," (List.map hex_of_bytes out)
       | None -> "decerr")
  | "dsc" ->
      let regs = if List.nth args 0 = "" then [] else
        List.map (fun r -> match String.split_on_char ':' r with
                           | [s; e] -> (bytes_of_hex s, bytes_of_hex e) | _ -> failwith "dsc") (String.split_on_char ',' (List.nth args 0)) in
      (match decode_scan c regs with
       | Some out -> String.concat ";" (List.map (fun (s, e) -> "ok " ^ hex_of_bytes s ^ " " ^ hex_of_bytes e) out)
       | None -> "decerr")
  | "fdk" -> (match split_v2_key (a 0) with Some (p, r) -> "ok " ^ hex_of_bytes p ^ " " ^ hex_of_bytes r | None -> "err")
  | "dre" ->
      let sp c s = String.split_on_char c s in
      let part i = List.nth args i in
      let knir = if part 0 = "~" then None else (match sp ':' (part 0) with
                   | [k; s; e] -> Some ((bytes_of_hex k, bytes_of_hex s), bytes_of_hex e) | _ -> failwith "dre") in
      let epoch = if part 1 = "~" then None else if part 1 = "()" then Some [] else
                    Some (List.map (fun r -> match sp ':' r with [s; e] -> (bytes_of_hex s, bytes_of_hex e) | _ -> failwith "dre") (sp ',' (part 1))) in
      let bks = if part 2 = "~" then None else if part 2 = "()" then Some [] else Some (List.map bytes_of_hex (sp ',' (part 2))) in
      (match decode_region_error c { re_knir = knir; re_epoch = epoch; re_buckets = bks } with
       | None -> "err"
       | Some r ->
         let kn = (match r.re_knir with None -> "~" | Some ((k, s), e) -> hex_of_bytes k ^ ":" ^ hex_of_bytes s ^ ":" ^ hex_of_bytes e) in
         let ep = (match r.re_epoch with None -> "~" | Some [] -> "()" | Some l -> String.concat "," (List.map (fun (s, e) -> hex_of_bytes s ^ ":" ^ hex_of_bytes e) l)) in
         let bv = (match r.re_buckets with None -> "~" | Some [] -> "()" | Some l -> String.concat "," (List.map hex_of_bytes l)) in
         "ok " ^ kn ^ " " ^ ep ^ " " ^ bv)
  | "pki" -> (match parse_keyspace_id (a 0) with Some id -> "ok " ^ hex_of_n id | None -> "err")
  | _ -> "unknown-op"

(* ---- replay of the object-level observations (pool lines) on the heap model ---- *)
let pool_c = mk_ks "x" "102ff"
let pool_h = ref { rh = (fun _ -> { r_keyed = false; r_inner = O; r_api = false; r_rev = O }); mh = (fun _ -> { m_keys = []; m_ctx = None });
                   next_r = O; next_m = O; pool = [] }
let pool_keyed : (int, bool) Hashtbl.t = Hashtbl.create 64
let pool_v1 = ref false
let keys_of s = if s = "-" then [] else List.map bytes_of_hex (String.split_on_char ',' s)
let keys_str l = if l = [] then "-" else String.concat "," (List.map hex_of_bytes l)
let kv f = match String.index_opt f '=' with Some i -> (String.sub f 0 i, String.sub f (i + 1) (String.length f - i - 1)) | None -> (f, "")
let b01 b = if b then "1" else "0"
(* returns (cases, mismatch description list) *)
let pool_line fields : string list =
  match fields with
  | "begin" :: rest -> Hashtbl.reset pool_keyed; pool_v1 := (List.length rest >= 3 && List.nth rest 2 = "v1");
      pool_h := { !pool_h with rh = (fun _ -> { r_keyed = false; r_inner = O; r_api = false; r_rev = O }); mh = (fun _ -> { m_keys = []; m_ctx = None }); next_r = O; next_m = O; pool = [] }; []
  | "caller" :: i :: _name :: keyed :: keys :: _ ->
      let a = nat_of_int (int_of_string i) in
      Hashtbl.replace pool_keyed (int_of_string i) (keyed = "1");
      let h = !pool_h in
      pool_h := { rh = upd h.rh a { r_keyed = (keyed = "1"); r_inner = a; r_api = false; r_rev = O };
                  mh = upd h.mh a { m_keys = keys_of keys; m_ctx = None };
                  next_r = S a; next_m = S a; pool = [] }; []
  | "send" :: _ :: name :: "error" :: rest -> ["pool " ^ name ^ ": the transmission failed: " ^ String.concat " " rest]
  | "send" :: a_s :: name :: rest ->
      let f = List.map kv rest in
      let g k = try List.assoc k f with Not_found -> "" in
      let h = !pool_h in
      let a = nat_of_int (int_of_string a_s) in
      let ret = int_of_string (g "ret") in
      let pl = List.map int_of_nat h.pool in
      let rec index x l n = match l with [] -> None | y :: t -> if x = y then Some n else index x t (n + 1) in
      let choice = match index ret pl 0 with
        | Some i -> Some i
        | None -> if ret = int_of_nat h.next_r then Some (List.length pl) else None in
      (match choice with
       | None -> ["pool " ^ name ^ ": EncodeRequest returned request object " ^ string_of_int ret ^ " for caller " ^ a_s
                  ^ ", which is neither a new object nor one of the pooled ones [" ^ String.concat ";" (List.map string_of_int pl) ^ "] (the model: r := pool.Get())"]
       | Some i ->
         let keyed = (try Hashtbl.find pool_keyed (int_of_string a_s) with Not_found -> true) in
         let had_pred = (h.mh ((h.rh a).r_inner)).m_ctx <> None in
         let answered = g "dec" <> "-1" in
         let logical = (h.mh ((h.rh a).r_inner)).m_keys in
         let ((wk, wc), h') = sendx real pool_c a (nat_of_int i) answered h in
         pool_h := h';
         (* codec v1 leaves keys as they are: the model's encoding is replaced by the identity *)
         let wk = if !pool_v1 then logical else wk in
         let dec_pred = if not answered then -1 else (match h'.pool with r :: _ -> int_of_nat r | [] -> -1) in
         let ca = h'.rh a in
         let exp = [ ("shared", b01 (not keyed)); ("dec", string_of_int dec_pred); ("hadctx", b01 had_pred);
                     ("wire", keys_str wk); ("ctx", (match wc with Some true -> (if !pool_v1 then "v1" else "v2") | Some false -> "unset" | None -> "none"));
                     ("callerkeys", keys_str (h'.mh ca.r_inner).m_keys); ("callersame", b01 (int_of_nat ca.r_inner = int_of_string a_s));
                     ("callerapi", b01 ca.r_api) ] in
         List.fold_left (fun acc (k, v) ->
           let o = g k in
           if o = v || (k = "ctx" && o = "noctx") || (k = "hadctx" && g "ctx" = "noctx") then acc
           else ("pool " ^ name ^ " caller " ^ a_s ^ ": " ^ k ^ " observed " ^ o ^ ", the model predicts " ^ v) :: acc) [] exp)
  | _ -> []

let () =
  let n = ref 0 and mism = ref 0 and pfail = ref 0 and pn = ref 0 in
  let counts = Hashtbl.create 64 in
  let distinct = Hashtbl.create 100000 in
  let bump k = Hashtbl.replace counts k (1 + (try Hashtbl.find counts k with Not_found -> 0)) in
  read_lines (fun line ->
    match split_tab line with
    | "P" :: name :: rest ->
        incr pn;
        let verdict = List.nth rest (List.length rest - 1) in
        bump ("P:" ^ name ^ ":" ^ verdict);
        if verdict <> "pass" then begin incr pfail; if !pfail <= 400 then print_endline ("PROPFAIL\t" ^ line) end
    | "pool" :: fields ->
        (match fields with "send" :: _ -> incr n; bump "pool:send" | _ -> ());
        List.iter (fun d -> incr mism; if !mism <= 50 then print_endline ("MISMATCH\tpool\t" ^ line ^ "\t" ^ d)) (pool_line fields)
    | op :: m :: id :: rest when (m = "r" || m = "x") ->
        let rec split acc l = match l with "=>" :: r -> (List.rev acc, r) | x :: r -> split (x :: acc) r | [] -> (List.rev acc, []) in
        let (args, res) = split [] rest in
        let impl = String.concat " " res in
        let mres = (try model op (mk_ks m id) args with e -> "model-exception " ^ Printexc.to_string e) in
        incr n;
        if not (Hashtbl.mem distinct line) then Hashtbl.add distinct line ();
        let cls = if impl = "oob" || impl = "decerr" then impl else if impl = "panic" || impl = "err" then "other" else "ok" in
        bump (op ^ ":" ^ cls);
        if mres <> impl then begin incr mism; if !mism <= 50 then print_endline ("MISMATCH\t" ^ line ^ "\tmodel=" ^ mres) end
    | _ -> ());
  Printf.printf "STATS\tcases=%d\tmismatches=%d\tprops=%d\tpropfails=%d\tdistinct=%d\n" !n !mism !pn !pfail (Hashtbl.length distinct);
  Hashtbl.iter (fun k v -> Printf.printf "COUNT\t%s\t%d\n" k v) counts
