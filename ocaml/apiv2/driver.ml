(* driver for the ApiV2 model: reads the Go driver's lines on stdin, recomputes each result with the
   extracted model, prints mismatches, property-oracle failures and statistics. *)
let mk_ks m id = { ks_mode = (if m = "r" then Raw else Txn); ks_id = n_of_hex id }
let rr r = match r with
  | ROk (s, e) -> "ok " ^ hex_of_bytes s ^ " " ^ hex_of_bytes e
  | ROutOfBound -> "oob" | RDecodeErr -> "decerr"

let model op c args =
  let a i = bytes_of_hex (List.nth args i) in
  match op with
  | "pfx" -> hex_of_bytes (prefix c) ^ " " ^ hex_of_bytes (end_key c)
  | "ek" -> hex_of_bytes (encode_key c (a 0))
  | "dk" -> (match decode_key c (a 0) with Some k -> "ok " ^ hex_of_bytes k | None -> "oob")
  | "er" -> let (s, e) = encode_range c (List.nth args 0 = "1") (a 1) (a 2) in hex_of_bytes s ^ " " ^ hex_of_bytes e
  | "dr" -> rr (decode_range c (a 0) (a 1))
  | "drr" -> rr (decode_region_range c (a 0) (a 1))
  | "erk" -> hex_of_bytes (encode_region_key c (a 0))
  | "drk" -> (match decode_region_key c (a 0) with KOk k -> "ok " ^ hex_of_bytes k | KOutOfBound -> "oob" | KDecodeErr -> "decerr")
  | "err" -> let (s, e) = encode_region_range c (a 0) (a 1) in hex_of_bytes s ^ " " ^ hex_of_bytes e
  | "dbk" ->
      let l = if List.nth args 0 = "" then [] else List.map bytes_of_hex (String.split_on_char ',' (List.nth args 0)) in
      (match decode_bucket_keys c l with
       | Some out -> "ok " ^ String.concat "," (List.map hex_of_bytes out)
       | None -> "decerr")
  | "dsc" ->
      let regs = if List.nth args 0 = "" then [] else
        List.map (fun r -> match String.split_on_char ':' r with
                           | [s; e] -> (bytes_of_hex s, bytes_of_hex e) | _ -> failwith "dsc") (String.split_on_char ',' (List.nth args 0)) in
      (match decode_scan c regs with
       | Some out -> String.concat ";" (List.map (fun (s, e) -> "ok " ^ hex_of_bytes s ^ " " ^ hex_of_bytes e) out)
       | None -> "decerr")
  | "pki" -> (match parse_keyspace_id (a 0) with Some id -> "ok " ^ hex_of_n id | None -> "err")
  | _ -> "unknown-op"

let () =
  let n = ref 0 and mism = ref 0 and pfail = ref 0 and pn = ref 0 in
  let counts = Hashtbl.create 64 in
  let distinct = Hashtbl.create 100000 in
  let bump k = Hashtbl.replace counts k (1 + (try Hashtbl.find counts k with Not_found -> 0)) in
  read_lines (fun line ->
    match split_tab line with
    | "P" :: name :: rest ->
        incr pn;
        let verdict = List.nth rest (List.length rest - 1) in
        bump ("P:" ^ name ^ ":" ^ verdict);
        if verdict <> "pass" then begin incr pfail; if !pfail <= 400 then print_endline ("PROPFAIL\t" ^ line) end
    | op :: m :: id :: rest when (m = "r" || m = "x") ->
        let rec split acc l = match l with "=>" :: r -> (List.rev acc, r) | x :: r -> split (x :: acc) r | [] -> (List.rev acc, []) in
        let (args, res) = split [] rest in
        let impl = String.concat " " res in
        let mres = (try model op (mk_ks m id) args with e -> "model-exception " ^ Printexc.to_string e) in
        incr n;
        if not (Hashtbl.mem distinct line) then Hashtbl.add distinct line ();
        let cls = if impl = "oob" || impl = "decerr" then impl else if impl = "panic" || impl = "err" then "other" else "ok" in
        bump (op ^ ":" ^ cls);
        if mres <> impl then begin incr mism; if !mism <= 50 then print_endline ("MISMATCH\t" ^ line ^ "\tmodel=" ^ mres) end
    | _ -> ());
  Printf.printf "STATS\tcases=%d\tmismatches=%d\tprops=%d\tpropfails=%d\tdistinct=%d\n" !n !mism !pn !pfail (Hashtbl.length distinct);
  Hashtbl.iter (fun k v -> Printf.printf "COUNT\t%s\t%d\n" k v) counts
