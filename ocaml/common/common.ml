(* common.ml — textually appended after an extracted model; relies on the extracted
   types  positive = XI | XO | XH,  n = N0 | Npos,  z = Z0 | Zpos | Zneg,  nat = O | S. *)
let rec pos_of_bits (bits : bool list) : positive =
  (* bits: least significant first, last one must be true *)
  match bits with
  | [] -> failwith "pos_of_bits"
  | [true] -> XH
  | b :: r -> if b then XI (pos_of_bits r) else XO (pos_of_bits r)

let hexval c = match c with
  | '0'..'9' -> Char.code c - 48 | 'a'..'f' -> Char.code c - 87 | 'A'..'F' -> Char.code c - 55
  | _ -> failwith "hexval"

let n_of_hex (s : string) : n =
  (* big-endian hex string -> N *)
  let bits = ref [] in
  String.iter (fun c -> let v = hexval c in
    bits := (v land 1 = 1) :: (v land 2 = 2) :: (v land 4 = 4) :: (v land 8 = 8) :: !bits) s;
  (* !bits is lsb first *)
  let rec strip l = match l with [] -> [] | false :: r -> strip r | _ -> l in
  let msb_first = strip (List.rev !bits) in
  match msb_first with [] -> N0 | _ -> Npos (pos_of_bits (List.rev msb_first))

let rec bits_of_pos (p : positive) : bool list = match p with
  | XH -> [true] | XO q -> false :: bits_of_pos q | XI q -> true :: bits_of_pos q

let hex_of_n (x : n) : string =
  match x with
  | N0 -> "0"
  | Npos p ->
    let bits = Array.of_list (bits_of_pos p) in
    let nb = Array.length bits in
    let nd = (nb + 3) / 4 in
    let b = Bytes.create nd in
    for d = 0 to nd - 1 do
      let v = ref 0 in
      for k = 0 to 3 do
        let i = d * 4 + k in if i < nb && bits.(i) then v := !v lor (1 lsl k)
      done;
      Bytes.set b (nd - 1 - d) "0123456789abcdef".[!v]
    done; Bytes.to_string b

let z_of_hex (s : string) : z =
  if String.length s > 0 && s.[0] = '-' then
    (match n_of_hex (String.sub s 1 (String.length s - 1)) with N0 -> Z0 | Npos p -> Zneg p)
  else (match n_of_hex s with N0 -> Z0 | Npos p -> Zpos p)

let hex_of_z (x : z) : string = match x with
  | Z0 -> "0" | Zpos p -> hex_of_n (Npos p) | Zneg p -> "-" ^ hex_of_n (Npos p)

let byte_tab : n array = Array.init 256 (fun i -> n_of_hex (Printf.sprintf "%x" i))
let int_of_n (x : n) : int = int_of_string ("0x" ^ hex_of_n x)   (* small values only *)
let n_of_int (i : int) : n = n_of_hex (Printf.sprintf "%x" i)
let z_of_int (i : int) : z = if i < 0 then z_of_hex (Printf.sprintf "-%x" (-i)) else z_of_hex (Printf.sprintf "%x" i)
let int_of_z (x : z) : int = match x with Z0 -> 0 | Zpos p -> int_of_n (Npos p) | Zneg p -> - (int_of_n (Npos p))
let rec nat_of_int (i : int) : nat = if i <= 0 then O else S (nat_of_int (i - 1))
let rec int_of_nat (x : nat) : int = match x with O -> 0 | S y -> 1 + int_of_nat y

(* "-" = empty byte string *)
let bytes_of_hex (s : string) : n list =
  if s = "-" then [] else
  List.init (String.length s / 2) (fun i -> byte_tab.(hexval s.[2*i] * 16 + hexval s.[2*i+1]))

let hex_of_bytes (l : n list) : string =
  if l = [] then "-" else
  String.concat "" (List.map (fun b -> let v = int_of_n b in
     if v > 255 then failwith "byte>255" else Printf.sprintf "%02x" v) l)

let split_tab (s : string) : string list = String.split_on_char '\t' s
let rec read_lines (f : string -> unit) : unit =
  match input_line stdin with
  | l -> f l; read_lines f
  | exception End_of_file -> ()
