(* driver for the SendReq model (C10): reads the Go driver's lines on stdin
     C \t cfg \t script \t rands \t events \t result \t total \t excl \t errs \t oracle
   runs the extracted model on (cfg, script, observed random picks, observed sleeps) and compares the
   event trace and the result; prints MISMATCH lines and statistics. *)
let parse_cfg (s : string) =
  let kv = List.filter_map (fun p -> match String.index_opt p '=' with
      | Some i -> Some (String.sub p 0 i, String.sub p (i+1) (String.length p - i - 1)) | None -> None)
      (String.split_on_char ',' s) in
  let g k = List.assoc k kv in
  let b k = g k = "1" in
  let rt = match g "rt" with "L" -> RTLeader | "F" -> RTFollower | "M" -> RTMixed | "N" -> RTLearner | "P" -> RTPreferLeader | _ -> failwith "rt" in
  let lv c = match c with 'U' -> Unreachable | 'K' -> Unknown | _ -> Reachable in
  let lb = g "lb" in
  let reps = List.init 3 (fun i ->
      (* a later call of a sequence starts from the OBSERVED liveness / slow marks *)
      let later = (try (List.assoc "olv" kv).[0] <> '-' with Not_found -> false) in
      let lvs = if later then List.assoc "olv" kv else g "lv" and sls = if later then List.assoc "osl" kv else g "sl" in
      let r0 = fresh_rep (lv lvs.[i]) (sls.[i] = '1') (lb <> "-" && int_of_string lb = i) (b "lr" && i = 2) in
      let bit k = (try (List.assoc k kv).[i] = '1' with Not_found -> false) in
      { r0 with stale = bit "es"; rstale = bit "es"; busy_est = bit "be" }) in
  let bo k = (try List.assoc k kv = "1" with Not_found -> false) in
  let ga k d = (try List.assoc k kv with Not_found -> d) in
  let trig t = if t = "P" then TPre else if String.length t >= 2 && t.[0] = 'A' then TAtt (nat_of_int (int_of_string (String.sub t 1 (String.length t - 1))))
               else if String.length t >= 2 && t.[0] = 'B' then TBo (nat_of_int (int_of_string (String.sub t 1 (String.length t - 1)))) else TNever in
  let tp = (try List.assoc "tp" kv with Not_found -> "K") in
  let stp = match tp with "F" -> TpTiFlash | "D" -> TpTiDB | _ -> TpTiKV in
  (* for StoreTp <> TiKV only the validation gate is modelled: compare only the runs it refuses *)
  (bo "inv" || (tp <> "K" && not (tp = "F" && not (b "val"))), { c_rt = rt; c_stale = b "st"; c_read = b "rd"; c_has_labels = (lb <> "-"); c_leader_only = b "lo"; c_thr = b "thr";
            c_short_to = b "to"; c_max_sleep = n_of_int (int_of_string (g "ms")); c_val = b "val"; c_reps = reps; c_fw = b "fw"; c_store_tp = stp;
            c_cancel = trig (ga "cx" "-"); c_kill = trig (ga "kl" "-"); c_interruptible = (ga "ir" "1" = "1"); c_async = (ga "as" "0" = "1");
            c_leader0 = nat_of_int (int_of_string (ga "ld" "0"));
            c_proxy0 = (let p = int_of_string (ga "px" "-1") in if p < 0 then None else Some (nat_of_int p)) })

let parse_sym (s : string) : outcome =
  let lv c = match c with 'u' -> Unreachable | 'k' -> Unknown | _ -> Reachable in
  match s with
  | "OK" -> OSuccess | "NL" -> ONotLeader | "EN" -> OEpochNoRegions | "EB" -> OEpochBehind | "EW" -> OEpochNewer
  | "RF" -> ORegionNotFound | "B0" -> OBusy false | "B1" -> OBusy true | "BD" -> OBusyDeadline
  | "SC" -> OStaleCommand | "SM" -> OStoreNotMatch | "DN" -> ODataIsNotReady | "MT" -> OMaxTsNotSynced
  | "DF" -> ODiskFull | "UK" -> OUnknown
  | "UR" -> OUndetermined | "RP" -> ORecovery | "IW" -> OWitness | "FP" -> OFlashback | "FN" -> OFlashbackNotPrepared
  | "KN" -> OKeyNotInRegion | "BV" -> OBucketVersion | "MP" -> OMismatchPeer | "RL" -> ORaftTooLarge
  | "NI" -> ONotInitialized | "RN" -> OReadIndexNotReady | "PM" -> OMerging | "IM" -> OInvalidMaxTs | "DM" -> ODeadlineMsg
  | _ when String.length s = 2 && s.[0] = 'E' -> ORpcErr (lv s.[1])
  | _ when String.length s = 2 && s.[0] = 'D' -> ODeadline (lv s.[1])
  | _ when String.length s = 2 && s.[0] = 'N' -> ONotLeaderHint (nat_of_int (Char.code s.[1] - 48))
  | _ -> failwith ("symbol " ^ s)

let kind_name k = match k with BoRPC -> "rpc" | BoRegionMiss -> "miss" | BoRegionScheduling -> "sched" | BoBusy -> "busy"
                             | BoDiskFull -> "disk" | BoMaxTs -> "maxts" | BoRecovery -> "recov" | BoWitness -> "witness" | BoNotInit -> "notinit"
let b01 b = if b then "1" else "0"
(* ERearm is internal to the model (not observable): dropped from the compared trace *)
let show_events evs =
  let via = ref "" in
  let l = List.filter_map (fun e -> match e with
      | EAtt (i, rr, st, rty) ->
          let v = !via in via := "";
          Some (Printf.sprintf "A%d:%s%s%s%s" (int_of_nat i) (b01 rr) (b01 st) (b01 rty) v)
      | EBo (k, sl) -> Some (Printf.sprintf "B%s:%d" (kind_name k) (int_of_n sl))
      | EProxy p -> via := "@" ^ string_of_int (int_of_nat p); None
      | ERearm _ -> None) evs in
  if l = [] then "-" else String.concat ";" l
let show_result r = match r with
  | RSuccess i -> "S" ^ string_of_int (int_of_nat i) | RRegionErr i -> "R" ^ string_of_int (int_of_nat i)
  | RPseudo -> "P" | RError -> "E" | RFatal _ -> "E"

let split_list s sep = if s = "-" || s = "" then [] else String.split_on_char sep s

let cfg_get cfg k d =
  let kv = List.filter_map (fun p -> match String.index_opt p '=' with
      | Some i -> Some (String.sub p 0 i, String.sub p (i+1) (String.length p - i - 1)) | None -> None)
      (String.split_on_char ',' cfg) in
  (try List.assoc k kv with Not_found -> d)
let enc_script s = if s = "-" || s = "" then "-" else String.concat "+" (String.split_on_char ',' s)
let show_cache ((ld, px), reps) =
  let ch f = String.concat "" (List.map f reps) in
  Printf.sprintf "ld=%d,px=%s,es=%s,be=%s,olv=%s,osl=%s" (int_of_nat ld)
    (match px with Some p -> string_of_int (int_of_nat p) | None -> "-1")
    (ch (fun r -> b01 r.stale)) (ch (fun r -> b01 r.busy_est))
    (ch (fun r -> match r.live with Reachable -> "R" | Unreachable -> "U" | Unknown -> "K")) (ch (fun r -> b01 r.slow))

let () =
  let pending = ref None and ncache = ref 0 in
  let n = ref 0 and mism = ref 0 and skipped = ref 0 and rearmed = ref 0 and nontriv = ref 0 in
  let counts = Hashtbl.create 64 in
  let bump k = Hashtbl.replace counts k (1 + (try Hashtbl.find counts k with Not_found -> 0)) in
  let distinct = Hashtbl.create 100000 in
  read_lines (fun line ->
    match split_tab line with
    | "C" :: cfg :: script :: rands :: events :: result :: _total :: _excl :: _errs :: orc :: _ ->
        let (fw, c) = parse_cfg cfg in
        bump ("oracle:" ^ (if orc = "pass" then "pass" else "fail"));
        let cmd = (try List.find (fun p -> String.length p > 4 && String.sub p 0 4 = "cmd=") (String.split_on_char ',' cfg) with Not_found -> "cmd=0") in
        if cmd <> "cmd=0" then bump ("cmdtype:" ^ cmd);
        if fw then begin incr skipped; bump "cfg:preinvalidated-or-nonTiKV-send-path(oracles only)" end
        else begin
          let sc = List.map parse_sym (split_list script ',') in
          let rs = List.map (fun p -> match String.split_on_char ':' p with
              | [_; v] -> nat_of_int (int_of_string v) | _ -> failwith "rand") (split_list rands ',') in
          let evl = split_list events ';' in
          let sleeps = List.filter_map (fun e -> if String.length e > 0 && e.[0] = 'B' then
              (match String.split_on_char ':' e with [_; v] -> Some (n_of_int (int_of_string v)) | _ -> None) else None) evl in
          (* multi-call sequences: the cache state the previous call of the sequence left, as PREDICTED by the model, must be
             the state OBSERVED before this call *)
          (* cheap test first: only multi-call lines carry nx=1 or a non-empty pre *)
          let multi = (try ignore (Str.search_forward (Str.regexp_string "nx=1") cfg 0); true with Not_found -> false)
                      || (try ignore (Str.search_forward (Str.regexp "pre=[^-,]") cfg 0); true with Not_found -> false) in
          let pre = if multi then cfg_get cfg "pre" "-" else "-" in
          (match !pending with
           | Some (epre, pred, pcfg, pscript) when epre = pre ->
               incr ncache;
               let obs = Printf.sprintf "ld=%s,px=%s,es=%s,be=%s,olv=%s,osl=%s" (cfg_get cfg "ld" "0") (cfg_get cfg "px" "-1")
                   (cfg_get cfg "es" "000") (cfg_get cfg "be" "000") (cfg_get cfg "olv" "---") (cfg_get cfg "osl" "000") in
               if obs <> pred then begin
                 incr mism;
                 if !mism <= 40 then print_endline ("MISMATCH\t" ^ pcfg ^ "\t" ^ pscript ^ "\t-\timpl=cache-after-call " ^ obs ^ "\tmodel=cache-after-call " ^ pred)
               end
           | _ -> ());
          pending := None;
          if multi && cfg_get cfg "nx" "0" = "1" then begin
            let (_, cache) = run_st c sc rs sleeps O in
            pending := Some ((if pre = "-" then enc_script script else pre ^ "/" ^ enc_script script), show_cache cache, cfg, script)
          end;
          let (mevs, mres) = (try run c sc rs sleeps with e -> ([], RError)) in
          let me = show_events mevs and mr = show_result mres in
          incr n;
          if int_of_nat (n_rearms mevs) > 0 then incr rearmed;
          let natt = int_of_nat (n_attempts mevs) in
          if natt >= 2 then incr nontriv;
          Hashtbl.replace distinct (cfg ^ "|" ^ me ^ "|" ^ mr) ();
          bump ("result:" ^ String.sub mr 0 1);
          bump ("rt:" ^ String.sub cfg 3 1);
          if multi then bump "class:multi-call";
          if me <> events || mr <> result then begin
            incr mism;
            if !mism <= 40 then print_endline ("MISMATCH\t" ^ cfg ^ "\t" ^ script ^ "\t" ^ rands ^ "\timpl=" ^ events ^ " " ^ result ^ "\tmodel=" ^ me ^ " " ^ mr)
          end
        end
    | _ -> ());
  Printf.printf "STATS\tcases=%d\tmismatches=%d\tforwarding_skipped=%d\trearmed=%d\tmultiattempt=%d\tdistinct=%d\tcache_predictions=%d\n"
    !n !mism !skipped !rearmed !nontriv (Hashtbl.length distinct) !ncache;
  Hashtbl.iter (fun k v -> Printf.printf "COUNT\t%s\t%d\n" k v) counts
