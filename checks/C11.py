"""C11 — raw KV operations behave as one ordered map regardless of region layout.
Proof: coq/theories/RawKV/Props.v (client loops of rawkv.go over any sequence of layouts).
Correspondence: Go driver (overlay root ov_rawkv, internal/zz_verif/rawkv) runs random + directed op
sequences through the public rawkv.Client on mocktikv with splits / merges / leader transfers between
calls and, through a gate around the RPC client, right before the i-th RPC of a call; the extracted
model (ocaml/rawkv) replays every call on the layouts the served RPCs saw (results AND number of
loop iterations must agree); independently a plain python sorted-dict reference evaluates the
property oracles on the implementation's outputs."""
import os, time, json, tempfile, glob
import vlib
from vlib import Verdict

PID = "C11"
PROPS = [("theories/RawKV/Props.v", "RawKV.Props")]
AREAS = ["theories/RawKV"]
THEOREM_OF = {"sequence": "C11_sequence", "scan": "C11_scan", "rscan": "C11_reverse_scan", "drange": "C11_delete_range / C11_delete_range_interrupted", "cksum": "C11_checksum",
              "bget": "C11_batch_get_aligned", "bput": "C11_batch_put_last_wins / C11_batch_put_partial_failure", "bdel": "C11_batch_delete / C11_batch_delete_partial_failure",
              "cas": "C11_cas", "put": "C11_get_put_delete", "get": "C11_get_put_delete", "del": "C11_get_put_delete"}

# ---------------------------------------------------------------- reference (independent of the Coq model)
_POLY = 0xC96C5795D7870F42
_TAB = []
for _i in range(256):
    _c = _i
    for _ in range(8):
        _c = (_c >> 1) ^ _POLY if _c & 1 else _c >> 1
    _TAB.append(_c)


def crc64(bs):
    c = 0xFFFFFFFFFFFFFFFF
    for b in bs:
        c = _TAB[(c ^ b) & 0xFF] ^ (c >> 8)
    return c ^ 0xFFFFFFFFFFFFFFFF


def unhx(s):
    if s in ("-", "", "."):
        return b""
    if s[0] == "*":      # "*<n>x<hh>": n copies of one byte (big values of the sub-batching class)
        n, c = s[1:].split("x")
        return bytes([int(c, 16)]) * int(n)
    return bytes.fromhex(s)


def rle(b):
    if len(b) >= 32 and b.count(b[:1]) == len(b):
        return "*%dx%02x" % (len(b), b[0])
    return None


def hx(b):
    if not b:
        return "-"
    return rle(b) or b.hex()


def hxs(l):
    return ",".join(hx(b) for b in l) if l else "."


def optv(v):
    return "N" if v is None else "V" + (rle(v) or v.hex())


def lst(s):
    return [] if s in (".", "none", "") else s.split(",")


def in_range(k, s, e):
    return s <= k and (len(e) == 0 or k < e)


def region_of(layout, k):
    """start key of the region containing k, layout = sorted list of split keys"""
    lo = b""
    for s in layout:
        if s <= k:
            lo = s
    return lo


class Ref:
    """one ordered map per column family; API v2 changes nothing but the checksum input (prefix)"""

    def __init__(self, spec):
        self.cfs = {}
        self.nonatomic = bool(spec.get("nonatomic"))
        self.pfx = b""
        if spec.get("api") == "v2":
            i = spec.get("ksid", 0)
            self.pfx = b"r" + bytes([(i >> 16) & 255, (i >> 8) & 255, i & 255])

    def cf(self, name):
        return self.cfs.setdefault(name, {})

    def expected(self, name, a, cf):
        m = self.cf(cf)
        if name == "put":
            m[unhx(a[0])] = unhx(a[1]); return "ok"
        if name == "get":
            return "ok " + optv(m.get(unhx(a[0])))
        if name == "ttl":
            return "err unsupported"     # mocktikv has no CmdGetKeyTTL (and stores no ttl)
        if name == "del":
            m.pop(unhx(a[0]), None); return "ok"
        if name == "bput":
            nk, nv, nt = len(lst(a[0])), len(lst(a[1])), (0 if a[2] == "." else len(lst(a[2])))
            if nk != nv or (nt > 0 and nk != nt):
                return "err args"      # refused before any request
            for k, v in zip(lst(a[0]), lst(a[1])):
                m[unhx(k)] = unhx(v)
            return "ok"
        if name == "bget":
            ks = lst(a[0])
            return "ok " + (",".join(optv(m.get(unhx(k))) for k in ks) if ks else ".")
        if name == "bdel":
            for k in lst(a[0]):
                m.pop(unhx(k), None)
            return "ok"
        if name == "drange":
            s, e = unhx(a[0]), unhx(a[1])
            for k in [k for k in m if in_range(k, s, e)]:
                del m[k]
            return "ok"
        if name in ("scan", "rscan") and int(a[2]) > 10240:
            return "err limit"        # ErrMaxScanLimitExceeded, before any request
        if name == "scan":
            s, e, limit = unhx(a[0]), unhx(a[1]), int(a[2])
            ks = sorted(k for k in m if in_range(k, s, e))[:limit]
            return "ok %s %s" % (hxs(ks), ",".join(optv(m[k]) for k in ks) if ks else ".")
        if name == "rscan":
            s, e, limit = unhx(a[0]), unhx(a[1]), int(a[2])
            if len(s) == 0:      # documented: ReverseScan from "" is not supported (returns nothing)
                return "ok . ."
            ks = sorted((k for k in m if e <= k < s), reverse=True)[:limit]
            return "ok %s %s" % (hxs(ks), ",".join(optv(m[k]) for k in ks) if ks else ".")
        if name == "cksum":
            m = self.cf("CF_DEFAULT")    # the request carries no column family; the mock reads CF_DEFAULT
            s, e = unhx(a[0]), unhx(a[1])
            x = n = b = 0
            for k in m:
                if in_range(k, s, e):
                    x ^= crc64(self.pfx + k + m[k]); n += 1; b += len(self.pfx) + len(k) + len(m[k])
            return "ok %x %d %d" % (x, n % 2**64, b % 2**64)
        if name == "cas":
            if self.nonatomic:
                return "err atomic"
            k, nv = unhx(a[0]), unhx(a[2])
            prev = None if a[1] == "N" else unhx(a[1][1:])
            cur = m.get(k)
            if cur == prev:
                m[k] = nv
                return "ok %s 1" % optv(cur)
            return "ok %s 0" % optv(cur)
        return "unknown-op"


def check_failed_call(ref, name, a, cf, lays, bats):
    """a batch put / batch delete / delete-range whose i-th request was answered with an error:
    the call reports the error, and what it leaves behind is what C11_batch_put_partial_failure /
    C11_batch_delete_partial_failure / C11_delete_range_interrupted allow. The reference map takes the
    effect of the requests that were served (observed at the wire)."""
    fails = []
    m = ref.cf(cf)
    if name == "bput":
        ks, vs = lst(a[0]), lst(a[1])
        last = {}
        for k, v in zip(ks, vs):
            last[unhx(k)] = unhx(v)
        for b in bats:
            for it in lst(b):
                k, v, _t = it.split(":")
                k, v = unhx(k), unhx(v)
                if k not in last or last[k] != v:     # every key: unchanged or ITS last value of this call
                    fails.append(("partial-batch-put-old-or-own-last-value", "", "served pair %s:%s" % (hx(k), hx(v))))
                m[k] = v
    elif name == "bdel":
        want = set(unhx(k) for k in lst(a[0]))
        for b in bats:
            for k in lst(b):
                if unhx(k) not in want:
                    fails.append(("partial-batch-delete-only-requested-keys", "", hx(unhx(k))))
                m.pop(unhx(k), None)
    elif name == "drange":
        s, e = unhx(a[0]), unhx(a[1])
        cur = s
        for b in bats:          # served requests delete [s,c1), [c1,c2), ...: a prefix of [s,e)
            bs, be = [unhx(x) for x in b.split(":")]
            if bs != cur or len(be) == 0 or not (cur < be) or (len(e) > 0 and be > e):
                fails.append(("interrupted-delete-range-is-a-prefix", "", "request [%s,%s) at cursor %s" % (hx(bs), hx(be), hx(cur))))
            for k in [k for k in m if bs <= k < be]:
                del m[k]
            cur = be
    return fails


def check_wire(ref, name, a, bats, wire):
    """request fields the store-side result cannot show: ttl / per-pair ttls aligned with the pairs in every
    served sub-batch, for_cas = atomic mode, key_only / reverse / remaining limit of scans, previous_not_exist"""
    fails = []
    atomic = "0" if ref.nonatomic else "1"
    for i, w in enumerate(wire):
        f = w.split(":")
        if f[0] == "put" and (f[1] != atomic or f[2] != a[2]):
            fails.append(("wire-put-ttl-and-for_cas", "put:%s:%s" % (atomic, a[2]), w))
        elif f[0] in ("del", "bdel") and f[1] != atomic:
            fails.append(("wire-for_cas", atomic, w))
        elif f[0] == "bput":
            items = lst(bats[i]) if i < len(bats) else []
            parts = items[0].split(":") if items else []
            if items and len(parts) != 3:
                # the i-th logged batch is not a batch-put batch (a request of ANOTHER call got into this call's log:
                # only possible when a call left requests behind): a wire mismatch, with the raw entries as evidence
                fails.append(("wire-batch-put-ttls-aligned-with-pairs", "a batch of key:value:ttl triples", "wire %s / batch %s" % (w, bats[i][:200])))
                continue
            first_ttl = parts[2] if items else "0"
            if len(f) < 5 or f[1] != atomic or f[3] != f[4] or int(f[4]) != len(items) or f[2] != first_ttl:
                fails.append(("wire-batch-put-ttls-aligned-with-pairs", "bput:%s:%s:%d:%d" % (atomic, first_ttl, len(items), len(items)), w))
        elif f[0] == "scan":
            if f[1] != a[3] or f[2] != ("1" if name == "rscan" else "0"):
                fails.append(("wire-scan-key_only-reverse", "scan:%s:%s" % (a[3], "1" if name == "rscan" else "0"), w))
        elif f[0] == "cas" and f[1] != ("1" if a[1] == "N" else "0"):
            fails.append(("wire-cas-previous_not_exist", a[1], w))
    sl = [int(w.split(":")[3]) for w in wire if w.startswith("scan:")]
    if sl and (sl[0] != int(a[2]) or any(x < y for x, y in zip(sl, sl[1:])) or min(sl) < 1):
        fails.append(("wire-scan-limit-is-the-remaining-limit", a[2], str(sl)))
    return fails


def check_op(ref, name, a, cf, lays, bats, impl, wire=()):
    """returns list of (oracle name, expected, detail) failures for one call"""
    fails = check_wire(ref, name, a, bats, wire)
    if "FAIL" in lays and name in ("put", "get", "del", "cas", "scan", "rscan", "cksum"):
        # a request answered by an application error or without a body: the call reports it and changes nothing
        exp = "err atomic" if (name == "cas" and ref.nonatomic) else "err injected"
        return fails + ([] if impl == exp else [("failed-request-surfaces-as-error", exp, impl)])
    if impl == "err injected" and "FAIL" in lays:
        return fails + check_failed_call(ref, name, a, cf, lays, bats)
    lays = [l for l in lays if l != "FAIL"]
    exp = ref.expected(name, a, cf)
    if name in ("scan", "rscan"):
        f = impl.split(" ")
        if exp.startswith("err"):
            return fails + ([] if impl == exp else [("scan-limit-error", exp, impl)])
        if f[0] != "ok" or len(f) != 3:
            return fails + [("call-succeeds", exp, "call failed: " + impl)]
        ks = [unhx(k) for k in lst(f[1])]
        s, e, limit, keyonly = unhx(a[0]), unhx(a[1]), int(a[2]), a[3] == "1"
        if len(ks) > limit:
            fails.append(("scan-at-most-limit", exp, "%d > %d" % (len(ks), limit)))
        if name == "scan":
            if any(not (x < y) for x, y in zip(ks, ks[1:])):
                fails.append(("scan-strictly-ascending", exp, f[1][:200]))
            if any(not in_range(k, s, e) for k in ks):
                fails.append(("scan-within-range", exp, f[1][:200]))
        else:
            if any(not (x > y) for x, y in zip(ks, ks[1:])):
                fails.append(("rscan-strictly-descending", exp, f[1][:200]))
            if any(not (e <= k < s) for k in ks):
                fails.append(("rscan-within-range", exp, f[1][:200]))
        ef = exp.split(" ")
        if f[1] != ef[1]:
            fails.append(("scan-first-limit-pairs-of-range", exp, "keys differ"))
        elif not keyonly and f[2] != ef[2]:   # the mock returns values for key-only scans too; not compared
            fails.append(("scan-values", exp, "values differ"))
        return fails
    if impl != exp:
        fails.append((name + "-equals-ordered-map", exp, "result differs"))
    # grouping admissibility for batch calls
    if name in ("bget", "bdel", "bput") and impl.startswith("ok"):
        got = []
        for i, b in enumerate(bats):
            items = lst(b)
            keys = [unhx(it.split(":")[0]) for it in items]
            got += items
            if name != "bdel" and i < len(lays):   # mock executes RawBatchDelete even on a region error
                lay = [unhx(x) for x in lst(lays[i])]
                if len(set(region_of(lay, k) for k in keys)) > 1:
                    fails.append(("batch-within-one-region", exp, "batch %s under layout %s" % (b[:200], lays[i])))
            # sub-batch limits (kvrpc.AppendKeyBatches: count > 512 is tested before adding => 513 keys;
            # AppendBatches: size >= 16 KB is tested before adding)
            if name in ("bget", "bdel") and len(keys) > 513:
                fails.append(("batch-at-most-513-keys", exp, "%d keys" % len(keys)))
            if name == "bput" and len(items) > 1:
                sz = sum(len(unhx(it.split(":")[0])) + len(unhx(it.split(":")[1])) for it in items[:-1])
                if sz >= 16384:
                    fails.append(("batch-put-below-16KB-before-last-pair", exp, "%d bytes before the last pair" % sz))
        if name == "bput":
            ks, vs, ts = lst(a[0]), lst(a[1]), (lst(a[2]) if a[2] != "." else None)
            last = {}
            for i, k in enumerate(ks):
                last[k] = (vs[i], ts[i] if ts else "0")
            want = sorted("%s:%s:%s" % (k, last[k][0], last[k][1]) for k in ks)
        else:
            want = sorted(lst(a[0]))
        if sorted(got) != want:
            fails.append(("batches-partition-the-request", exp, "sent %s want %s" % (str(sorted(got))[:300], str(want)[:300])))
    return fails


def parse_op(line):
    f = line.split("\t")
    ci = next(i for i, x in enumerate(f) if x.startswith("C="))
    args = f[4:ci]
    cf = f[ci][2:]
    li = ci + 1
    atomic = None
    if f[li].startswith("A="):
        atomic = f[li] == "A=1"; li += 1
    lays = f[li][2:].split(";") if f[li] != "L=none" else []
    bats = f[li + 1][2:].split(";") if f[li + 1] != "B=none" else []
    n = f[li + 2][2:].split(",")
    wire = f[li + 3][2:].split(";") if f[li + 3].startswith("W=") and f[li + 3] != "W=none" else []
    outlive = int(n[3]) if len(n) > 3 else 0
    return int(f[1]), int(f[2]), f[3], args, cf, lays, bats, (int(n[0]), int(n[1]), outlive), f[-1], wire, atomic


def check_history(h):
    """h = lines of one concurrent scenario: ['init', key, optv] / ['op', worker, inv, ret, kind, key, prev, new, '=>', result].
    Per key (registers are independent) search a linearization: Wing-Gong DFS with memoisation.
    Returns (failing history or None, number of ops)."""
    init, ops = {}, {}
    n = 0
    for f in h:
        if f[0] == "init":
            init[f[1]] = None if f[2] == "N" else unhx(f[2][1:])
        elif f[0] == "op":
            n += 1
            ops.setdefault(f[5], []).append((int(f[2]), int(f[3]), f[4], f[6], f[7], f[9]))
    for key, lst_ in ops.items():
        if any(o[5].startswith("err") or o[5].startswith("panic") for o in lst_):
            return ([key] + [list(map(str, o)) for o in lst_], n)

        def step(state, o):
            kind, prev, nv, res = o[2], o[3], o[4], o[5]
            if kind == "get":
                return state if res == "ok " + optv(state) else "BAD"
            if kind == "put":
                return unhx(nv)
            if kind == "del":
                return None
            want = None if prev == "N" else unhx(prev[1:])
            if state == want:
                return unhx(nv) if res == "ok %s true" % optv(state) else "BAD"
            return state if res == "ok %s false" % optv(state) else "BAD"
        seen = set()

        def dfs(rem, state):
            if not rem:
                return True
            keym = (rem, state)
            if keym in seen:
                return False
            seen.add(keym)
            minret = min(lst_[i][1] for i in rem)
            for i in rem:
                if lst_[i][0] < minret:       # may be linearized first: invoked before any other returned
                    ns = step(state, lst_[i])
                    if ns != "BAD" and dfs(rem - frozenset([i]), ns):
                        return True
            return False
        if not dfs(frozenset(range(len(lst_))), init.get(key)):
            return ([key, "init=" + optv(init.get(key))] + [list(map(str, o)) for o in lst_], n)
    return (None, n)


def crashed(v, exe, env, rc, out):
    """the process died (a panic in one of the client's worker goroutines cannot be recovered):
    attribute it by replaying the directed sequences one by one"""
    rcd, dout = vlib.sh([exe, "directed"], env=env, timeout=60)
    for dl in (dout.splitlines() if rcd == 0 else []):
        if not dl.startswith("{"):
            continue
        tf = tempfile.NamedTemporaryFile("w", suffix=".jsonl", delete=False)
        tf.write(dl + "\n"); tf.close()
        rc1, out1 = vlib.sh([exe, "replay", tf.name], env=env, timeout=300)
        if rc1 != 0:
            v.violation({"kind": "process-crash", "oracle": "call-returns", "case": {"seq": json.loads(dl)},
                         "impl": "process died rc=%d: %s" % (rc1, out1[:1200]),
                         "expected_by_ordered_map": "every call returns a result",
                         "what": "a rawkv.Client call crashed the process"})
            return
    v.violation({"kind": "harness", "correspondence": "RawKV driver", "error": "driver failed rc=%d: %s" % (rc, out[-1500:])}, has_input=False)


def truncate(spec, idx):
    s = dict(spec); s["ops"] = spec["ops"][:idx + 1]; return s


def main(tier, replay):
    t0 = time.time()
    v = Verdict(PID)
    cov = {"checker_cmd": "coq/mk.sh theories/RawKV/Props.vo (coqc 8.16.1, full .vo build) + Print Assumptions per theorem",
           "trusted_base": vlib.TRUSTED_BASE + [
               "modelled: sendReq / region cache / replica selection abstracted to 'the request is finally served by the region whose bounds were located' (checked per call: number of served RPCs = model iterations, batches lie inside one region of the serving layout)",
               "crc64-ECMA re-implemented in the OCaml and python drivers (digest is a parameter of the model)",
               "back-off sleeps virtualised by failpoint tikvclient/fastBackoffBySkipSleep"]}
    gate = vlib.coq_gate(PID, AREAS, PROPS)
    cov.update(obligations=gate["obligations"], discharged=gate["discharged"], theorems=gate["theorems"],
               axioms={k: a for k, a in gate["axioms"].items() if a})
    env = vlib.goenv(); env["VERIF_SEED"] = str(vlib.SEED); env["VERIF_TIER"] = tier
    okm, modelrun = vlib.build_model("RawKV")
    okg, exe = vlib.go_build("rawkv", roots=("ov_rawkv",))
    stats = {"ops": 0, "oracle_evals": 0, "classes": {}, "served_rpcs": 0, "region_errors": 0, "multi_region_calls": 0,
             "calls_with_region_error": 0}
    samples, distinct, fallback = [], set(), []
    oracle_fail, mism, conc_fail = [], [], []
    if not (okg and okm):
        v.violation({"kind": "harness-build", "correspondence": "RawKV driver/model build against the current tree",
                     "error": (exe if not okg else modelrun)}, has_input=False)
    else:
        chunks = [0] if (tier == "quick" or replay) else list(range(12))
        corpus = sorted(glob.glob(os.path.join(vlib.VERIF, "corpus", PID, "*.jsonl")))
        if not replay and corpus:
            # regression specs (one JSON sequence per line), replayed in every tier
            allc = tempfile.NamedTemporaryFile("w", suffix=".jsonl", delete=False)
            for cfile in corpus:
                allc.write(open(cfile).read().rstrip("\n") + "\n")
            allc.close()
            chunks = chunks + ["corpus"]
        specs = {}
        hist = {}
        for chunk in chunks:
            env["VERIF_CHUNK"] = str(chunk)
            cmd = [exe]
            if chunk == "corpus":
                cmd = [exe, "replay", allc.name]
            if replay:
                case = json.load(open(replay)).get("case", {})
                tf = tempfile.NamedTemporaryFile("w", suffix=".jsonl", delete=False)
                tf.write(json.dumps(case.get("seq", case)) + "\n"); tf.close()
                cmd = [exe, "replay", tf.name]
            rc, out = vlib.sh(cmd, env=env, timeout=1500)
            if rc != 0:
                crashed(v, exe, env, rc, out)
                break
            rc2, mout = vlib.sh([modelrun], inp=out, timeout=1500)
            if rc2 != 0:
                v.violation({"kind": "harness", "correspondence": "RawKV modelrun", "error": mout[-800:]}, has_input=False)
            ref = None
            for line in out.splitlines():
                if line.startswith("SEQ\t"):
                    f = line.split("\t", 2)
                    cur_spec = json.loads(f[2]); cur_key = (chunk, int(f[1])); ref = Ref(cur_spec)
                elif line.startswith("H\t"):
                    f = line.split("\t")
                    hist.setdefault((chunk, int(f[1])), []).append(f[2:])
                    if f[2] == "end":
                        stats["conc_scenarios"] = stats.get("conc_scenarios", 0) + 1
                        try:
                            bad = check_history(hist.pop((chunk, int(f[1]))))
                        except Exception as ex:
                            bad = (["unreadable history: %s: %s" % (type(ex).__name__, ex)], 0)
                        stats["conc_ops"] = stats.get("conc_ops", 0) + bad[1]
                        if bad[0]:
                            conc_fail.append((chunk, int(f[1]), bad[0]))
                elif line.startswith("OP\t"):
                    try:
                        sid, idx, name, args, cf, lays, bats, (nrpc, nerr, outlive), impl, wire, atomic = parse_op(line)
                    except Exception as ex:
                        ff = line.split("\t")
                        specs[(chunk, int(ff[1]))] = cur_spec
                        oracle_fail.append(((chunk, int(ff[1])), int(ff[2]), ff[3], "gate-log-of-the-call-is-well-formed", "a parsable OP line",
                                            ff[-1], "%s: %s" % (type(ex).__name__, ex), line))
                        continue
                    if atomic is not None:
                        ref.nonatomic = not atomic     # the atomic-mode field may change between calls
                    sid = (chunk, sid)
                    stats["ops"] += 1
                    stats["served_rpcs"] += len(lays); stats["region_errors"] += nerr
                    stats["multi_region_calls"] += 1 if len(lays) > 1 else 0
                    stats["calls_with_region_error"] += 1 if nerr else 0
                    cls = name + (":multi" if len(lays) > 1 else "") + (":rerr" if nerr else "") + (":failed" if "FAIL" in lays else "") \
                        + (":big" if len(line) > 4000 else "") + (":cf" if cf != "CF_DEFAULT" else "") \
                        + (":v2" if cur_spec.get("api") == "v2" else "") + (":nonatomic" if cur_spec.get("nonatomic") else "")
                    stats["classes"][cls] = stats["classes"].get(cls, 0) + 1
                    if nrpc:
                        distinct.add(hash((name, tuple(args), cf, tuple(lays), impl)))
                        if len(fallback) < 6:
                            fallback.append(line[:400])
                    if len(samples) < 6 and len(lays) > 1 and nerr and stats["ops"] % 7 == 0:
                        samples.append(line[:400])
                    try:
                        fails = check_op(ref, name, args, cf, lays, bats, impl, wire)
                    except Exception as ex:      # whatever a misbehaving tree makes the gate log must end as a verdict, not as a crash
                        fails = [("gate-log-of-the-call-is-well-formed", "a log line the oracles can read",
                                  "%s: %s in %s" % (type(ex).__name__, ex, line[:300]))]
                    if outlive:
                        # a returned call has no effect after its return: every request it started was cancelled or awaited
                        fails.append(("no-request-outlives-its-call", "0 requests in flight at return", "%d request(s) of the call still in flight when it returned" % outlive))
                    stats["oracle_evals"] += 1
                    for (oname, exp, detail) in fails:
                        specs[sid] = cur_spec
                        oracle_fail.append((sid, idx, name, oname, exp, impl, detail, line))
            mlines = 0
            for l in mout.splitlines():
                f = l.split("\t")
                if f[0] == "MISMATCH":
                    mism.append(((chunk, int(f[1])), int(f[2]), f[3], f[4], f[5]))
                elif f[0] == "STATS":
                    stats["model_ops"] = stats.get("model_ops", 0) + int(f[1].split("=")[1])
            # keep the specs of sequences with a model mismatch
            want = set(m[0] for m in mism if m[0][0] == chunk and m[0] not in specs)
            if want:
                for line in out.splitlines():
                    if line.startswith("SEQ\t"):
                        f = line.split("\t", 2)
                        if (chunk, int(f[1])) in want:
                            specs[(chunk, int(f[1]))] = json.loads(f[2])
            del out, mout
        if True:
            # --- verdicts
            seen = set()
            for (sid, idx, name, oname, exp, impl, detail, line) in oracle_fail:
                if (oname,) in seen or len(seen) >= 5:
                    continue
                seen.add((oname,))
                mm = [m for m in mism if m[0] == sid and m[1] == idx]
                v.violation({"kind": "property-oracle", "oracle": oname, "theorem": THEOREM_OF.get(name),
                             "case": {"seq": truncate(specs[sid], idx)}, "op_index": idx, "op": line,
                             "impl": impl, "expected_by_ordered_map": exp, "model": mm[0][3] if mm else "agrees-with-impl",
                             "detail": detail,
                             "what": "rawkv.Client result differs from the same operation on one ordered map"})
            for (chunk, sid, h) in conc_fail[:2]:
                v.violation({"kind": "property-oracle", "oracle": "concurrent-calls-linearizable", "theorem": "C11_cas_interleaving",
                             "case": {"history": h}, "impl": "no interleaving of the calls (respecting invoke/return order) gives these results on one map",
                             "expected_by_ordered_map": "some linearization exists",
                             "what": "concurrent CAS/get/put/delete callers on one rawkv.Client: history not linearizable"})
            bad_ops = set((s, i) for (s, i, *_r) in oracle_fail)
            rest = [m for m in mism if (m[0], m[1]) not in bad_ops]
            if rest and not oracle_fail:
                for m in rest[:3]:
                    v.violation({"kind": "correspondence", "correspondence": "RawKV model vs rawkv.Client on mocktikv",
                                 "theorem": THEOREM_OF.get(m[2]), "case": {"seq": truncate(specs[m[0]], m[1])},
                                 "op_index": m[1], "model": m[3], "impl": m[4],
                                 "what": "model and implementation disagree (result or number of served RPCs); no property-oracle failure among %d oracle evaluations" % stats["oracle_evals"]},
                                has_input=False)
            if stats.get("model_ops", stats["ops"]) != stats["ops"]:
                v.violation({"kind": "harness", "correspondence": "RawKV modelrun", "error": "model replayed %s of %d ops" % (stats.get("model_ops"), stats["ops"])}, has_input=False)
    if tier == "thorough" and gate["ok"]:
        okc, outc = vlib.coqchk(["Verif.RawKV.Props"])
        cov["coqchk"] = "ok" if okc else outc[-300:]
        if not okc:
            v.violation({"kind": "proof", "theorem_or_file": "coqchk Verif.RawKV.Props", "what": "coqchk rejects the compiled proofs: " + outc[-400:]}, has_input=False)
    if not gate["ok"]:
        v.violation({"kind": "proof", "theorem_or_file": gate["problems"], "what": "Coq obligations no longer check"}, has_input=False)
    if not samples:
        samples = fallback[:6]
    cov.update(evaluations=stats["ops"] + stats["oracle_evals"] + stats.get("conc_scenarios", 0), distinct_nontrivial=len(distinct),
               rule="random op sequences (put/get/del/batch put,get,del with duplicates/delete-range/scan/reverse scan/checksum/cas) over a small key pool whose keys double as split keys, bounds = pool keys, key+00, empty; split/merge/leader-transfer between calls and before the i-th RPC of a call (i<=4); sequence classes: plain, column families, sub-batching (600-1500 keys / 16 KB+ of pairs in one region, exact batch comparison after a cache warm-up), failing i-th request of batch put / batch delete / delete-range, API v2 on one region, non-atomic mode; directed sequences (CAS absent/empty, BatchGet absent/duplicate/deleted keys, never-written family, split+merge epochs, limits on borders, 513/514 keys, exactly 16384 bytes, failures mid-call) + corpus/C11 regression specs; concurrent CAS/get/put/delete callers with a linearizability search; distinct = distinct (op, args, family, serving layouts, result) with >= 1 RPC",
               samples=samples[:6], traces_validated_against_impl=stats["ops"], input_distribution=stats["classes"],
               served_rpcs=stats["served_rpcs"], region_errors_injected=stats["region_errors"],
               multi_region_calls=stats["multi_region_calls"], calls_with_region_error=stats["calls_with_region_error"],
               model_mismatches=len(mism), oracle_failures=len(oracle_fail) + len(conc_fail),
               concurrent_scenarios=stats.get("conc_scenarios", 0), concurrent_calls=stats.get("conc_ops", 0),
               corpus_files=[os.path.basename(c) for c in corpus])
    rc = v.finish()
    vlib.write_evidence(PID, cov, t0, violations=len(v.violations), level="proof",
                        assumptions=["one client, no concurrent writers during a call (the store is fixed while a call's partial requests run)",
                                     "a served request was answered by the region whose bounds the client located (epoch check of the store)",
                                     "Go's bytes.Compare = lex_cmp (C19 cross-check)",
                                     "ReverseScan from the empty start key is documented as unsupported (returns nothing): C11_reverse_scan_from_end"])
    return rc
