"""C16 commit side (loaded by checks/C16.py): whole pipelined transactions / direct resolve probes on the mock store
(quick + thorough) and whole pipelined transactions on tidb's unistore (thorough)."""
import os, json, random, hashlib
import vlib

ROOTS = ("ov_pipelined",)
KEYS = [b"k1", b"k2", b"k3", b"k35", b"k4", b"k5", b"k6", b"k7", b"k8", b"k9", b"k9\x00", b"m", b"m1"]


def hx(b):
    return b.hex()


def gen_case(r, cid, cls, uni=False):
    """cls: single (one key, one flush) | border (largest flushed key is a split key) | rand | grow (bounds grow over flushes) | probe"""
    pool = KEYS[: r.choice([5, 9, 13])]
    ops, pre = [], []
    if r.random() < 0.5:
        for k in r.sample(pool, r.randrange(1, 4)):
            pre.append([hx(k), hx(b"old" + k)])
    if cls == "single":
        k = r.choice(pool)
        ops = [["set", hx(k), hx(b"v1")], ["flush"]]
        splits = r.choice([[], [k], [r.choice(pool)], sorted(set(r.sample(pool, 2)))])
    elif cls in ("border", "probe"):
        ks = sorted(r.sample(pool, r.randrange(2, 5)))
        for k in r.sample(ks, len(ks)):
            ops.append(["set", hx(k), hx(b"v" + k)])
        ops.append(["flush"])
        others = [k for k in pool if k < ks[-1]]
        splits = sorted(set([ks[-1]] + r.sample(others, min(len(others), r.randrange(0, 3)))))
        if cls == "probe" and r.random() < 0.4:
            splits = sorted(set(r.sample(pool, r.randrange(0, 4))))
    else:
        nfl = r.randrange(1, 4)
        lo, hi = (len(pool) // 2, len(pool) // 2 + 1) if cls == "grow" else (0, len(pool))
        cur = set()
        for f in range(nfl):
            for _ in range(r.randrange(1, 5)):
                k = r.choice(pool[max(0, lo):hi] or pool)     # keys are re-flushed across generations
                cur.add(k)
                if r.random() < 0.2:
                    ops.append(["del", hx(k)])
                else:
                    ops.append(["set", hx(k), hx(bytes([118, r.randrange(48, 58), r.randrange(48, 58)]))])
                if r.random() < 0.35:
                    ops.append(["get", hx(r.choice(pool))])
                if r.random() < 0.15:
                    ops.append(["bget", [hx(x) for x in r.sample(pool, r.randrange(1, 4))]])
            if not cur:
                break
            ops.append(["flush"] if r.random() < 0.8 else ["flushnw"])
            cur = set()
            if cls == "grow":
                lo -= r.randrange(0, 3); hi += r.randrange(0, 3)
        if r.random() < 0.4:
            ops.append(["set", hx(r.choice(pool)), hx(b"tail")])   # left in the mutable buffer: flushed by Commit only
        ops.append(["bget", [hx(x) for x in pool[:6]]])
        splits = sorted(set(r.sample(pool, r.randrange(0, 4))))
    end = r.choice(["commit", "rollback"])
    rpc_splits = []
    if cls == "regroup":
        # a batch must be spread over several regions after a split the client has not seen: several keys per flush in one
        # (cached) region, re-written by later generations; splits between flushes and right before the i-th Flush RPC
        pool = KEYS[:10]
        splits = sorted(set(r.sample([KEYS[0], KEYS[9], b"k0"], r.randrange(0, 2))))
        ops, nfl = [], r.randrange(2, 5)
        free = [k for k in pool[1:] if k not in splits]
        for f in range(nfl):
            for k in r.sample(pool, r.randrange(3, 7)):
                ops.append(["del", hx(k)] if r.random() < 0.15 else ["set", hx(k), hx(bytes([103, 49 + f, r.randrange(48, 58)]))])
            if r.random() < 0.5:
                ops.append(["get", hx(r.choice(pool))])
            if f > 0 and free and r.random() < 0.6:
                sk = free.pop(r.randrange(len(free)))
                ops.append(["split", hx(sk)])
            ops.append(["flush"] if r.random() < 0.85 else ["flushnw"])
            for k in r.sample(pool, 2):
                ops.append(["get", hx(k)])
        ops.append(["bget", [hx(x) for x in pool]])
        for i in sorted(r.sample(range(1, 2 * nfl + 2), r.randrange(1, 3))):
            if free:
                rpc_splits.append([i, hx(free.pop(r.randrange(len(free))))])
        return {"id": cid, "class": cls, "mode": "txn", "splits": [hx(x) for x in splits], "pre": pre, "ops": ops, "end": end,
                "settle_ms": 2500, "rpc_splits": rpc_splits}
    return {"id": cid, "class": cls, "mode": "probe" if cls == "probe" else "txn", "splits": [hx(s) for s in splits],
            "pre": pre, "ops": ops, "end": end, "settle_ms": 2500}


def reference(case):
    """python reference of one transaction: reads inside (latest write, else committed pre value), final state,
    flushed generations as the model-independent expectation (used for oracles only)."""
    pre = {k: v for k, v in case["pre"]}
    truth = {}
    reads = []
    for op in case["ops"]:
        if op[0] == "set":
            truth[op[1]] = op[2]
        elif op[0] == "del":
            truth[op[1]] = None
        elif op[0] == "get":
            k = op[1]
            reads.append(truth[k] if k in truth else pre.get(k))
        elif op[0] == "bget":
            m = {}
            for k in op[1]:
                v = truth[k] if k in truth else pre.get(k)
                if v is not None:
                    m[k] = v
            reads.append(m)
    # generation i = i-th Flush(true) of the buffer; it is handed the writes since the previous one
    gens, cur = {}, {}
    for op in case["ops"] + ([["flush"]] if case["end"] == "commit" else []):
        if op[0] == "set":
            cur[op[1]] = op[2]
        elif op[0] == "del":
            cur[op[1]] = ""
        elif op[0] in ("flush", "flushnw"):
            gens[len(gens) + 1] = cur
            cur = {}
    case["_gens"] = gens
    if case["mode"] == "probe":
        truth = {op[1]: b"pv".hex() for op in case["ops"] if op[0] == "set"}
    final = dict(pre)
    if case["end"] == "commit":
        for k, v in truth.items():
            final[k] = v
    keys = set(pre) | set(truth)
    return reads, {k: final.get(k) for k in keys}


def model_lines(case):
    """the transaction as ops of the Pipelined model (no '=>' part: modelrun only replays and prints FINAL)"""
    L = ["CASE\t%s\t0\t0\t0" % case["id"]]
    for op in case["ops"]:
        if op[0] == "set":
            L.append("OP\tset\t%s\t%s" % (op[1], op[2]))
        elif op[0] == "del":
            L.append("OP\tdel\t%s" % op[1])
        elif op[0] == "flush":
            L += ["OP\tflush\t1\t0\t1", "OP\tflushwait\t1"]
        elif op[0] == "flushnw":
            L.append("OP\tflush\t1\t0\t1")
    if case["mode"] == "probe":
        L += ["OP\tflush\t1\t0\t1", "OP\tflushwait\t1"]
    elif case["end"] == "commit":
        L += ["OP\tflush\t1\t0\t1", "OP\tflushwait\t1"]
    else:
        L.append("OP\tflushwait\t1")
    L.append("END\t%s" % case["id"])
    return L


def locate(splits, k):
    return sum(1 for s in splits if bytes.fromhex(s) <= bytes.fromhex(k))


def audit(case, res, model_final, model_res, kind, v, stats):
    """oracles on the implementation (+ comparison with the model's bounds / flush log / resolved regions)"""
    cid = case["id"]
    fails = []
    if res.get("panic"):
        fails.append(("harness-panic", res["panic"]))
    reads, final = reference(case)
    errs = [r["err"] for r in (res.get("results") or []) if r.get("err")] + ([res["end_err"]] if res.get("end_err") else [])
    layout = res.get("regions") if kind == "mock" else res.get("region_splits")
    layout = case["splits"] if layout is None else layout
    if errs:
        fails.append(("no-unexpected-error", "; ".join(map(str, errs))[:300]))
    n = 0
    # C16_resolve_covers: no lock of the transaction remains, single outcome
    n += 1
    if res.get("locks_left"):
        fails.append(("C16_resolve_covers", "locks of the transaction left after %s ms: %s" % (res.get("settled_ms"), res["locks_left"])))
    got_final = {k: (None if val in ("nf", None) else val) for k, val in (res.get("final") or {}).items()}
    for k, exp in final.items():
        n += 1
        if got_final.get(k) != exp:
            fails.append(("C16_resolve_covers/uniform-outcome", "after %s key %s reads %s, expected %s" % (case["end"], k, got_final.get(k), exp)))
    # C16_flush_once on the wire: every Flush RPC carries the generation of the buffer flush that produced it
    if case["mode"] == "txn":
        gens = case["_gens"]
        cancelled = case["end"] == "rollback" and any(o[0] == "flushnw" for o in case["ops"])   # Rollback cancels a running flush
        seen_g = {}
        for f in res.get("flushes") or []:
            n += 1
            exp = gens.get(f["gen"])
            bad = [kv for kv in f["muts"] if exp is None or exp.get(kv[0]) != kv[1]]
            if bad:
                fails.append(("C16_flush_once/rpc-generation", "Flush RPC with generation %s carries %s; flush %s of the buffer held %s (generations of the buffer flushes: %s)"
                              % (f["gen"], bad[:3], f["gen"], exp, sorted(gens))))
            seen_g.setdefault(f["gen"], {}).update({k: val for k, val in f["muts"]})
        recs = [(f["gen"], frozenset(map(tuple, f["muts"]))) for f in res.get("flushes") or []]
        if any(m2 < m1 for i, (g1, m1) in enumerate(recs) for (g2, m2) in recs[i + 1:]):
            stats[kind + "_cases_with_regrouped_flush_batch"] = stats.get(kind + "_cases_with_regrouped_flush_batch", 0) + 1
        if not cancelled:
            for g, exp in gens.items():
                n += 1
                if exp and seen_g.get(g, {}) != exp and not any(b for b in fails if b[0].startswith("C16_flush_once")):
                    fails.append(("C16_flush_once/rpc-generation", "buffer flush %s held %s, Flush RPCs of that generation carried %s" % (g, exp, seen_g.get(g, {}))))
    if True:
        it = iter(reads)
        for op, r in zip(case["ops"], res.get("results", [])):
            if op[0] == "get":
                n += 1
                exp = next(it)
                if r.get("v") != exp:
                    fails.append(("C16_read_latest", "txn.Get(%s) returned %s, latest write / snapshot value is %s" % (op[1], r.get("v"), exp)))
            elif op[0] == "bget":
                n += 1
                exp = next(it)
                if (r.get("m") or {}) != exp:
                    fails.append(("C16_read_latest", "txn.BatchGet(%s) returned %s, expected %s" % (op[1], r.get("m"), exp)))
    # correspondence with the model (mock driver exposes bounds, Flush RPCs and ResolveLock targets)
    corr = []
    if kind == "mock" and model_final is not None:
        mps, mpe, mflushed, mflog = model_final
        if case["mode"] == "txn":
            if (res["pstart"] or "-") != mps or (res["pend"] or "-") != mpe:
                corr.append("bounds: implementation [%s, %s], model [%s, %s]" % (res["pstart"], res["pend"], mps, mpe))
            byg = {}
            for f in res["flushes"]:
                byg.setdefault(f["gen"], {}).update({k: (val or "_") for k, val in f["muts"]})
            mg = {}
            if mflog != "-":
                for e in mflog.split("|"):
                    g, _, b = e.partition(":")
                    mg[int(g)] = dict(x.split("=") for x in b.split(","))
            if (byg != mg) if not cancelled else any(not set(m.items()) <= set(mg.get(g, {}).items()) for g, m in byg.items()):
                corr.append("Flush RPCs per generation %s, model flush log %s" % (byg, mg))
        if model_res is not None and (res["pstart"] and res["pend"]):
            mset = set(model_res)
            iset = {locate(layout, s) if s else 0 for s in res["resolves"]}
            need = {locate(layout, k) for k in (mflushed.split(",") if mflushed != "-" else [])}
            n += 1
            if not need <= iset:
                fails.append(("C16_resolve_covers", "ResolveLock reached regions %s, flushed keys live in regions %s" % (sorted(iset), sorted(need))))
            if not iset <= mset:
                corr.append("ResolveLock sent to regions %s, model resolves %s" % (sorted(iset), sorted(mset)))
            if iset == mset:
                stats["resolve_sets_equal"] = stats.get("resolve_sets_equal", 0) + 1
    stats["commit_evals"] = stats.get("commit_evals", 0) + n
    seen = set()
    for name, what in fails:
        if name in seen:
            continue
        seen.add(name)
        stats["commit_oracle_failures"] = stats.get("commit_oracle_failures", 0) + 1
        if stats["commit_oracle_failures"] <= 4:
            v.violation({"kind": "property-oracle", "driver": "pipelinedtxn-" + kind, "oracle": name, "what": what, "case": case,
                         "implementation": res, "model": {"final": model_final, "resolved_regions": model_res}})
    if corr and not fails:
        stats["commit_model_mismatches"] = stats.get("commit_model_mismatches", 0) + 1
        if stats["commit_model_mismatches"] <= 3:
            v.violation({"kind": "correspondence", "driver": "pipelinedtxn-" + kind, "correspondence": "Pipelined model (bounds / flush log / run_on_range) vs txn.go callback + resolveFlushedLocks + range task",
                         "what": "; ".join(corr), "case": case, "implementation": res}, has_input=False)
    return not fails and not corr


def run_model(modelrun, cases, layouts):
    """-> {id: (pstart, pend, flushedkeys, flog)}, {id: [regions]} ; layouts: id -> split keys at the time of the resolve"""
    lines = []
    for c in cases:
        lines += model_lines(c)
    rc, out = vlib.sh([modelrun], inp="\n".join(lines) + "\n", timeout=600)
    finals = {}
    for l in out.splitlines():
        f = l.split("\t")
        if f[0] == "FINAL":
            finals[f[1]] = (f[2], f[3], f[6], f[7])
    rl = []
    for c in cases:
        fin = finals.get(c["id"])
        if fin and fin[0] != "-" and fin[1] != "-":
            rl.append("R\t%s\t%s\t%s\t%s\t%s" % (c["id"], ",".join(layouts.get(c["id"], c["splits"])) or "-", fin[0], fin[1], fin[2]))
    rc, out = vlib.sh([modelrun, "resolve"], inp="\n".join(rl) + "\n", timeout=600)
    regs = {}
    for l in out.splitlines():
        f = l.split("\t")
        if f[0] == "R":
            regs[f[1]] = [] if f[2] == "-" else [int(x) for x in f[2].split(",")]
            if f[5] != "1":
                regs[f[1] + "#uncovered"] = True
    return finals, regs


def run(tier, seed, v, stats, robj):
    okm, modelrun = vlib.build_model("Pipelined")
    okg, exe = vlib.go_build("pipelinedtxn", roots=ROOTS)
    if not (okm and okg):
        v.violation({"kind": "harness-build", "correspondence": "pipelinedtxn (mock store) driver / model build against the current tree",
                     "error": (exe if not okg else modelrun)}, has_input=False)
        return
    r = random.Random(seed * 104729 + 7)
    d = os.path.join(vlib.BUILD, "c16")
    os.makedirs(d, exist_ok=True)
    if robj and robj.get("driver", "").startswith("pipelinedtxn"):
        cases = [robj["case"]]
        kinds = [robj["driver"].split("-")[-1]]
    else:
        n = {"quick": 420, "thorough": 1500}.get(tier, 420)
        classes = ["single", "border", "rand", "grow", "probe", "regroup", "regroup"]
        cases = [gen_case(r, "m%d-%d" % (seed, i), classes[i % len(classes)]) for i in range(n)]
        kinds = ["mock"] + (["uni"] if tier == "thorough" else [])
    if "mock" in kinds:
        cf = os.path.join(d, "mock-%s-%d.json" % (tier, seed))
        json.dump(cases, open(cf, "w"))
        rc, out = vlib.sh([exe, cf], timeout=1200)
        results = {}
        for l in out.splitlines():
            if l.startswith("{"):
                try:
                    o = json.loads(l); results[o["id"]] = o
                except ValueError:
                    pass
        if rc != 0 or len(results) != len(cases):
            v.violation({"kind": "harness", "correspondence": "pipelinedtxn mock driver", "error": "rc=%d, %d/%d results: %s" % (rc, len(results), len(cases), out[-600:])}, has_input=False)
        else:
            finals, regs = run_model(modelrun, cases, {i: o.get("regions") or [] for i, o in results.items()})
            distinct = set()
            for c in cases:
                audit(c, results[c["id"]], finals.get(c["id"]), regs.get(c["id"]), "mock", v, stats)
                cl = stats.setdefault("classes", {})
                cl["commit-" + c["class"]] = cl.get("commit-" + c["class"], 0) + 1
                distinct.add(hashlib.sha1(json.dumps([c["splits"], c["ops"], c["end"], c["mode"]]).encode()).hexdigest())
            stats["commit_cases"] = stats.get("commit_cases", 0) + len(cases)
            stats["commit_nontrivial"] = stats.get("commit_nontrivial", 0) + len(distinct)
            stats["commit_samples"] = [json.dumps({k: c[k] for k in ("splits", "ops", "end", "mode")})[:300] for c in cases[:3]]
            stats["commit_rule"] = "mock store: seeded cases in classes single (one key, one flush) / border (largest flushed key = a region start) / rand / grow (bounds widen over several flushes) / regroup (keys re-flushed across generations, region splits between flushes and right before the i-th Flush RPC so that batches are regrouped after EpochNotMatch) / probe (direct Prewrite + CommitterProbe.ResolveFlushedLocks), 1-4 regions, commit or rollback; distinct = distinct (layout, ops, end, mode)"
    if "uni" in kinds:
        run_unistore(tier, seed, v, stats, robj, r)


def run_unistore(tier, seed, v, stats, robj, r):
    ok, exe = vlib.go_build("pipelineduni", pkg="./zz_verif_pipelined", module_dir=os.path.join(vlib.REPO, "integration_tests"),
                            roots=ROOTS, timeout=1500)
    if not ok:
        v.violation({"kind": "harness-build", "correspondence": "pipelined transactions on unistore (integration_tests module)", "error": exe}, has_input=False)
        return
    if robj and robj.get("driver") == "pipelinedtxn-uni":
        cases = [robj["case"]]
    else:
        classes = ["single", "border", "rand", "grow", "regroup", "regroup"]
        cases = [gen_case(r, "u%d-%d" % (seed, i), classes[i % len(classes)], uni=True) for i in range(320)]
    cf = os.path.join(vlib.BUILD, "c16", "uni-%d.json" % seed)
    json.dump(cases, open(cf, "w"))
    env = dict(os.environ); env["PIPELINED_CLOSE_PAR"] = "48"
    rc, out = vlib.sh([exe, cf], timeout=1500, env=env)
    results = {}
    for l in out.splitlines():
        if l.startswith("{"):
            try:
                o = json.loads(l); results[o["id"]] = o
            except ValueError:
                pass
    if rc != 0 or len(results) != len(cases):
        v.violation({"kind": "harness", "correspondence": "pipelined unistore driver", "error": "rc=%d, %d/%d results: %s" % (rc, len(results), len(cases), out[-600:])}, has_input=False)
        return
    for c in cases:
        audit(c, results[c["id"]], None, None, "uni", v, stats)
        cl = stats.setdefault("classes", {})
        cl["uni-" + c["class"]] = cl.get("uni-" + c["class"], 0) + 1
    stats["commit_cases"] = stats.get("commit_cases", 0) + len(cases)
    stats["commit_nontrivial"] = stats.get("commit_nontrivial", 0) + len({json.dumps([c["splits"], c["ops"], c["end"]]) for c in cases})
    stats["unistore_cases"] = len(cases)
