"""C16 commit side (loaded by checks/C16.py): whole pipelined transactions / direct resolve probes on the mock store
(quick + thorough) and whole pipelined transactions on tidb's unistore (thorough)."""
import os, json, random, hashlib
import vlib

ROOTS = ("ov_pipelined",)
KEYS = [b"k1", b"k2", b"k3", b"k35", b"k4", b"k5", b"k6", b"k7", b"k8", b"k9", b"k9\x00", b"m", b"m1"]


def hx(b):
    return b.hex()


def gen_case(r, cid, cls, uni=False):
    """cls: single (one key, one flush) | border (largest flushed key is a split key) | rand | grow (bounds grow over flushes) | probe"""
    pool = KEYS[: r.choice([5, 9, 13])]
    ops, pre = [], []
    if r.random() < 0.5:
        for k in r.sample(pool, r.randrange(1, 4)):
            pre.append([hx(k), hx(b"old" + k)])
    if cls == "single":
        k = r.choice(pool)
        ops = [["set", hx(k), hx(b"v1")], ["flush"]]
        splits = r.choice([[], [k], [r.choice(pool)], sorted(set(r.sample(pool, 2)))])
    elif cls in ("border", "probe"):
        ks = sorted(r.sample(pool, r.randrange(2, 5)))
        for k in r.sample(ks, len(ks)):
            ops.append(["set", hx(k), hx(b"v" + k)])
        ops.append(["flush"])
        others = [k for k in pool if k < ks[-1]]
        splits = sorted(set([ks[-1]] + r.sample(others, min(len(others), r.randrange(0, 3)))))
        if cls == "probe" and r.random() < 0.4:
            splits = sorted(set(r.sample(pool, r.randrange(0, 4))))
    else:
        nfl = r.randrange(1, 4)
        lo, hi = (len(pool) // 2, len(pool) // 2 + 1) if cls == "grow" else (0, len(pool))
        cur = set()
        for f in range(nfl):
            for _ in range(r.randrange(1, 5)):
                k = r.choice(pool[max(0, lo):hi] or pool)     # keys are re-flushed across generations
                cur.add(k)
                if r.random() < 0.2:
                    ops.append(["del", hx(k)])
                else:
                    ops.append(["set", hx(k), hx(bytes([118, r.randrange(48, 58), r.randrange(48, 58)]))])
                if r.random() < 0.35:
                    ops.append(["get", hx(r.choice(pool))])
                if r.random() < 0.15:
                    ops.append(["bget", [hx(x) for x in r.sample(pool, r.randrange(1, 4))]])
            if not cur:
                break
            ops.append(["flush"] if r.random() < 0.8 else ["flushnw"])
            cur = set()
            if cls == "grow":
                lo -= r.randrange(0, 3); hi += r.randrange(0, 3)
        if r.random() < 0.4:
            ops.append(["set", hx(r.choice(pool)), hx(b"tail")])   # left in the mutable buffer: flushed by Commit only
        ops.append(["bget", [hx(x) for x in pool[:6]]])
        splits = sorted(set(r.sample(pool, r.randrange(0, 4))))
    end = r.choice(["commit", "rollback"])
    rpc_splits = []
    if cls == "regroup":
        # a batch must be spread over several regions after a split the client has not seen: several keys per flush in one
        # (cached) region, re-written by later generations; splits between flushes and right before the i-th Flush RPC
        pool = KEYS[:10]
        splits = sorted(set(r.sample([KEYS[0], KEYS[9], b"k0"], r.randrange(0, 2))))
        ops, nfl = [], r.randrange(2, 5)
        free = [k for k in pool[1:] if k not in splits]
        for f in range(nfl):
            for k in r.sample(pool, r.randrange(3, 7)):
                ops.append(["del", hx(k)] if r.random() < 0.15 else ["set", hx(k), hx(bytes([103, 49 + f, r.randrange(48, 58)]))])
            if r.random() < 0.5:
                ops.append(["get", hx(r.choice(pool))])
            if f > 0 and free and r.random() < 0.6:
                sk = free.pop(r.randrange(len(free)))
                ops.append(["split", hx(sk)])
            ops.append(["flush"] if r.random() < 0.85 else ["flushnw"])
            for k in r.sample(pool, 2):
                ops.append(["get", hx(k)])
        ops.append(["bget", [hx(x) for x in pool]])
        for i in sorted(r.sample(range(1, 2 * nfl + 2), r.randrange(1, 3))):
            if free:
                rpc_splits.append([i, hx(free.pop(r.randrange(len(free))))])
        return {"id": cid, "class": cls, "mode": "txn", "splits": [hx(x) for x in splits], "pre": pre, "ops": ops, "end": end,
                "settle_ms": 2500, "rpc_splits": rpc_splits}
    if cls == "bgetsplit":
        # a region is split behind the client's back before a BatchGet of keys that are already flushed (only in the store
        # tier) and span several regions: the buffer-tier read is re-split after EpochNotMatch and must stay a buffer-tier read
        pool = KEYS[:10]
        splits = sorted(set(r.sample(pool[2:8], r.randrange(1, 3))))
        pre = [[hx(k), hx(b"old" + k)] for k in r.sample(pool, r.randrange(2, 6))]
        ops = []
        for k in r.sample(pool, r.randrange(5, 10)):
            ops.append(["del", hx(k)] if r.random() < 0.25 else ["set", hx(k), hx(b"new" + k)])
        ops.append(["flush"])
        free = [k for k in pool[1:] if k not in splits]
        for sk in r.sample(free, r.randrange(1, 3)):
            ops.append(["split", hx(sk)])
        ops.append(["bget", [hx(x) for x in pool]])
        for k in r.sample(pool, 3):
            ops.append(["get", hx(k)])
        if r.random() < 0.5:
            ops += [["set", hx(r.choice(pool)), hx(b"v2")], ["flush"], ["split", hx(r.choice([b"k0", b"k15", b"k55", b"k75"]))], ["bget", [hx(x) for x in pool]]]
        return {"id": cid, "class": cls, "mode": "txn", "splits": [hx(x) for x in splits], "pre": pre, "ops": ops, "end": end, "settle_ms": 2500}
    if cls == "refuse":
        # the store refuses exactly one (or two) of the batches of a flush with a KEY error (assertion failed / write conflict /
        # already exists) while the sibling batches are applied: the flush must fail, the transaction must not commit
        pool = KEYS[:10]
        splits = sorted(set(r.sample(pool[1:9], r.randrange(1, 4))))       # >= 2 regions
        ops, nfl = [], r.randrange(1, 4)
        for f in range(nfl):
            for k in r.sample(pool, r.randrange(5, 9)):
                ops.append(["del", hx(k)] if r.random() < 0.15 else ["set", hx(k), hx(bytes([114, 49 + f, r.randrange(48, 58)]))])
            if r.random() < 0.4:
                ops.append(["get", hx(r.choice(pool))])
            ops.append(["flush"])
        if r.random() < 0.4:
            ops.append(["set", hx(r.choice(pool)), hx(b"tail")])
        nrpc = (len(splits) + 1) * nfl
        refuse = [[r.randrange(1, nrpc + 2), r.choice(["assertion", "assertion", "assertion", "conflict", "exists"])]]
        if r.random() < 0.25:
            refuse.append([refuse[0][0] + 1, r.choice(["assertion", "conflict"])])
        return {"id": cid, "class": cls, "mode": "txn", "splits": [hx(x) for x in splits], "pre": pre, "ops": ops, "end": end,
                "settle_ms": 2500, "flush_refuse": refuse}
    if cls == "flags":
        # presumeKeyNotExists on fresh keys: Op_Insert; inserted and deleted in the same generation: Op_CheckNotExists (no lock);
        # the smallest key of the first generation is such a key, so the primary must be the next one
        pool = KEYS[:10]
        prekeys = {bytes.fromhex(k) for k, _ in pre}
        fresh = [k for k in pool if k not in prekeys]
        splits = sorted(set(r.sample(pool[1:], r.randrange(0, 3))))
        a = fresh[0]
        ops = [["insert", hx(a), hx(b"ia")], ["del", hx(a)]]
        used = {a}
        for k in r.sample(fresh[1:], min(len(fresh) - 1, r.randrange(1, 4))):
            used.add(k)
            ops.append(["insert", hx(k), hx(b"i" + k)])
            if r.random() < 0.3:
                ops.append(["del", hx(k)])
        plain = [k for k in pool if k not in used]
        for k in r.sample(plain, min(len(plain), r.randrange(0, 4))):     # none at all: a first generation of CheckNotExists only has
            ops.append(["set", hx(k), hx(b"s" + k)])                       # no primary and is refused by the client (observation O1)
        ops += [["get", hx(a)], ["flush"], ["get", hx(a)], ["bget", [hx(x) for x in pool[:6]]]]
        if r.random() < 0.6:
            ops += [["set", hx(a), hx(b"again")], ["flush"], ["get", hx(a)]]
        return {"id": cid, "class": cls, "mode": "txn", "splits": [hx(x) for x in splits], "pre": pre, "ops": ops, "end": end, "settle_ms": 2500}
    if cls in ("dynresolve", "insert", "primary", "crash"):
        pool = KEYS[:10]
        splits = sorted(set(r.sample(pool[1:], r.randrange(0, 4))))
        val = lambda f: hx(bytes([100 + f, r.randrange(48, 58), r.randrange(48, 58)]))
        ops, extra = [], {}
        if cls == "dynresolve":
            # the layout changes while the resolve runs: splits / merges right before the i-th ResolveLock RPC
            splits = sorted(set(r.sample(pool[1:], r.randrange(1, 4))))
            for f in range(r.randrange(1, 3)):
                for k in r.sample(pool, r.randrange(2, 7)):
                    ops.append(["del", hx(k)] if r.random() < 0.15 else ["set", hx(k), val(f)])
                ops.append(["flush"])
            ch = []
            for i in sorted(r.sample(range(1, 6), r.randrange(1, 4))):
                ch.append([i, r.choice(["split", "split", "merge"]), hx(r.choice(pool + [b"k0", b"k55", b"k8\x00"]))])
            extra["resolve_changes"] = ch
        elif cls == "insert":
            # Insert (presumeKeyNotExists) of a committed key: the store rejects the flush, the transaction must fail
            if not pre:
                pre = [[hx(pool[3]), hx(b"old")]]
            prekeys = [bytes.fromhex(k) for k, _ in pre]
            ins = r.choice(prekeys) if r.random() < 0.7 else r.choice([k for k in pool if k not in prekeys])
            others = [k for k in pool if k != ins]
            nfl, at = r.randrange(1, 4), None
            at = r.randrange(nfl)
            for f in range(nfl):
                for k in r.sample(others, r.randrange(1, 4)):
                    ops.append(["set", hx(k), val(f)])
                if f == at:
                    ops.insert(len(ops) - r.randrange(0, 2), ["insert", hx(ins), hx(b"new")])
                if r.random() < 0.4:
                    ops.append(["get", hx(r.choice(pool))])
                ops.append(["flush"])
        elif cls == "primary":
            # the primary (first flushed key) is deleted / overwritten by a later generation
            ks = sorted(r.sample(pool, r.randrange(2, 5)))
            for k in ks:
                ops.append(["set", hx(k), val(0)])
            ops.append(["flush"])
            ops.append(["del", hx(ks[0])] if r.random() < 0.6 else ["set", hx(ks[0]), val(1)])
            for k in r.sample(pool, r.randrange(0, 3)):
                ops.append(["set", hx(k), val(1)])
            ops.append(["get", hx(ks[0])])
            if r.random() < 0.5:
                free = [k for k in pool[1:] if k not in splits]
                ops.append(["split", hx(r.choice(free))])
            ops.append(["flush"])
            if r.random() < 0.4:
                ops += [["set", hx(ks[0]), val(2)], ["flush"]]
            ops.append(["get", hx(ks[0])])
        else:
            # the client disappears after k generations (optionally in the middle of one: the store stops answering Flush)
            for f in range(r.randrange(1, 4)):
                for k in r.sample(pool, r.randrange(1, 5)):
                    ops.append(["del", hx(k)] if r.random() < 0.15 else ["set", hx(k), val(f)])
                ops.append(["flush"])
            if r.random() < 0.4:
                ops.append(["set", hx(r.choice(pool)), val(9)])
            end = "crash"
            if r.random() < 0.4:
                extra["fail_flush_from"] = r.randrange(1, 5)
        c = {"id": cid, "class": cls, "mode": "txn", "splits": [hx(x) for x in splits], "pre": pre, "ops": ops, "end": end, "settle_ms": 2500}
        c.update(extra)
        return c
    return {"id": cid, "class": cls, "mode": "probe" if cls == "probe" else "txn", "splits": [hx(s) for s in splits],
            "pre": pre, "ops": ops, "end": end, "settle_ms": 2500}


def with_cancel(r, c):
    """the caller's Commit context: cancelled right after Commit returns / during the i-th background ResolveLock / never"""
    if c.get("mode") == "txn" and c.get("end") == "commit":
        x = r.random()
        if x < 0.4:
            c["cancel"] = "after"
        elif x < 0.6:
            c["cancel"], c["cancel_at_rpc"] = "rpc", r.randrange(1, 4)
    return c


def reference(case, res=None):
    """python reference of one transaction, independent of the Coq model. Returns a dict:
    reads   per get/bget op the expected result (None = not checked: after a failed flush)
    operr   per op: True = must report an error, False = must not, None = unspecified
    enderr  likewise for Commit/Rollback; final: committed value of every key afterwards
    gens    generation -> mutations the i-th buffer flush holds; sent: generations whose Flush RPCs are sent
    failed  a flush is expected to be rejected by the store (insert of an existing key)"""
    pre = {k: v for k, v in case["pre"]}
    inject = bool(case.get("fail_flush_from"))
    # store-side refusal of single batches (flush_refuse): which op saw one is observed (it depends on how the flush was batched)
    rs0 = (res or {}).get("results") or []
    refused_ops = {i for i, r in enumerate(rs0) if r.get("refused")}
    end_refused = bool((res or {}).get("end_refused"))
    truth, reads, operr = {}, [], []
    gens, sent, cur, cur_ins = {}, [], {}, set()
    gops = {}     # generation -> {key: op} with the flush callback's table (Put 0, Del 1, Insert 4, CheckNotExists 6)
    failed = False
    state = {"primary_set": False}

    def do_flush():
        nonlocal cur, cur_ins, failed
        g = len(gens) + 1
        gens[g] = cur
        gops[g] = {k: ((4 if k in cur_ins else 0) if val else (6 if k in cur_ins else 1)) for k, val in cur.items()}
        if not failed and cur:
            sent.append(g)
            # observation O1: while no primary is chosen, a generation without any lock-writing mutation is refused by the
            # client ("primary key should be set before pipelined flush"): a clean failure of the transaction
            if any(o != 6 for o in gops[g].values()):
                state["primary_set"] = True
            elif not state["primary_set"]:
                failed = True
        if not failed and any(k in pre for k in cur_ins):
            failed = True
        cur, cur_ins = {}, set()

    for opi, op in enumerate(case["ops"]):
        if op[0] in ("set", "insert"):
            truth[op[1]] = op[2]; cur[op[1]] = op[2]
            if op[0] == "insert":
                cur_ins.add(op[1])
            operr.append(False)
        elif op[0] == "del":
            truth[op[1]] = None; cur[op[1]] = ""
            operr.append(False)
        elif op[0] == "get":
            k = op[1]
            reads.append(None if failed or inject else ("v", truth[k] if k in truth else pre.get(k)))
            operr.append(None if failed or inject else False)
        elif op[0] == "bget":
            m = {}
            for k in op[1]:
                val = truth[k] if k in truth else pre.get(k)
                if val is not None:
                    m[k] = val
            reads.append(None if failed or inject else ("m", m))
            operr.append(None if failed or inject else False)
        elif op[0] == "flush":
            do_flush()
            if opi in refused_ops:
                failed = True           # a refused batch fails the flush although its siblings were applied
            operr.append(None if inject else failed)
        elif op[0] == "flushnw":
            was = failed
            do_flush()
            if opi in refused_ops:
                failed = True
            operr.append(None if inject or failed != was or failed else False)
        else:
            operr.append(False)
    enderr = None
    if case["end"] == "commit":
        do_flush()
        if end_refused:
            failed = True
        enderr = None if inject else failed
    elif case["end"] == "rollback":
        enderr = False
    if case["mode"] == "probe":
        truth = {op[1]: b"pv".hex() for op in case["ops"] if op[0] == "set"}
    final = dict(pre)
    if case["end"] == "commit" and not failed and not inject:
        for k, val in truth.items():
            final[k] = val
    keys = set(pre) | set(truth)
    return {"reads": reads, "operr": operr, "enderr": enderr, "final": {k: final.get(k) for k in keys}, "gens": gens,
            "sent": sent, "gops": gops, "failed": failed, "refused_ops": refused_ops, "end_refused": end_refused, "inject": inject, "final_checked": not (inject and case["end"] == "commit")}


def model_lines(case, ref, res=None):
    """the transaction as ops of the Pipelined model; flushwait lines carry the outcome python expects the client to
    report (compared by modelrun), the wait-outcome 0 marks the flush the store is expected to reject"""
    L = ["CASE\t%s\t0\t0\t0" % case["id"]]
    cmpr = not ref["inject"]
    failed, cur_ins, pre = False, set(), {k for k, _ in case["pre"]}
    mcur, mstate = {}, {"p": False}
    # keep-alive state observed after every flush op (compared with the model's tmrun), and at the flush the store rejected
    rs = (res or {}).get("results") or []
    tms = [r.get("ttl_running") for o, r in zip(case["ops"], rs) if o[0] == "flush"] if case["mode"] == "txn" else []
    tm_at_fail = False
    if ref["failed"] and any(e is True for e in ref["operr"]):
        i0 = ref["operr"].index(True)
        tm_at_fail = i0 < len(rs) and rs[i0].get("ttl_running") is True

    def fl(wait, opi=None):
        nonlocal failed, cur_ins
        rejects = (not failed) and ((opi in ref["refused_ops"]) or (opi is None and ref["end_refused"]) or any(k in pre for k in cur_ins) or (bool(mcur) and not mstate["p"] and all(k in cur_ins and not val for k, val in mcur.items())))
        if not failed and any(not (k in cur_ins and not val) for k, val in mcur.items()):
            mstate["p"] = True
        cur_ins = set(); mcur.clear()
        L.append("OP\tflush\t1\t0\t1")
        if rejects:
            failed = True
        if wait:
            if rejects and tm_at_fail:
                L.append("OP\ttmstart")      # the batch holding the primary had been acknowledged before the flush failed (observed)
            L.append("OP\tflushwait\t%s%s" % ("0" if rejects else "1", ("\t=>\t" + ("err" if failed else "ok")) if cmpr else ""))
            if cmpr and tms:
                t = tms.pop(0)
                if t is not None:
                    L.append("OP\ttm\t=>\t%d" % (1 if t else 0))
        elif rejects:
            L.append("OP\tcomplete\t0")
    for opi, op in enumerate(case["ops"]):
        if op[0] in ("set", "insert"):
            L.append("OP\t%s\t%s\t%s" % (op[0], op[1], op[2]))
            mcur[op[1]] = op[2]
            if op[0] == "insert":
                cur_ins.add(op[1])
        elif op[0] == "del":
            L.append("OP\tdel\t%s" % op[1])
            mcur[op[1]] = ""
        elif op[0] == "flush":
            fl(True, opi)
        elif op[0] == "flushnw":
            fl(False, opi)
    if case["mode"] == "probe" or case["end"] == "commit":
        tms = []
        fl(True)
    else:
        L.append("OP\tflushwait\t1")
    if case["mode"] == "txn" and case["end"] in ("commit", "rollback") and res is not None and cmpr:
        L += ["OP\tend", "OP\ttm\t=>\t%d" % (1 if res.get("ttl_running_end") else 0)]
    L.append("END\t%s" % case["id"])
    return L


def locate(splits, k):
    return sum(1 for s in splits if bytes.fromhex(s) <= bytes.fromhex(k))


def in_region(rg, k):
    kb = bytes.fromhex(k)
    return bytes.fromhex(rg[0] or "") <= kb and (rg[1] is None or kb < bytes.fromhex(rg[1]))


def audit(case, res, model, kind, v, stats):
    """oracles on the implementation (+ comparison with the model's bounds / primary / flush log / resolved regions)"""
    fails, corr, n = [], [], 0
    if res.get("panic"):
        fails.append(("harness-panic", res["panic"]))
    ref = reference(case, res)
    model_final, model_res, model_mism, model_served = model.get("final"), model.get("regions"), model.get("mismatch"), model.get("served")
    layout = res.get("regions") if kind == "mock" else res.get("region_splits")
    layout = case["splits"] if layout is None else layout
    dyn = bool(case.get("resolve_changes"))
    hole = False
    # errors: exactly where expected
    for idx, (op, exp, r) in enumerate(zip(case["ops"], ref["operr"], res.get("results") or [])):
        if exp is None:
            continue
        n += 1
        if bool(r.get("err")) != exp:
            fails.append(("C16_flush_error_fails_txn" if exp else "no-unexpected-error",
                          "op %d %s: %s" % (idx, op[0], ("expected an error (an earlier flush was rejected by the store), got none" if exp else "unexpected error " + str(r.get("err"))[:200]))))
    # the executor reports the error of one of the refused batches; an assertion failure only if nothing else was refused
    for idx, r in enumerate(res.get("results") or []):
        if r.get("refused") and r.get("err") and case["ops"][idx][0] == "flush":
            n += 1
            only_assert = all(c == "assertion" for c in r["refused"])
            if ("assertion failed" in r["err"]) != only_assert:
                fails.append(("C16_batch_refusal_fails_flush/error-class", "op %d flush: batches refused with %s, reported error %s" % (idx, r["refused"], r["err"][:120])))
    if ref["enderr"] is not None:
        n += 1
        if bool(res.get("end_err")) != ref["enderr"]:
            fails.append(("C16_flush_error_fails_txn" if ref["enderr"] else "no-unexpected-error",
                          "%s: %s" % (case["end"], "succeeded although a flush had failed" if ref["enderr"] else "unexpected error " + str(res.get("end_err"))[:200])))
    if res.get("gc_err"):
        fails.append(("C16_crash_recoverable", "second client could not resolve: " + res["gc_err"][:200]))
    # C16_resolve_covers / C16_crash_recoverable: no lock of the transaction remains, single outcome
    n += 1
    if res.get("locks_left"):
        fails.append(("C16_crash_recoverable" if case["end"] == "crash" else "C16_resolve_covers",
                      "locks of the transaction left after %s ms: %s" % (res.get("settled_ms"), res["locks_left"])))
    got_final = {k: (None if val in ("nf", None) else val) for k, val in (res.get("final") or {}).items()}
    if ref["final_checked"]:
        for k, exp in ref["final"].items():
            n += 1
            if got_final.get(k) != exp:
                fails.append(("C16_crash_recoverable/nothing-committed" if case["end"] == "crash" else "C16_resolve_covers/uniform-outcome",
                              "after %s key %s reads %s, expected %s" % (case["end"], k, got_final.get(k), exp)))
    cancelled = case["end"] in ("rollback", "crash") and any(o[0] == "flushnw" for o in case["ops"])   # Rollback cancels a running flush
    partial = cancelled or ref["failed"] or ref["inject"]
    if case["mode"] == "txn":
        # C16_flush_once on the wire: every Flush RPC carries the generation of the buffer flush that produced it
        gens = ref["gens"]
        seen_g = {}
        for f in res.get("flushes") or []:
            n += 1
            exp = gens.get(f["gen"])
            bad = [kv for kv in f["muts"] if exp is None or exp.get(kv[0]) != kv[1]]
            if bad:
                fails.append(("C16_flush_once/rpc-generation", "Flush RPC with generation %s carries %s; flush %s of the buffer held %s (generations of the buffer flushes: %s)"
                              % (f["gen"], bad[:3], f["gen"], exp, sorted(gens))))
            seen_g.setdefault(f["gen"], {}).update({k: val for k, val in f["muts"]})
            if f.get("ops") and exp is not None and not bad:
                n += 1
                wrong = [(kv[0], o, ref["gops"][f["gen"]].get(kv[0])) for kv, o in zip(f["muts"], f["ops"]) if ref["gops"][f["gen"]].get(kv[0]) != o]
                if wrong:
                    fails.append(("C16_flush_ops", "Flush RPC of generation %s: (key, op sent, op expected from the flags) %s" % (f["gen"], wrong[:3])))
        recs = [(f["gen"], frozenset(map(tuple, f["muts"]))) for f in res.get("flushes") or []]
        if any(m2 < m1 for i, (g1, m1) in enumerate(recs) for (g2, m2) in recs[i + 1:]):
            stats[kind + "_cases_with_regrouped_flush_batch"] = stats.get(kind + "_cases_with_regrouped_flush_batch", 0) + 1
        if not partial:
            for g, exp in gens.items():
                n += 1
                if exp and seen_g.get(g, {}) != exp and not any(b for b in fails if b[0].startswith("C16_flush_once")):
                    fails.append(("C16_flush_once/rpc-generation", "buffer flush %s held %s, Flush RPCs of that generation carried %s" % (g, exp, seen_g.get(g, {}))))
        # reads inside the transaction
        it = iter(ref["reads"])
        for op, r in zip(case["ops"], res.get("results", [])):
            if op[0] in ("get", "bget"):
                exp = next(it)
                if exp is None:
                    continue
                n += 1
                got = r.get("v") if exp[0] == "v" else (r.get("m") or {})
                if got != exp[1]:
                    fails.append(("C16_read_latest", "txn.%s(%s) returned %s, latest write / snapshot value is %s" % ("Get" if exp[0] == "v" else "BatchGet", op[1], got, exp[1])))
        if kind == "mock":
            n += 1
            if res.get("snapshot_reads_of_flushed"):
                fails.append(("C16_read_latest/rpc-kind", "snapshot-tier Get/BatchGet at the transaction's start ts asked for keys it has already flushed (must be read through BufferBatchGet): %s" % sorted(set(res["snapshot_reads_of_flushed"]))))
        if res.get("primary") is not None:
            # keep-alive of the primary lock runs once the primary is flushed, and stops with the transaction
            lockable = lambda g: sorted((k for k in gens[g] if ref["gops"][g][k] != 6), key=bytes.fromhex)
            first = next((g for g in ref["sent"] if lockable(g)), None)
            g = 0
            for op, r in zip(case["ops"], res.get("results", [])):
                if op[0] in ("flush", "flushnw"):
                    g += 1
                    if op[0] == "flush" and first is not None and g >= first and not r.get("err") and not ref["inject"]:
                        n += 1
                        if r.get("ttl_running") is not True:
                            fails.append(("ttl-keepalive", "after flush %d (primary flushed in generation %d) the ttl manager is not running" % (g, first)))
                    if op[0] == "flush" and first is not None and not ref["inject"] and r.get("lock_primaries") is not None:
                        n += 1
                        if not set(r["lock_primaries"]) <= {lockable(first)[0]}:
                            fails.append(("C16_crash_recoverable/primary", "after flush %d the transaction's locks point to primaries %s, the primary is %s" % (g, r["lock_primaries"], lockable(first)[0])))
            n += 1
            if res.get("ttl_running_end"):
                fails.append(("ttl-keepalive", "ttl manager still running after " + case["end"]))
            # primary = smallest key of the first generation that is sent; it never changes
            if first is not None and not ref["inject"]:
                n += 1
                exp_primary = lockable(first)[0]
                if res.get("primary") != exp_primary:
                    fails.append(("C16_crash_recoverable/primary", "primary key %s, first flushed key is %s" % (res.get("primary"), exp_primary)))
    # every flushed key lies in a region that answered a ResolveLock (layout may change while the resolve runs)
    flushed = sorted({k for g in ref["sent"] for k in ref["gens"][g]}) if case["mode"] == "txn" else sorted({o[1] for o in case["ops"] if o[0] == "set"})
    if res.get("served") is not None and case["end"] in ("commit", "rollback") and not ref["inject"] and not case.get("resolve_nil_at"):
        served = res.get("served") or []
        for k in flushed:
            n += 1
            if not any(in_region(rg, k) for rg in served):
                fails.append(("C16_resolve_covers_dynamic", "flushed key %s is in none of the regions that answered a ResolveLock: %s" % (k, served)))
                break
        if model_served is not None and model_served != all(any(in_region(rg, k) for rg in served) for k in flushed):
            corr.append("served_covers: model %s, python %s" % (model_served, not model_served))
    # correspondence with the model (mock driver exposes bounds, primary, Flush RPCs and ResolveLock targets)
    if kind == "mock" and model_final is not None and not ref["inject"] and not hole:
        mps, mpe, mflushed, mflog, mprimary = model_final
        if model_mism:
            corr.append("client-visible flush outcomes: " + "; ".join(model_mism[:3]))
        if case["mode"] == "txn":
            if (res["pstart"] or "-") != mps or (res["pend"] or "-") != mpe:
                corr.append("bounds: implementation [%s, %s], model [%s, %s]" % (res["pstart"], res["pend"], mps, mpe))
            if (res.get("primary") or "-") != mprimary:
                corr.append("primary: implementation %s, model %s" % (res.get("primary"), mprimary))
            byg = {}
            for f in res["flushes"]:
                byg.setdefault(f["gen"], {}).update({k: (val or "_") for k, val in f["muts"]})
            mg = {}
            if mflog != "-":
                for e in mflog.split("|"):
                    g, _, b = e.partition(":")
                    mg[int(g)] = dict(x.split("=") for x in b.split(","))
            if (byg != mg) if not partial else any(not set(m.items()) <= set(mg.get(g, {}).items()) for g, m in byg.items()):
                corr.append("Flush RPCs per generation %s, model flush log %s" % (byg, mg))
        if model_res is not None and (res["pstart"] and res["pend"]) and not dyn and case["end"] in ("commit", "rollback"):
            mset = set(model_res)
            iset = {locate(layout, s) if s else 0 for s in res["resolves"]}
            need = {locate(layout, k) for k in (mflushed.split(",") if mflushed != "-" else [])}
            n += 1
            if not need <= iset:
                fails.append(("C16_resolve_covers", "ResolveLock reached regions %s, flushed keys live in regions %s" % (sorted(iset), sorted(need))))
            if not iset <= mset:
                corr.append("ResolveLock sent to regions %s, model resolves %s" % (sorted(iset), sorted(mset)))
            if iset == mset:
                stats["resolve_sets_equal"] = stats.get("resolve_sets_equal", 0) + 1
    stats["commit_evals"] = stats.get("commit_evals", 0) + n
    if dyn and len(res.get("served") or []) and any(c[0] <= len(res["served"]) + 1 for c in case["resolve_changes"]):
        stats["cases_with_layout_change_during_resolve"] = stats.get("cases_with_layout_change_during_resolve", 0) + 1
    if ref["failed"]:
        stats["cases_with_store_rejected_flush"] = stats.get("cases_with_store_rejected_flush", 0) + 1
    seen = set()
    for name, what in fails:
        if name in seen:
            continue
        seen.add(name)
        stats["commit_oracle_failures"] = stats.get("commit_oracle_failures", 0) + 1
        if stats["commit_oracle_failures"] <= 4:
            v.violation({"kind": "property-oracle", "driver": "pipelinedtxn-" + kind, "oracle": name, "what": what, "case": case,
                         "implementation": res, "model": {"final": model_final, "resolved_regions": model_res}})
    if corr and not fails:
        stats["commit_model_mismatches"] = stats.get("commit_model_mismatches", 0) + 1
        if stats["commit_model_mismatches"] <= 3:
            v.violation({"kind": "correspondence", "driver": "pipelinedtxn-" + kind, "correspondence": "Pipelined model (bounds / primary / flush log / flush outcomes / run_on_range) vs txn.go callback + resolveFlushedLocks + range task",
                         "what": "; ".join(corr), "case": case, "implementation": res}, has_input=False)
    return not fails and not corr


def run_model(modelrun, cases, results):
    """-> {id: {"final": (pstart, pend, flushedkeys, flog, primary), "regions": [...], "mismatch": [...], "served": bool}}"""
    lines = []
    for c in cases:
        lines += model_lines(c, reference(c, results.get(c["id"])), results.get(c["id"]))
    rc, out = vlib.sh([modelrun], inp="\n".join(lines) + "\n", timeout=600)
    M = {c["id"]: {} for c in cases}
    for l in out.splitlines():
        f = l.split("\t")
        if f[0] == "FINAL" and f[1] in M:
            M[f[1]]["final"] = (f[2], f[3], f[6], f[7], f[8])
        elif f[0] == "MISMATCH" and f[1] in M:
            M[f[1]].setdefault("mismatch", []).append(" ".join(f[2:]))
    rl, sl = [], []
    for c in cases:
        fin = M[c["id"]].get("final")
        res = results.get(c["id"]) or {}
        if fin and fin[0] != "-" and fin[1] != "-":
            rl.append("R\t%s\t%s\t%s\t%s\t%s" % (c["id"], ",".join(res.get("regions") or c["splits"]) or "-", fin[0], fin[1], fin[2]))
        if fin and res.get("served"):
            ref = reference(c, res)
            flushed = sorted({k for g in ref["sent"] for k in ref["gens"][g]}) if c["mode"] == "txn" else sorted({o[1] for o in c["ops"] if o[0] == "set"})
            sv = ";".join("%s:%s" % (a or "-", "~" if b is None else b) for a, b in res["served"])
            if flushed:
                sl.append("S\t%s\t%s\t%s" % (c["id"], sv, ",".join(flushed)))
    rc, out = vlib.sh([modelrun, "resolve"], inp="\n".join(rl) + "\n", timeout=600)
    for l in out.splitlines():
        f = l.split("\t")
        if f[0] == "R":
            M[f[1]]["regions"] = [] if f[2] == "-" else [int(x) for x in f[2].split(",")]
    rc, out = vlib.sh([modelrun, "served"], inp="\n".join(sl) + "\n", timeout=600)
    for l in out.splitlines():
        f = l.split("\t")
        if f[0] == "S":
            M[f[1]]["served"] = f[2] == "1"
    return M


def run(tier, seed, v, stats, robj):
    okm, modelrun = vlib.build_model("Pipelined")
    okg, exe = vlib.go_build("pipelinedtxn", roots=ROOTS)
    if not (okm and okg):
        v.violation({"kind": "harness-build", "correspondence": "pipelinedtxn (mock store) driver / model build against the current tree",
                     "error": (exe if not okg else modelrun)}, has_input=False)
        return
    r = random.Random(seed * 104729 + 7)
    d = os.path.join(vlib.BUILD, "c16")
    os.makedirs(d, exist_ok=True)
    if robj and robj.get("driver", "").startswith("pipelinedtxn"):
        cases = [robj["case"]]
        kinds = [robj["driver"].split("-")[-1]]
    else:
        n = {"quick": 420, "thorough": 1500}.get(tier, 420)
        classes = ["single", "border", "rand", "grow", "probe", "regroup", "regroup", "dynresolve", "dynresolve", "insert", "primary", "crash", "bgetsplit", "bgetsplit", "flags", "refuse", "refuse"]
        cases = json.load(open(os.path.join(vlib.VERIF, "corpus", "C16", "directed_commit.json")))
        cases += [with_cancel(r, gen_case(r, "m%d-%d" % (seed, i), classes[i % len(classes)])) for i in range(n)]
        kinds = ["mock"] + (["uni"] if tier == "thorough" else [])
    if "mock" in kinds:
        results, rc, out = {}, 0, ""
        # a third of the cases run with config.EnableAsyncBatchGet (process-wide switch: separate invocation)
        for i, c in enumerate(cases):
            c.setdefault("async_batch_get", i % 3 == 2)
        for tag, part in (("sync", [c for c in cases if not c["async_batch_get"]]), ("async", [c for c in cases if c["async_batch_get"]])):
            if not part:
                continue
            cf = os.path.join(d, "mock-%s-%d-%s.json" % (tier, seed, tag))
            json.dump(part, open(cf, "w"))
            env = dict(os.environ); env["C16_ASYNC_BATCHGET"] = "1" if tag == "async" else "0"
            rc1, out1 = vlib.sh([exe, cf], timeout=1200, env=env)
            rc, out = rc or rc1, out + out1
            for l in out1.splitlines():
                if l.startswith("{"):
                    try:
                        o = json.loads(l); results[o["id"]] = o
                    except ValueError:
                        pass
        if rc != 0 or len(results) != len(cases):
            v.violation({"kind": "harness", "correspondence": "pipelinedtxn mock driver", "error": "rc=%d, %d/%d results: %s" % (rc, len(results), len(cases), out[-600:])}, has_input=False)
        else:
            M = run_model(modelrun, cases, results)
            distinct = set()
            for c in cases:
                audit(c, results[c["id"]], M.get(c["id"], {}), "mock", v, stats)
                cl = stats.setdefault("classes", {})
                cl["commit-" + c["class"]] = cl.get("commit-" + c["class"], 0) + 1
                distinct.add(hashlib.sha1(json.dumps([c["splits"], c["ops"], c["end"], c["mode"]]).encode()).hexdigest())
            stats["commit_cases"] = stats.get("commit_cases", 0) + len(cases)
            stats["commit_nontrivial"] = stats.get("commit_nontrivial", 0) + len(distinct)
            stats["commit_samples"] = [json.dumps({k: c[k] for k in ("splits", "ops", "end", "mode")})[:300] for c in cases[:3]]
            stats["commit_rule"] = "mock store: seeded cases in classes single (one key, one flush) / border (largest flushed key = a region start) / rand / grow (bounds widen over several flushes) / regroup (keys re-flushed across generations, region splits between flushes and right before the i-th Flush RPC so that batches are regrouped after EpochNotMatch) / probe (direct Prewrite + CommitterProbe.ResolveFlushedLocks), 1-4 regions, commit or rollback; distinct = distinct (layout, ops, end, mode)"
    if "uni" in kinds:
        run_unistore(tier, seed, v, stats, robj, r)


def run_unistore(tier, seed, v, stats, robj, r):
    ok, exe = vlib.go_build("pipelineduni", pkg="./zz_verif_pipelined", module_dir=os.path.join(vlib.REPO, "integration_tests"),
                            roots=ROOTS, timeout=1500)
    if not ok:
        v.violation({"kind": "harness-build", "correspondence": "pipelined transactions on unistore (integration_tests module)", "error": exe}, has_input=False)
        return
    if robj and robj.get("driver") == "pipelinedtxn-uni":
        cases = [robj["case"]]
    else:
        classes = ["single", "border", "rand", "grow", "regroup", "regroup", "dynresolve", "insert", "primary", "crash", "bgetsplit", "flags", "refuse"]
        cases = [with_cancel(r, gen_case(r, "u%d-%d" % (seed, i), classes[i % len(classes)], uni=True)) for i in range(330)]
        for c in cases:   # the unistore cluster handle offers no merge
            if c.get("resolve_changes"):
                c["resolve_changes"] = [x for x in c["resolve_changes"] if x[1] == "split"]
    cf = os.path.join(vlib.BUILD, "c16", "uni-%d.json" % seed)
    json.dump(cases, open(cf, "w"))
    env = dict(os.environ); env["PIPELINED_CLOSE_PAR"] = "48"
    rc, out = vlib.sh([exe, cf], timeout=1500, env=env)
    results = {}
    for l in out.splitlines():
        if l.startswith("{"):
            try:
                o = json.loads(l); results[o["id"]] = o
            except ValueError:
                pass
    if rc != 0 or len(results) != len(cases):
        v.violation({"kind": "harness", "correspondence": "pipelined unistore driver", "error": "rc=%d, %d/%d results: %s" % (rc, len(results), len(cases), out[-600:])}, has_input=False)
        return
    for c in cases:
        audit(c, results[c["id"]], {}, "uni", v, stats)
        cl = stats.setdefault("classes", {})
        cl["uni-" + c["class"]] = cl.get("uni-" + c["class"], 0) + 1
    stats["commit_cases"] = stats.get("commit_cases", 0) + len(cases)
    stats["commit_nontrivial"] = stats.get("commit_nontrivial", 0) + len({json.dumps([c["splits"], c["ops"], c["end"]]) for c in cases})
    stats["unistore_cases"] = len(cases)
