"""C01, resolver status cache: LockResolver.getTxnStatus (memo: saveResolved / getResolved, TxnStatus.StatusCacheable) driven
across calls by the Go driver `sistatus` (own overlay root ov_si) and predicted by the extracted Coq model
SI.Model.get_txn_status (theorems C01_memo_glue, C01_cacheable_spec; store side C01_status_cacheable_final, C01_memo_agrees,
C01_memo_same_history). Oracle on the implementation alone: a call answered without a request returns a status that an
earlier call for that transaction returned and that was final (committed, or rolled back with a rollback action); a
non-final answer (LockNotExistDoNothing, TTLExpirePessimisticRollback, MinCommitTSPushed, a live ttl) is never memoised."""
import subprocess, itertools
import vlib

ANSWERS = [(ttl, c, a) for ttl in (0, 5) for c in (0, 7) for a in range(6)]


def final(ttl, c, a):
    return c > 0 or (ttl == 0 and c == 0 and a in (0, 1, 2))


def sequences(rng, tier):
    seqs = []
    for x, y in itertools.product(ANSWERS, ANSWERS):           # exhaustive: two calls for one transaction
        seqs.append([(1,) + x, (1,) + y])
    for _ in range(300 if tier == "quick" else 4000):           # several transactions, longer
        seqs.append([(rng.randrange(1, 4),) + rng.choice(ANSWERS) for _ in range(rng.randrange(3, 9))])
    return seqs


def run(exe, lines):
    out = subprocess.run([exe], input="\n".join(lines) + "\n", capture_output=True, text=True, timeout=600)
    if out.returncode != 0:
        return None, out.stderr[-400:]
    return out.stdout.splitlines(), None


def oracle(seq, answers):
    """answers: list of (ttl, commit, action, rpc, cacheable, committed, rolledback) per call"""
    bad = []
    seen = {}
    for i, (call, ans) in enumerate(zip(seq, answers)):
        txn = call[0]
        ttl, c, a, rpc = ans[:4]
        if rpc == 0:
            if not any(p[:3] == (ttl, c, a) and final(*p[:3]) for p in seen.get(txn, [])):
                bad.append(f"call {i}: txn {txn} answered from the cache with ttl={ttl} commit={c} action={a}, which no earlier final answer for it justifies")
        else:
            if any(final(*p[:3]) for p in seen.get(txn, [])):
                bad.append(f"call {i}: txn {txn} had a final status but the request was sent again")     # not a safety matter; the memo is part of the modelled glue
        if bool(ans[4]) != final(ttl, c, a):
            bad.append(f"call {i}: StatusCacheable={ans[4]} for ttl={ttl} commit={c} action={a}")
        seen.setdefault(txn, []).append((ttl, c, a))
    return bad


def differential(v, cov, mexe, rng, tier):
    okg, gexe = vlib.go_build("sistatus", roots=("ov_si",))
    if not okg:
        v.violation({"kind": "harness-build", "correspondence": "sistatus driver build against the current tree", "error": gexe}, has_input=False)
        return
    seqs = sequences(rng, tier)
    enc = [",".join("%d:%d:%d:%d" % c for c in s) for s in seqs]
    gout, err = run(gexe, [f"q{i} {e}" for i, e in enumerate(enc)])
    mout, err2 = run(mexe, [f"S q{i} {e}" for i, e in enumerate(enc)])
    if gout is None or mout is None:
        v.violation({"kind": "harness", "correspondence": "sistatus / modelrun run", "error": err or err2}, has_input=False)
        return
    g = {l.split(" ")[0]: l.split(" ")[1] for l in gout if l and not l.startswith("[") and " " in l}
    m = {l.split(" ")[1]: l.split(" ")[2] for l in mout if l.startswith("S ")}
    nbad = ndiff = 0
    for i, s in enumerate(seqs):
        key = f"q{i}"
        ga = g.get(key, "")
        try:
            answers = [tuple(int(x) for x in a.split(".")) for a in ga.split(",")]
            bad = oracle(s, answers) if len(answers) == len(s) else [f"driver answered {ga!r}"]
        except ValueError:
            bad = [f"driver answered {ga!r}"]
        if bad:
            nbad += 1
            if nbad <= 3:
                v.violation({"kind": "property-oracle", "theorem": "C01_status_cacheable_final / C01_memo_glue", "input": {"calls (txn, lock_ttl, commit_version, action)": s},
                             "implementation": ga, "model": m.get(key), "violated": bad[:4]})
        elif ga != m.get(key):
            ndiff += 1
            if ndiff <= 3:
                v.violation({"kind": "model-differential", "correspondence": "LockResolver.getTxnStatus vs extracted SI.Model.get_txn_status", "input": s,
                             "implementation": ga, "model": m.get(key)}, has_input=False)
    cov.update(status_cache_sequences=len(seqs), status_cache_calls=sum(len(s) for s in seqs), status_cache_oracle_failures=nbad, status_cache_model_mismatches=ndiff)
