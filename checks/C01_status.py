"""C01, resolver status cache: LockResolver.getTxnStatus (memo: saveResolved / getResolved, TxnStatus.StatusCacheable) driven
across calls by the Go driver `sistatus` (own overlay root ov_si) and predicted by the extracted Coq model
SI.Model.get_txn_status (theorems C01_memo_glue, C01_cacheable_spec; store side C01_status_cacheable_final, C01_memo_agrees,
C01_memo_same_history). Oracle on the implementation alone: a call answered without a request returns a status that an
earlier call for that transaction returned and that was final (committed, or rolled back with a rollback action); a
non-final answer (LockNotExistDoNothing, TTLExpirePessimisticRollback, MinCommitTSPushed, a live ttl) is never memoised."""
import subprocess, itertools
import vlib

ANSWERS = [(ttl, c, a) for ttl in (0, 5) for c in (0, 7) for a in range(6)]


def final(ttl, c, a):
    return c > 0 or (ttl == 0 and c == 0 and a in (0, 1, 2))


def sequences(rng, tier):
    seqs = []
    for x, y in itertools.product(ANSWERS, ANSWERS):           # exhaustive: two calls for one transaction
        seqs.append([(1,) + x, (1,) + y])
    for _ in range(300 if tier == "quick" else 4000):           # several transactions, longer
        seqs.append([(rng.randrange(1, 4),) + rng.choice(ANSWERS) for _ in range(rng.randrange(3, 9))])
    return seqs


def run(exe, lines):
    out = subprocess.run([exe], input="\n".join(lines) + "\n", capture_output=True, text=True, timeout=600)
    if out.returncode != 0:
        return None, out.stderr[-400:]
    return out.stdout.splitlines(), None


def oracle(seq, answers):
    """answers: list of (ttl, commit, action, rpc, cacheable, committed, rolledback) per call"""
    bad = []
    seen = {}
    for i, (call, ans) in enumerate(zip(seq, answers)):
        txn = call[0]
        ttl, c, a, rpc = ans[:4]
        if rpc == 0:
            if not any(p[:3] == (ttl, c, a) and final(*p[:3]) for p in seen.get(txn, [])):
                bad.append(f"call {i}: txn {txn} answered from the cache with ttl={ttl} commit={c} action={a}, which no earlier final answer for it justifies")
        else:
            if any(final(*p[:3]) for p in seen.get(txn, [])):
                bad.append(f"call {i}: txn {txn} had a final status but the request was sent again")     # not a safety matter; the memo is part of the modelled glue
        if bool(ans[4]) != final(ttl, c, a):
            bad.append(f"call {i}: StatusCacheable={ans[4]} for ttl={ttl} commit={c} action={a}")
        seen.setdefault(txn, []).append((ttl, c, a))
    return bad


AGE_MS = 10000          # the driver puts the lock's start ts this far in the past; keep in step with ocaml/si/driver.ml
TTLS = (0, 1, 3600000)  # TTL-0 protocol / expired / alive


def lock_sequences(rng, tier):
    """mode L: calls (txn, pess, ttl, script) on one resolver; script items are answers or "nf" (TxnNotFound). The store's
    contract is respected: TxnNotFound is never the answer to a request with rollback_if_not_exist (so an expired lock sees
    at most one), and every script ends with a status answer that is reached."""
    def max_nf(pess, ttl):
        return 1 if (ttl <= AGE_MS or pess) else 2
    seqs = []
    for pess in (0, 1):
        for ttl in TTLS:
            for k in range(max_nf(pess, ttl) + 1):
                for x in ANSWERS:
                    seqs.append([(1, pess, ttl, ["nf"] * k + [x]), (1, pess, ttl, [(0, 7, 0)])])
    for _ in range(150 if tier == "quick" else 3000):
        seq = []
        for _ in range(rng.randrange(2, 5)):
            pess, ttl = rng.randrange(2), rng.choice(TTLS)
            seq.append((rng.randrange(1, 4), pess, ttl, ["nf"] * rng.randrange(max_nf(pess, ttl) + 1) + [rng.choice(ANSWERS)]))
        seqs.append(seq)
    return seqs


def enc_lock_seq(seq):
    return ",".join("%d;%d;%d;%s" % (t, p, ttl, "/".join("nf" if a == "nf" else "%d:%d:%d" % a for a in sc) or "-") for t, p, ttl, sc in seq)


def lock_oracle(seq, line):
    """oracle on the implementation's answers alone"""
    bad = []
    calls = line.split(",")
    if len(calls) != len(seq):
        return [f"driver answered {line!r}"]
    finals = {}
    for i, ((txn, pess, ttl, sc), ans) in enumerate(zip(seq, calls)):
        res, _, reqs = ans.partition("|")
        reqs = [tuple(int(x) for x in r.split(".")) for r in reqs.split("/") if r]
        for j, (rine, curmax, rp) in enumerate(reqs):
            if rine and not (ttl <= AGE_MS and j > 0 and sc[j - 1] == "nf"):
                bad.append(f"call {i} request {j}: rollback_if_not_exist for a lock that has not expired / without a preceding TxnNotFound")
            if bool(curmax) != (ttl == 0):
                bad.append(f"call {i} request {j}: current_ts max = {curmax} for lock ttl {ttl}")
            if rp != pess:
                bad.append(f"call {i} request {j}: resolving_pessimistic_lock = {rp} for a lock with pessimistic = {pess}")
        if res in ("err", "hang"):
            bad.append(f"call {i}: getTxnStatusFromLock answered {res} although the script ends with a status answer")
        else:
            st = tuple(int(x) for x in res.split("."))
            if not reqs:
                if st not in finals.get(txn, set()):
                    bad.append(f"call {i}: txn {txn} answered {st} without a request, no earlier final status justifies it")
            else:
                consumed = sc[len(reqs) - 1] if len(reqs) <= len(sc) else None
                if consumed == "nf":
                    # answered without a status from the store: only "alive with its own TTL" for a live pessimistic lock
                    if not (pess and ttl > AGE_MS and st == (ttl, 0, 0)):
                        bad.append(f"call {i}: status {st} made up after TxnNotFound (pessimistic={pess}, lock ttl {ttl})")
                else:
                    view = None if consumed is None else ((consumed[0], 0, consumed[2]) if consumed[0] != 0 else consumed)
                    if st != view:
                        bad.append(f"call {i}: status {st} is not the store's last answer {consumed}")
            if final(*st):
                finals.setdefault(txn, set()).add(st)
    return bad


def differential(v, cov, mexe, rng, tier):
    okg, gexe = vlib.go_build("sistatus", roots=("ov_si",))
    if not okg:
        v.violation({"kind": "harness-build", "correspondence": "sistatus driver build against the current tree", "error": gexe}, has_input=False)
        return
    seqs = sequences(rng, tier)
    enc = [",".join("%d:%d:%d:%d" % c for c in s) for s in seqs]
    gout, err = run(gexe, [f"q{i} {e}" for i, e in enumerate(enc)])
    mout, err2 = run(mexe, [f"S q{i} {e}" for i, e in enumerate(enc)])
    if gout is None or mout is None:
        v.violation({"kind": "harness", "correspondence": "sistatus / modelrun run", "error": err or err2}, has_input=False)
        return
    g = {l.split(" ")[0]: l.split(" ")[1] for l in gout if l and not l.startswith("[") and " " in l}
    m = {l.split(" ")[1]: l.split(" ")[2] for l in mout if l.startswith("S ")}
    nbad = ndiff = 0
    for i, s in enumerate(seqs):
        key = f"q{i}"
        ga = g.get(key, "")
        try:
            answers = [tuple(int(x) for x in a.split(".")) for a in ga.split(",")]
            bad = oracle(s, answers) if len(answers) == len(s) else [f"driver answered {ga!r}"]
        except ValueError:
            bad = [f"driver answered {ga!r}"]
        if bad:
            nbad += 1
            if nbad <= 3:
                v.violation({"kind": "property-oracle", "theorem": "C01_status_cacheable_final / C01_memo_glue", "input": {"calls (txn, lock_ttl, commit_version, action)": s},
                             "implementation": ga, "model": m.get(key), "violated": bad[:4]})
        elif ga != m.get(key):
            ndiff += 1
            if ndiff <= 3:
                v.violation({"kind": "model-differential", "correspondence": "LockResolver.getTxnStatus vs extracted SI.Model.get_txn_status", "input": s,
                             "implementation": ga, "model": m.get(key)}, has_input=False)
    # mode L: getTxnStatusFromLock (TxnNotFound handling, rollback_if_not_exist escalation, TTL-0 protocol, pessimistic shortcut)
    lseqs = lock_sequences(rng, tier)
    lenc = [enc_lock_seq(q) for q in lseqs]
    gl, err = run(gexe, [f"L l{i} {e}" for i, e in enumerate(lenc)])
    ml, err2 = run(mexe, [f"L l{i} {e}" for i, e in enumerate(lenc)])
    if gl is None or ml is None:
        v.violation({"kind": "harness", "correspondence": "sistatus / modelrun run (mode L)", "error": err or err2}, has_input=False)
        return
    gd = {l.split(" ")[1]: l.split(" ")[2] for l in gl if l.startswith("L ") and len(l.split(" ")) == 3}
    md = {l.split(" ")[1]: l.split(" ")[2] for l in ml if l.startswith("L ") and len(l.split(" ")) == 3}
    lbad = ldiff = 0
    for i, q in enumerate(lseqs):
        key = f"l{i}"
        ga = gd.get(key, "")
        try:
            bad = lock_oracle(q, ga)
        except (ValueError, IndexError):
            bad = [f"driver answered {ga!r}"]
        if bad:
            lbad += 1
            if lbad <= 3:
                v.violation({"kind": "property-oracle", "theorem": "C01_status_from_lock", "input": {"calls (txn, pessimistic, lock ttl ms, script of answers (lock_ttl, commit_version, action) | nf)": q, "lock age ms": AGE_MS},
                             "implementation": ga, "model": md.get(key), "violated": bad[:4]})
        elif ga != md.get(key):
            ldiff += 1
            if ldiff <= 3:
                v.violation({"kind": "model-differential", "correspondence": "LockResolver.getTxnStatusFromLock vs extracted SI.Model.status_from_lock", "input": q,
                             "implementation": ga, "model": md.get(key)}, has_input=False)
    cov.update(status_from_lock_sequences=len(lseqs), status_from_lock_calls=sum(len(q) for q in lseqs), status_from_lock_oracle_failures=lbad, status_from_lock_model_mismatches=ldiff)
    cov.update(status_cache_sequences=len(seqs), status_cache_calls=sum(len(s) for s in seqs), status_cache_oracle_failures=nbad, status_cache_model_mismatches=ndiff)
