"""C19 — memcomparable codecs. Proof: coq/theories/Codec/Props.v. Correspondence: Go driver
(overlay internal/zz_verif/codec) vs extracted model (ocaml/codec) on generated inputs; property
oracles evaluated on the implementation by the driver itself (P lines)."""
import os, time, json, subprocess
import vlib
from vlib import Verdict

PID = "C19"
PROPS = [("theories/Codec/Props.v", "Codec.Props")]
AREAS = ["theories/Base", "theories/Codec"]


def run_pipeline(exe, modelrun, env, replay_case=None):
    if replay_case:
        rc, out = vlib.sh([exe, "replay"] + replay_case, env=env, timeout=60)
        lines = out
    else:
        rc, lines = vlib.sh([exe], env=env, timeout=1200)
    if rc != 0:
        return None, "driver failed rc=%d: %s" % (rc, lines[-500:])
    rc, cmp_out = vlib.sh([modelrun], inp=lines, timeout=1200)
    if rc != 0:
        return None, "modelrun failed: " + cmp_out[-500:]
    return (lines, cmp_out), None


def main(tier, replay):
    t0 = time.time()
    v = Verdict(PID)
    cov = {"checker_cmd": "coq/mk.sh theories/Codec/Props.vo (coqc 8.16.1, full .vo build) + Print Assumptions per theorem",
           "trusted_base": vlib.TRUSTED_BASE + ["modelled: encoding/binary's LEB128 loops (written out in the model), uint64/int64 wrap-around as explicit mod 2^64 / sign-mask arithmetic"]}
    gate = vlib.coq_gate(PID, AREAS, PROPS)
    cov.update(obligations=gate["obligations"], discharged=gate["discharged"], theorems=gate["theorems"],
               axioms={k: a for k, a in gate["axioms"].items() if a})
    proof_broken = not gate["ok"]
    env = vlib.goenv(); env["VERIF_SEED"] = str(vlib.SEED); env["VERIF_TIER"] = tier
    okm, modelrun = vlib.build_model("Codec")
    okg, exe = vlib.go_build("codec", roots=("overlay", "ov_codec"))
    stats, samples, mism, pfails = {}, [], [], []
    if okg and okm:
        case = None
        if replay:
            case = json.load(open(replay)).get("case")
        res, err = run_pipeline(exe, modelrun, env, case)
        if err:
            v.violation({"kind": "harness", "correspondence": "Codec driver", "error": err}, has_input=False)
        else:
            lines, cmp_out = res
            for l in cmp_out.splitlines():
                f = l.split("\t")
                if f[0] == "STATS":
                    stats.update({kv.split("=")[0]: int(kv.split("=")[1]) for kv in f[1:]})
                elif f[0] == "COUNT":
                    stats.setdefault("classes", {})[f[1]] = int(f[2])
                elif f[0] == "MISMATCH":
                    mism.append(f[1:])
                elif f[0] == "PROPFAIL":
                    pfails.append(f[1:])
            ll = lines.splitlines()
            samples = [ll[i] for i in range(0, len(ll), max(1, len(ll) // 6))][:6]
            # distinct non-trivial: distinct op lines whose result is not an error of a too-short input
            distinct = len(set(l for l in ll if not l.startswith("P\t")))
            stats["distinct"] = distinct
    else:
        why = (exe if not okg else modelrun)
        v.violation({"kind": "harness-build", "correspondence": "Codec driver/model build against the current tree", "error": why}, has_input=False)
    # property oracle failures on the implementation = concrete failing inputs
    for pf in pfails[:5]:
        v.violation({"kind": "property-oracle", "oracle": pf[1], "case": pf, "what": "property oracle failed on the implementation"})
    if mism and not pfails:
        # correspondence broken, search found no oracle failure in this run's inputs
        for m in mism[:3]:
            v.violation({"kind": "correspondence", "correspondence": "Codec model vs util/codec", "case": [m[0]] + m[1:m.index("=>")] if "=>" in m else m,
                         "line": m, "what": "model and implementation disagree; no property-oracle failure among %d oracle evaluations" % stats.get("props", 0)}, has_input=False)
    if proof_broken:
        v.violation({"kind": "proof", "theorem_or_file": gate["problems"], "what": "Coq obligations no longer check"}, has_input=False)
    cls = stats.get("classes", {})
    cov.update(evaluations=stats.get("cases", 0) + stats.get("props", 0),
               distinct_nontrivial=stats.get("distinct", 0),
               rule="exhaustive strings over {00,01,7F,80,FE,FF} up to length %s + random around multiples of 8 + mutated encodings as malformed stream + all decoders on all comparable-varint tags + integers around sign/byte/varint boundaries ±2 and random + composite keys (mvccEncode/mvccDecode with boundary versions, meta keys, truncated/extended/flipped encodings; memcomparable key codec); distinct = distinct (op,input,result) lines" % ("5" if tier == "quick" else "7"),
               samples=samples, traces_validated_against_impl=stats.get("cases", 0),
               input_distribution=cls, model_mismatches=len(mism), oracle_failures=len(pfails))
    if tier == "thorough" and not proof_broken:
        okc, outc = vlib.coqchk(["Verif.Codec.Props"])
        cov["coqchk"] = "ok" if okc else "FAILED"
        cov["coqchk_axioms"] = [l.strip() for l in outc.splitlines() if "axiom" in l.lower()][:10]
        if not okc:
            v.violation({"kind": "proof", "theorem_or_file": ["coqchk Verif.Codec.Props failed: " + outc[-400:]], "what": "independent checker rejected the compiled theories"}, has_input=False)
    rc = v.finish()
    vlib.write_evidence(PID, cov, t0, violations=len(v.violations), level="proof",
                        assumptions=["bytes are 0..255", "Go's bytes.Compare = lex_cmp (cross-checked by 'cmp' cases)"])
    return rc
