"""shared directed program families for the Percolator checks (C01, C04)"""

def stale_resolve_programs(rng, n):
    """programs of checks/C06.py (directed d70 + random family `stale_resolve`): a pessimistic transaction gives its primary up after
    a half-failed lock call (its PessimisticRollback delayed), another transaction on the same client resolves the expired leftover
    lock, the victim goes on under a new primary and commits while a reader on that client meets its prewrite locks"""
    import importlib.util, os
    sp = importlib.util.spec_from_file_location("C06", os.path.join(os.path.dirname(os.path.abspath(__file__)), "C06.py"))
    C06 = importlib.util.module_from_spec(sp); sp.loader.exec_module(C06)
    out = [dict(d, id="sr-" + d["id"]) for d in C06.directed() if d["id"] == "d70"]
    i = 0
    while len(out) < n + 1 and i < 4000:
        sc = C06.gen_schedule_program(rng, 90000 + i)
        i += 1
        if "t6" in sc.get("txns", {}):
            out.append(dict(sc, id="sr-" + sc["id"]))
    return out


def acked_commit_lost(sc, r):
    """an acknowledged commit has its record on every key it wrote (MvccGetByKey audit at the end)"""
    bad = []
    aud = r.get("audit") or {}
    for name, tv in (r.get("txns") or {}).items():
        if tv.get("result") != "ok":
            continue
        failed = {st["i"] for st in r.get("steps", []) if st.get("err") or st.get("skipped") or st.get("panic")}
        for i, st in enumerate(sc["program"]):
            if st.get("t") == name and st["op"] in ("set", "del", "insert") and i not in failed:
                a = aud.get(st["k"])
                if a is not None and not a.get("err") and not any(w.get("start") == tv["start"] and w.get("type") in ("Put", "Delete", "Del") for w in a.get("writes", [])):
                    bad.append(f"acknowledged commit of {name} (start {tv['start']}) left no commit record on {st['k']}: {[(w.get('type'), w.get('start')) for w in a.get('writes', [])][:4]}")
    return bad

