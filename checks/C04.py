"""C04 — a transaction's request stream obeys Percolator ordering and timestamp rules.
Proof: coq/theories/Percolator/Props.v (C04_*: acceptance implies the trace predicates; addKeys fold; heart-beat ttl).
Monitor: (1) the extracted acceptor on every trace (a rejected event is a rule violation with the trace as the failing
input); (2) independently written python predicates for the same rules; (3) the mutation table: prewritten (key, op, value)
= what the buffer entry implies. Dedicated enumeration: shapes with 1-6 keys, 1-4 regions, small commit batch sizes, all
commit modes, region errors / splits at every prewrite and commit index (forcing batches to be re-split), heart-beats."""
import os, time, json, random
import vlib, txnlab
from vlib import Verdict

PID = "C04"
MAXTS = (1 << 64) - 1


def shapes6():
    K = ["k1", "k2", "k3", "k4", "k5", "k6"]
    out = list(txnlab.base_shapes())
    out.append({"name": "n5", "keys": K[:5], "splits": ["k2", "k4"], "ops": [{"op": o, "k": k, "v": "v-" + k} for o, k in [("set", "k1"), ("set", "k2"), ("del", "k3"), ("insert", "k4"), ("set", "k5")]]})
    out.append({"name": "n6a", "keys": K, "splits": ["k2", "k3", "k5"], "ops": [{"op": o, "k": k, "v": "v-" + k} for o, k in [("set", "k6"), ("set", "k5"), ("lockonly", "k4"), ("del", "k3"), ("insdel", "k2"), ("insert", "k1")]]})
    out.append({"name": "n6b", "keys": K, "splits": ["k4"], "ops": [{"op": "set", "k": k, "v": "value-of-" + k} for k in K]})
    return out


def rule_check(sc, r):
    """independent python monitor of the rules of the property text on one trace; returns list of violations"""
    bad = []
    tr = r.get("trace", [])
    txs = {}
    for name, tv in (r.get("txns") or {}).items():
        txs[tv["start"]] = {"name": name, "pess": tv.get("pessimistic")}
    if r.get("start_ts"):
        txs[r["start_ts"]] = {"name": "victim", "pess": sc["txn"].get("pessimistic")}
    exp = txnlab.expected_mutations(sc["txn"]) if sc.get("txn", {}).get("ops") else None
    sends = {}
    st = {}   # per start ts
    tso_seen = []
    def S(s):
        return st.setdefault(s, {"pw_ok": set(), "pw_req": [], "primary": None, "commit_called": None, "tso_before": 0, "causal": False,
                                 "primary_committed": False, "commit_sent_primary": False, "commit_primary_pending": 0, "min_commits": [], "told": None,
                                 "async": None, "hb_ttl": 0, "rollback_sent": False, "ops": {}, "vals": {}, "pw_sends_after_call": 0, "onepc_ok": False})
    for e in tr:
        k, f = e["kind"], e.get("f", {})
        if k == "tso":
            tso_seen.append(f["ts"])
        elif k == "commit_call" and (f.get("finish") or "commit") == "commit":
            x = S(f["start"]); x["commit_called"] = e["seq"]; x["tso_before"] = tso_seen[-1] if tso_seen else 0; x["causal"] = bool(f.get("causal"))
        elif k == "told":
            x = S(f["start"]); x["told"] = f.get("res")
        elif k == "send":
            sends[e["req"]] = (e.get("cmd"), f)
            cmd = e.get("cmd")
            if cmd == "Prewrite" and f["start"] in txs:
                x = S(f["start"])
                if x["primary"] is None:
                    x["primary"] = f["primary"]
                elif x["primary"] != f["primary"]:
                    bad.append(f"two primaries named by prewrites of one commit: {x['primary']} vs {f['primary']}")
                x["pw_req"].append(f)
                for kk, op, val in zip(f["keys"], f["ops"], f["vals"]):
                    x["ops"][kk] = op; x["vals"][kk] = val
                if f.get("onepc"):
                    x["onepc_keys"] = set(f["keys"])
            elif cmd == "Commit" and f["start"] in txs and e.get("client") in ("c1", "c2") :
                x = S(f["start"])
                x["any_commit"] = True
                owner = True
                if exp is not None and f["start"] == r.get("start_ts"):
                    need = {kk.encode().hex() for kk, op in exp.items() if op != "cne"}
                    if not need <= x["pw_ok"]:
                        bad.append(f"commit sent before all mutations were successfully prewritten: missing {sorted(need - x['pw_ok'])}")
                if f["commit"] <= f["start"]:
                    bad.append("commit ts not above start ts")
                if any(f["commit"] < m for m in x["min_commits"]):
                    bad.append(f"commit ts {f['commit']} below a min-commit ts returned by a prewrite {max(x['min_commits'])}")
                if x["commit_called"] and not x["causal"] and f["commit"] <= x["tso_before"]:
                    bad.append("commit ts not above every timestamp issued before Commit was called")
                if x["primary"] in f["keys"]:
                    x["commit_sent_primary"] = True
                elif not x["primary_committed"] and not x["async"]:
                    bad.append("secondary keys committed before the primary's commit succeeded (not async commit)")
            elif cmd == "BatchRollback" and f["start"] in txs and e.get("client") in ("c1", "c2"):
                x = S(f["start"])
                if x["commit_sent_primary"] and not x.get("primary_commit_failed_definitely"):
                    bad.append("rollback sent although the primary commit may have taken effect")
            elif cmd == "TxnHeartBeat" and f["start"] in txs:
                x = S(f["start"])
                if x["told"] is not None:
                    bad.append("heart-beat sent after the transaction ended")
                if f["advise_ttl"] < x["hb_ttl"]:
                    bad.append(f"heart-beat advised ttl decreased: {x['hb_ttl']} -> {f['advise_ttl']}")
                x["hb_ttl"] = f["advise_ttl"]
                if x["primary"] and f["primary"] != x["primary"]:
                    bad.append("heart-beat names a key that is not the primary")
            elif cmd == "ResolveLock":
                infos = f.get("txn_infos") or ([{"start": f["start"], "commit": f["commit"]}] if f.get("start") else [])
                for ti in infos:
                    known = st.get(("status", e.get("client"), ti["start"]))
                    if known is None:
                        bad.append(f"resolve for txn {ti['start']} without a status reported to this resolver")
                    elif ti["commit"] not in known:
                        bad.append(f"resolve carries commit ts {ti['commit']} but the store reported {sorted(known)} for that transaction")
            elif cmd == "CheckTxnStatus":
                if (f["current"] == MAXTS or f.get("rbine")):
                    lk = st.get(("lockseen", e.get("client"), f["start"]))
                    gc = st.get(("gc", e.get("client")))
                    ok = (gc is not None and f["start"] <= gc)
                    if lk is not None:
                        ttl = lk
                        # the resolver's clock = the latest timestamp issued so far (tso events carry no client id; the
                        # extracted acceptor uses the same reading)
                        last = tso_seen[-1] if tso_seen else 0
                        if ttl == 0 or (last >> 18) >= (f["start"] >> 18) + ttl:
                            ok = True
                    if not ok:
                        bad.append(f"CheckTxnStatus asks to expire/roll back txn {f['start']} (current=max or rollback-if-not-exist) although its lock has not outlived its ttl on the resolver's clock")
        elif k == "reply":
            cmd, sf = sends.get(e["req"], (None, {}))
            if "rpc_err" in f or "regionerr" in f:
                continue
            if cmd == "Prewrite" and sf.get("start") in txs:
                x = S(sf["start"])
                if not f.get("errors"):
                    x["pw_ok"] |= set(sf["keys"])
                    if f.get("min_commit"):
                        x["min_commits"].append(f["min_commit"])
                    if x["async"] is None:
                        x["async"] = bool(sf.get("async"))
                    if sf.get("async") and not f.get("min_commit"):
                        x["async"] = False
            elif cmd == "Commit" and sf.get("start") in txs:
                x = S(sf["start"])
                if x["primary"] in sf["keys"]:
                    if not f.get("error"):
                        x["primary_committed"] = True
                    else:
                        x["primary_commit_failed_definitely"] = True
            elif cmd == "CheckTxnStatus":
                key = ("status", e.get("client"), sf["start"])
                vals = st.setdefault(key, set())
                if f.get("commit_version"):
                    vals.add(f["commit_version"])
                elif not f.get("ttl") and not f.get("error"):
                    vals.add(0)
                elif f.get("ttl") and (f.get("lock") or {}).get("async"):
                    st[("asynclock", e.get("client"), sf["start"])] = f["lock"].get("min_commit", 0)
                    if not f["lock"].get("secondaries"):
                        # an async-commit primary without secondaries is decided by its own min-commit ts
                        vals.add(f["lock"].get("min_commit", 0))
            elif cmd == "CheckSecondaryLocks":
                key = ("status", e.get("client"), sf["start"])
                vals = st.setdefault(key, set())
                if f.get("commit_ts"):
                    vals.add(f["commit_ts"])
                elif len(f.get("locks") or []) < len(sf.get("keys") or []):
                    vals.add(0)
                else:
                    # all locked: any commit ts >= max min-commit is derivable; record the candidates seen so far
                    mc = st.setdefault(("csl_min", e.get("client"), sf["start"]), [st.get(("asynclock", e.get("client"), sf["start"]), 0)])
                    mc.extend(l.get("min_commit", 0) for l in f["locks"])
                    vals.add(max(mc))
            ers = []
            if isinstance(f.get("error"), dict):
                ers.append(f["error"])
            ers.extend(x for x in (f.get("errors") or []) if isinstance(x, dict))
            ers.extend(p["error"] for p in (f.get("pairs") or []) if p.get("error"))
            for er in ers:
                if er.get("kind") == "locked":
                    st[("lockseen", e.get("client"), er["lock"]["start"])] = er["lock"]["ttl"]
        elif k == "gc_begin":
            st[("gc", e.get("client"))] = f["safepoint"]
        elif k == "gc_end":
            st.pop(("gc", e.get("client")), None)
        if k == "tso":
            pass
        if k in ("send",) and e.get("client"):
            st[("clock", e.get("client"))] = tso_seen[-1] if tso_seen else 0
    # end-of-trace checks for the victim: mutation table, async secondaries, one-pc
    S0 = r.get("start_ts")
    if exp is not None and S0 in st and st[S0]["pw_req"]:
        x = st[S0]
        told = r.get("told")
        got_ops = {bytes.fromhex(kk).decode(): op for kk, op in x["ops"].items()}
        if told == "ok" or set(got_ops) == set(exp):
            if got_ops != exp:
                bad.append(f"prewritten mutations differ from what the buffer implies: got {got_ops}, want {exp}")
            for kk, op in exp.items():
                if op in ("put", "ins"):
                    want = next(o["v"] for o in reversed(sc["txn"]["ops"]) if o["k"] == kk and o["op"] in ("set", "insert"))
                    if bytes.fromhex(x["vals"].get(kk.encode().hex(), "")).decode() != want:
                        bad.append(f"prewritten value of {kk} differs from the buffered one")
        prim = x["primary"]
        if prim is not None and bytes.fromhex(prim).decode() in exp and exp[bytes.fromhex(prim).decode()] == "cne":
            bad.append("the primary is a check-not-exists (non-locked) mutation")
        for f in x["pw_req"]:
            if f.get("async") and prim in f["keys"]:
                locked = {kk.encode().hex() for kk, op in exp.items() if op != "cne"} - {prim}
                if set(f.get("secondaries") or []) != locked:
                    bad.append(f"async-commit primary lists secondaries {sorted(f.get('secondaries') or [])}, want exactly the other locked keys {sorted(locked)}")
            if f.get("onepc"):
                allk = {kk.encode().hex() for kk in exp}
                if set(f["keys"]) != allk:
                    bad.append("one-phase commit attempted with a prewrite request that does not hold the whole transaction")
    # every transaction of a program: the primary its prewrites name is one of the mutations they lock (union over the
    # prewrite requests of the last commit attempt; a check-not-exists mutation locks nothing)
    for S, x in st.items():
        if not isinstance(S, int) or not isinstance(x, dict) or S == S0 or not x.get("pw_req"):
            continue
        locked = {kk for kk, op in x["ops"].items() if op != "cne"}
        if x["primary"] is not None and locked and x["primary"] not in locked and x.get("any_commit"):
            bad.append(f"the primary {bytes.fromhex(x['primary']).decode(errors='replace')} named by the prewrites of txn {S} is not among its locked mutations {sorted(bytes.fromhex(k).decode(errors='replace') for k in locked)}")
    return bad


def main(tier, replay):
    t0 = time.time()
    v = Verdict(PID)
    rng = random.Random(vlib.SEED)
    cov = {"checker_cmd": "coq/mk.sh theories/Percolator/Props.vo + Print Assumptions", "trusted_base": vlib.TRUSTED_BASE}
    from perc_gate import perc_gate, run_acceptor
    gate = perc_gate(PID)
    cov.update(gate["cov"])
    okd, exe = txnlab.build_driver()
    if not okd:
        v.violation({"kind": "harness-build", "correspondence": "txn driver build against the current tree", "error": exe}, has_input=False)
        rc = v.finish(); vlib.write_evidence(PID, dict(cov, evaluations=0, distinct_nontrivial=0, rule="driver did not build", samples=[]), t0, 1); return rc
    if replay:
        sc = json.load(open(replay))["scenario"]
        res = txnlab.run_scenarios(exe, [sc], jobs=1)
        bad = rule_check(sc, res[0])
        print("replay:", sc["id"], "violations", bad)
        if bad:
            v.violation({"kind": "property-oracle", "scenario": sc, "violated": bad})
        return v.finish()
    base = []
    for sh in shapes6():
        for mode in ("2pc", "async", "1pc", "async1pc"):
            for pess in (False, True):
                for bs in (0, 3, 7):
                    muts = txnlab.expected_mutations({"ops": sh["ops"], "pessimistic": pess})
                    if mode in ("async", "async1pc") and "lock" in muts.values():
                        continue   # unistore limitation (see C02)
                    base.append((sh, mode, pess, bs))
    rng.shuffle(base)
    if tier == "quick":
        base = base[:110]
    # always present: pessimistic shapes whose primary (first locked key) is not the first key of its region, with a batch
    # limit that cuts between the keys of that region (batch bookkeeping of the primary)
    for b in [(sh, mode, True, sh.get("batch_size", 3)) for sh in shapes6() + txnlab.late_primary_shapes()
              if sh["name"] in ("n4l0o1", "n4l1o1", "n6a") or sh["name"].startswith("lp") for mode in ("2pc", "async", "1pc")
              if not (mode == "async" and "lock" in txnlab.expected_mutations({"ops": sh["ops"], "pessimistic": True}).values())]:
        if not any(x[0]["name"] == b[0]["name"] and x[1:] == b[1:] for x in base):
            base.append(b)
    base = txnlab.with_fallbacks(base)
    cov["fallback_shapes"] = sum(1 for b in base if b[-1])
    probes = [txnlab.mk_scenario(f"p{i}", sh, mode, pess, batch_size=bs, causal=(i % 7 == 0), **txnlab.fbkw(fb)) for i, (sh, mode, pess, bs, fb) in enumerate(base)]
    pres = txnlab.run_scenarios(exe, probes)
    cases = []
    for (sh, mode, pess, bs, fb), pr in zip(base, pres):
        n = min(pr.get("counted", 0), 16)
        tag = f"{sh['name']}-{mode}{'fb' if fb else ''}-{'p' if pess else 'o'}-b{bs}"
        _mk = txnlab.mk_scenario
        def mk(*a, **kw):
            kw.update(txnlab.fbkw(fb))
            return _mk(*a, **kw)
        for i in range(n):
            fk = rng.choice(["regionerr:EpochNotMatch", "regionerr:NotLeader", "regionerr:ServerIsBusy", "split", "split", "dropresp", "push_min_commit", "reader"])
            if fk == "dropresp" and rng.random() < 0.6:
                # the lost answer surfaces as one of the errors a transport can return (context / gRPC status / EOF)
                fk = "dropresp:" + rng.choice(["ctx_canceled", "ctx_deadline", "grpc_canceled", "grpc_unavailable", "grpc_deadline", "grpc_unknown", "eof"])
            if fk == "reader" and rng.random() < 0.5:
                fk = "reader_clockjump"   # the reader's clock jumps while its status check is on its way back
            if fk in ("push_min_commit", "reader", "reader_clockjump"):
                # another client reads at this instant: it meets the locks written so far (possibly a secondary whose
                # primary is not prewritten yet) and may push the primary's min-commit ts under the committer's feet
                cases.append(mk(f"{tag}-{i}-{fk}", sh, mode, pess, batch_size=bs, extras=[{"at": i, "what": fk, "k": (rng.choice(sh["keys"]) if fk == "reader_clockjump" else "")}]))
            elif fk == "split":
                cases.append(mk(f"{tag}-{i}-split", sh, mode, pess, batch_size=bs, extras=[{"at": i, "what": "split", "k": rng.choice(sh["keys"])}]))
            else:
                cases.append(mk(f"{tag}-{i}-{fk}", sh, mode, pess, batch_size=bs, faults=[{"at": i, "kind": fk}]))
    if tier == "quick" and len(cases) > 1200:
        rng.shuffle(cases)
        cases = cases[:1200]
    # always present: async-commit recovery by resolvers. The committer dies while prewriting (some secondary is never locked,
    # others are), the secondaries lie in >= 2 regions; fresh clients then decide the transaction from CheckTxnStatus +
    # CheckSecondaryLocks. The order in which the regions answer is left to the scheduler: every case runs several times.
    rec = []
    for sh in shapes6():
        if len(sh["splits"]) < 2 or "lock" in txnlab.expected_mutations({"ops": sh["ops"], "pessimistic": False}).values():
            continue
        for pess in (False, True):
            if pess and "lock" in txnlab.expected_mutations({"ops": sh["ops"], "pessimistic": True}).values():
                continue
            for i in range(1, 6):
                for kind in ("crash_undelivered", "crash_delivered"):
                    for rep in range(2 if tier == "quick" else 6):
                        rec.append(txnlab.mk_scenario(f"{sh['name']}-async-{'p' if pess else 'o'}-rec{i}-{kind}-r{rep}", sh, "async", pess, faults=[{"at": i, "kind": kind}]))
    if tier == "quick":
        rng.shuffle(rec)
        rec = rec[:160]
    cases += rec
    # always present: the single prewrite request of a one-region transaction meets a split (before it is delivered / after it
    # was applied with the answer lost) and is re-split into several requests: 1PC must be given up, async commit kept
    for sh in shapes6():
        if sh["splits"] or len(sh["keys"]) < 2:
            continue
        for mode in ("1pc", "async1pc", "async"):
            for pess in (False, True):
                if mode != "1pc" and "lock" in txnlab.expected_mutations({"ops": sh["ops"], "pessimistic": pess}).values():
                    continue
                kk = sh["keys"][1 + (len(cases) % (len(sh["keys"]) - 1))]
                cases.append(txnlab.mk_scenario(f"{sh['name']}-{mode}-{'p' if pess else 'o'}-d0-split@{kk}", sh, mode, pess, extras=[{"at": 0, "what": "split", "k": kk}]))
                cases.append(txnlab.mk_scenario(f"{sh['name']}-{mode}-{'p' if pess else 'o'}-d0-dropresp+aftersplit@{kk}", sh, mode, pess,
                                                faults=[{"at": 0, "kind": "dropresp"}], extras=[{"at": 0, "what": "after:split", "k": kk}]))
    # heart-beat scenarios: pessimistic transaction kept open, small managed ttl
    hb = []
    for i in range(6 if tier == "quick" else 30):
        if i % 3 == 2:
            # the first lock call is a single-key lock-only-if-exists on an absent key: its tentative primary is dropped
            # again; the keep-alive must follow the real primary chosen by the next lock call
            hb.append({"id": f"hb{i}", "backend": "unistore", "splits": rng.sample(["k2", "k3"], rng.randrange(0, 3)), "preload": [{"k": "k1", "v": "o"}], "managed_ttl": 200 + 50 * (i % 2),
                       "txn": {"mode": "2pc", "ops": []}, "txns": {"t1": {"mode": rng.choice(["2pc", "async"]), "pessimistic": True, "ops": []}},
                       "program": [{"t": "t1", "op": "begin"}, {"t": "t1", "op": "lock", "ks": ["k2"], "wait": -1, "loie": True, "rv": True},
                                   {"t": "t1", "op": "lock", "ks": ["k1"], "wait": -1}, {"t": "t1", "op": "sleep", "wait": 650},
                                   {"t": "t1", "op": "set", "k": "k1", "v": "x"}, {"t": "t1", "op": rng.choice(["commit", "rollback"])}, {"t": "t1", "op": "sleep", "wait": 350}],
                       "keys": ["k1", "k2", "k3"], "black_from": -1, "hb_primary": "k1"})   # a dropped tentative primary: the acceptor follows the latest lock call's primary
            continue
        hb.append({"id": f"hb{i}", "backend": "unistore", "splits": rng.sample(["k2", "k3"], rng.randrange(0, 3)), "preload": [{"k": "k1", "v": "o"}], "managed_ttl": 200 + 50 * (i % 3),
                   "txn": {"mode": "2pc", "ops": []}, "txns": {"t1": {"mode": rng.choice(["2pc", "async"]), "pessimistic": True, "ops": []}},
                   "program": [{"t": "t1", "op": "begin"}, {"t": "t1", "op": "lock", "ks": ["k1", "k3"][: 1 + i % 2], "wait": -1}, {"t": "t1", "op": "sleep", "wait": 450 + 100 * (i % 3)},
                               {"t": "t1", "op": "set", "k": "k1", "v": "x"}, {"t": "t1", "op": rng.choice(["commit", "rollback"])}, {"t": "t1", "op": "sleep", "wait": 350}],
                   "keys": ["k1", "k2", "k3"], "black_from": -1, "hb_primary": "k1"})
    # the same monitor on concurrent multi-transaction programs (the generator of C01: optimistic and pessimistic transactions in
    # every commit mode contending for a few keys, failed lock calls, splits, concurrent-reader hooks); python predicates and
    # the extracted acceptor (read-only commits, re-selected primaries and transactions that never commit are in its vocabulary)
    import sys, os
    sys.path.insert(0, os.path.dirname(os.path.abspath(__file__)))
    import C01
    prng = random.Random(vlib.SEED * 7919 + 1)
    progs = [C01.gen_history(prng, 50000 + i) for i in range(80 if tier == "quick" else 1200)]
    for sc in progs:
        sc["id"] = "prog-" + sc["id"]
    # resolver status cache / stale resolve: judged by the acceptor (rule 3: a rollback needs a status answer that says so) and by
    # "an acknowledged commit is on every key it wrote"
    import perc_progs
    srp = perc_progs.stale_resolve_programs(random.Random(vlib.SEED * 31 + 7), 6 if tier == "quick" else 60)
    sr_traces = []
    for sc, r in zip(srp, txnlab.run_scenarios(exe, srp)):
        if r.get("fatal"):
            continue
        sr_traces.append((sc, r))
        bad = perc_progs.acked_commit_lost(sc, r)
        if bad:
            v.violation({"kind": "property-oracle", "scenario": sc, "violated": bad[:4]})
    allsc = probes + cases + hb + progs
    res = txnlab.run_scenarios(exe, allsc)
    nviol, dist, distinct, traces = 0, {}, set(), []
    for sc, r in zip(allsc, res):
        if r.get("fatal"):
            nviol += 1
            if nviol <= 3:
                if r.get("died"):
                    v.violation({"kind": "property-oracle", "scenario": sc, "violated": ["the client process aborted while committing this transaction: " + r["fatal"]]})
                else:
                    v.violation({"kind": "harness", "correspondence": "txn driver", "error": r["fatal"], "scenario": sc}, has_input=False)
            continue
        bad = rule_check(sc, r)
        nreq = sum(1 for e in r.get("trace", []) if e["kind"] == "send" and e.get("cmd") in ("Prewrite", "Commit"))
        hbn = sum(1 for e in r.get("trace", []) if e["kind"] == "send" and e.get("cmd") == "TxnHeartBeat")
        dk = f"{sc.get('txn', {}).get('mode')}/told={str(r.get('told'))[:10]}/prewrite+commit requests={min(nreq, 12)}{'+' if nreq >= 12 else ''}"
        if hbn:
            dk = f"heartbeats={min(hbn, 6)}"
        dist[dk] = dist.get(dk, 0) + 1
        if nreq >= 3 or hbn:
            distinct.add(sc["id"])
        if sc.get("hb_primary") and not r.get("fatal"):
            pk = sc["hb_primary"].encode().hex()
            hbs = [e["f"].get("primary") for e in r.get("trace", []) if e["kind"] == "send" and e.get("cmd") == "TxnHeartBeat"]
            if pk not in hbs:
                bad.append(f"the transaction held its primary {sc['hb_primary']} for more than two managed ttls but no heart-beat named it (heart-beats named: {sorted(set(bytes.fromhex(h).decode(errors='replace') for h in hbs if h))})")
        if bad:
            nviol += 1
            if nviol <= 5:
                v.violation({"kind": "property-oracle", "scenario": sc, "violated": bad[:6], "told": r.get("told"),
                             "trace_tail": [e for e in r.get("trace", []) if e["kind"] != "tso" and e.get("client") == "c1"][-50:]})
        if not sc.get("no_acceptor"):
            traces.append((sc, r))
    traces += sr_traces
    cov["programs_monitored"] = len(progs) + len(sr_traces)
    cov.update(run_acceptor(traces, v, PID, exe=exe))
    if not gate["ok"]:
        v.violation({"kind": "proof", "theorem_or_file": gate["problems"], "what": "Coq obligations no longer check"}, has_input=False)
    elif tier == "thorough":
        from perc_gate import thorough_coqchk
        thorough_coqchk("Verif.Percolator.Props", cov, v)
    cov.update(evaluations=len(allsc), distinct_nontrivial=len(distinct),
               rule="shapes with 1-6 keys over 1-4 regions x {2pc, async, 1pc} x {optimistic, pessimistic} x commit batch size {default, 3 bytes, 7 bytes} (prewrite batches of 1-2 mutations, commit batches of 2-4 keys) x one region error (EpochNotMatch / NotLeader / ServerIsBusy) or split or lost response or a concurrent reader of every key (meets live locks, pushes the primary's min-commit ts) at every prewrite/commit index (batches are re-split), plus pessimistic transactions kept open with a small managed ttl (heart-beats); every trace is judged by the extracted acceptor and by independent python rule predicates incl. the mutation table; distinct non-trivial = scenarios with >= 3 prewrite/commit requests or heart-beats",
               samples=[{"scenario": sc, "told": r.get("told")} for sc, r in traces[len(probes):len(probes) + 2]] + [{"scenario": hb[0]}], input_distribution=dist)
    rc = v.finish()
    vlib.write_evidence(PID, cov, t0, violations=len(v.violations), level="proof",
                        assumptions=["store = tidb unistore (environment)", "request stream observed at the tikv.Client boundary", "heart-beat timing uses the real ticker with a small managed ttl (order monitored, not durations)"])
    return rc
