"""C16 — pipelined transactions. Proof: coq/theories/Pipelined/Props.v.
Correspondence:
 (1) buffer: Go driver `pipelined` (own overlay root ov_pipelined; PipelinedMemDB with a scripted flush function whose
     duration/outcome the script controls and a scripted store-tier getter) vs the extracted model on generated op
     scripts; property oracles (read-latest, flush-once, error delivery, commit attempt) evaluated on the implementation's
     trace by this file, independently of the model.
 (2) commit side, quick: Go driver `pipelinedtxn_mock` (whole pipelined transactions on the in-repo mock store behind a
     Flush->Prewrite shim, plus direct CommitterProbe.ResolveFlushedLocks over prewritten locks) — lock audit; resolved
     regions vs the model's run_on_range.
 (3) thorough: whole pipelined transactions on tidb's unistore (integration_tests module)."""
import os, sys, time, json, random, hashlib, shutil, tempfile
import vlib
from vlib import Verdict

PID = "C16"
PROPS = [("theories/Pipelined/Props.v", "Pipelined.Props"), ("theories/Pipelined/PropsCompose.v", "Pipelined.PropsCompose")]
AREAS = ["theories/Base", "theories/Pipelined"]
ROOTS = ("ov_pipelined",)
HUGE = 99999999


# ------------------------------------------------------------------ generators (buffer scripts)
def hx(b):
    return b.hex() if b else "_"


KEYS = [b"k1", b"k2", b"k25", b"k3", b"k", b"k\x00", b"m7", b"z"]
THRESH = [(0, 0, 0), (0, 0, HUGE), (2, 0, HUGE), (3, 8192, HUGE), (1, 8193, 16385), (0, 8192, 16384), (4, 0, 16384), (HUGE, HUGE, HUGE)]


def rand_val(r, big=False):
    if big and r.random() < 0.3:
        return bytes([r.randrange(1, 255)]) * r.choice([1500, 3000, 7000])
    return bytes(r.randrange(1, 255) for _ in range(r.choice([1, 1, 2, 3, 8])))


def gen_flags_script(r, n):
    """key flags: presumeKeyNotExists on keys the transaction has not written yet (Op_Insert), some of them deleted again in the
    same generation (Op_CheckNotExists: no lock, nothing in the store tier), reads at every level; no staging, no failures"""
    keys = [k.hex() for k in KEYS]
    written, ops = set(), []
    for _ in range(n):
        x = r.random()
        fresh = [k for k in keys if k not in written]
        if x < 0.22 and fresh:
            k = r.choice(fresh); written.add(k)
            ops.append(["insert", k, hx(rand_val(r))])
            if r.random() < 0.45:
                ops.append(["del", k])
        elif x < 0.40:
            k = r.choice(keys); written.add(k)
            ops.append(["set", k, hx(rand_val(r))])
        elif x < 0.47:
            k = r.choice(keys); written.add(k)
            ops.append(["del", k])
        elif x < 0.62:
            ops.append(["get", r.choice(keys)])
        elif x < 0.70:
            ops.append(["bget", ",".join(r.sample(keys, r.choice([2, 3, 5])))])
        elif x < 0.84:
            ops.append(["flush", r.choice(["1", "1", "0"]), "1", "0"])
        elif x < 0.90:
            ops.append(["storestep", str(r.choice([0, 1, 2, 3]))])
        elif x < 0.96:
            ops.append(["complete", "1"])
        else:
            ops.append(["flushwait", "1"])
    ops += [["flush", "1", "1", "0"], ["flushwait", "1"]] + [["get", k] for k in keys] + [["bget", ",".join(keys)]]
    return r.choice([(0, 0, 0), (0, 0, HUGE), (2, 0, HUGE)]), ops


def gen_script(r, cls, n):
    """returns (params, [op lines]) ; op line = list of tokens"""
    if cls == "flags":
        return gen_flags_script(r, n)
    keys = KEYS[: r.choice([3, 5, 8])]
    ops = []
    depth = 0
    th = r.choice(THRESH) if cls != "force" else (HUGE, HUGE, HUGE)
    errs = cls in ("err", "exist")
    big = cls == "thresh"
    limit = r.choice([3, 4, 6, 10]) if cls == "limit" else 0
    if limit:
        th = tuple(th) + (limit,)
    if cls == "thresh":
        th = r.choice(THRESH[2:7])

    def k():
        return r.choice(keys).hex()

    for _ in range(n):
        x = r.random()
        if x < 0.30:
            ops.append(["set", k(), hx(rand_val(r, big))])
        elif x < 0.40:
            ops.append(["del", k()])
        elif x < 0.42:
            ops.append(["set", k(), "_"])
        elif x < 0.57:
            ops.append(["get", k()])
        elif x < 0.60:
            ops.append(["getlocal", k()])
        elif x < 0.68:
            ops.append(["bget", ",".join(sorted({k() for _ in range(r.choice([1, 2, 3, 5]))}, key=lambda _: r.random()))])
        elif x < 0.72 and cls == "window":
            ops.append(["storestep", str(r.choice([0, 0, 1, 1, 2, 3, 7]))])
        elif x < 0.80:
            force = "1" if (cls == "force" or r.random() < 0.5) else "0"
            wo = "0" if (errs and r.random() < 0.25) else "1"
            ops.append(["flush", force, wo, str(r.choice([0, 0, 1, 2, 9]))])
        elif x < 0.88 and cls == "exist" and r.random() < 0.5:
            ops.append(["completeexist", k()])
        elif x < 0.88:
            ops.append(["complete", "0" if (errs and r.random() < 0.3) else "1"])
        elif x < 0.91:
            ops.append(["flushwait", "0" if (errs and r.random() < 0.3) else "1"])
        elif x < 0.95 and cls in ("staging", "stale"):
            if depth < 3 and r.random() < 0.5:
                ops.append(["staging"]); depth += 1
            elif depth > 0:
                ops.append([r.choice(["release", "cleanup"])])
                depth -= 1
        elif x < 0.975:
            ops.append(["len"])
        else:
            ops.append(["size"])
    while depth > 0:
        ops.append(["release"]); depth -= 1
    # commit attempt + read back every key through the store tier
    ops.append(["flush", "1", "1", "0"]); ops.append(["flushwait", "1"])
    for kk in keys:
        ops.append(["get", kk.hex()])
    ops.append(["bget", ",".join(kk.hex() for kk in keys)])
    return th, ops


def directed_scripts():
    k1, k2, k3 = b"k1".hex(), b"k2".hex(), b"k3".hex()
    v1, v2 = b"v1".hex(), b"v2".hex()
    D = []
    # reads falling through mutable / flushing / store; delete at every level
    D.append(("d-levels", (0, 0, 0), [["set", k1, v1], ["flush", "1", "1", "0"], ["get", k1], ["complete", "1"], ["get", k1],
              ["set", k2, v1], ["flush", "1", "1", "1"], ["get", k1], ["get", k2], ["del", k1], ["get", k1], ["flush", "1", "1", "0"],
              ["get", k1], ["complete", "1"], ["flushwait", "1"], ["get", k1], ["get", k2], ["bget", k1 + "," + k2 + "," + k3]]))
    # cache dropped on every flush call, even a non-triggering one
    D.append(("d-cache-drop", (HUGE, HUGE, HUGE), [["set", k1, v1], ["flush", "1", "1", "0"], ["flushwait", "1"], ["bget", k1 + "," + k2],
              ["get", k1], ["get", k2], ["set", k2, v2], ["flush", "1", "1", "0"], ["flushwait", "1"], ["get", k2], ["bget", k2], ["flush", "0", "1", "0"], ["get", k2]]))
    # write while a flush is in flight, flush waits for the previous one
    D.append(("d-inflight", (0, 0, 0), [["set", k1, v1], ["flush", "1", "1", "0"], ["set", k1, v2], ["get", k1], ["flush", "1", "1", "2"],
              ["get", k1], ["complete", "1"], ["flushwait", "1"], ["get", k1]]))
    # failed flush: reported once, later flushes fail, commit fails
    D.append(("d-error", (0, 0, 0), [["set", k1, v1], ["flush", "1", "1", "0"], ["complete", "0"], ["set", k2, v2], ["flush", "1", "1", "0"],
              ["flush", "1", "1", "0"], ["flushwait", "1"], ["flush", "1", "1", "0"], ["flushwait", "1"]]))
    D.append(("d-error-wait", (0, 0, 0), [["set", k1, v1], ["flush", "1", "1", "0"], ["set", k2, v2], ["flush", "1", "0", "0"], ["flush", "1", "1", "0"], ["flushwait", "1"]]))
    # flush refused while staging
    D.append(("d-staging-flush", (0, 0, 0), [["staging"], ["set", k1, v1], ["flush", "1", "1", "0"], ["release"], ["flush", "1", "1", "0"], ["flushwait", "1"], ["get", k1]]))
    # regression class for F18 (fixed by 254a717): the batch-get cache must not survive a staging cleanup
    D.append(("d-stale-cache", (0, 0, 0), [["staging"], ["set", k1, v1], ["bget", k1], ["cleanup"], ["get", k1], ["getlocal", k1]]))
    D.append(("d-stale-cache-del", (0, 0, 0), [["set", k1, v1], ["flush", "1", "1", "0"], ["flushwait", "1"], ["staging"], ["del", k1], ["bget", k1], ["cleanup"], ["get", k1]]))
    # every release point of the flush in flight: mutations reach the store one by one, reads at every point
    w = [["set", k1, v1], ["set", k2, v1], ["flush", "1", "1", "0"], ["complete", "1"], ["set", k1, v2], ["del", k2], ["set", k3, v2], ["flush", "1", "1", "0"]]
    for i in (0, 1, 2):
        w += [["get", k1], ["get", k2], ["get", k3], ["bget", k1 + "," + k2 + "," + k3], ["storestep", str(i)]]
    w += [["get", k1], ["get", k2], ["set", k2, v1], ["get", k2], ["complete", "1"], ["get", k1], ["get", k2], ["get", k3]]
    D.append(("d-window", (0, 0, 0), w))
    D.append(("d-window-fail", (0, 0, 0), [["set", k1, v1], ["flush", "1", "1", "0"], ["storestep", "0"], ["complete", "0"], ["flushwait", "1"], ["get", k1]]))
    # handleAlreadyExistErr: the reported ErrKeyExist carries the value the failed flush was writing
    D.append(("d-exist", (0, 0, 0), [["set", k1, v1], ["set", k2, v2], ["flush", "1", "1", "0"], ["set", k1, v2], ["completeexist", k1], ["flush", "1", "1", "0"], ["flushwait", "1"]]))
    D.append(("d-exist-wait", (0, 0, 0), [["set", k2, v2], ["flush", "1", "1", "0"], ["completeexist", k2], ["flushwait", "1"]]))
    # the entry size limit survives the buffer swap
    D.append(("d-limit", (0, 0, 0, 4), [["set", k1, v1], ["set", k1, b"vvv".hex()], ["flush", "1", "1", "0"], ["set", k2, b"vvv".hex()], ["set", k2, v2], ["flushwait", "1"], ["get", k1], ["get", k2]]))
    # key flags: insert+delete (CheckNotExists: no lock) sorts first, the primary must be the next key; absent == tombstone afterwards
    D.append(("d-flags", (0, 0, 0), [["insert", k1, v1], ["del", k1], ["insert", k2, v2], ["set", k3, v1], ["get", k1], ["flush", "1", "1", "0"],
              ["get", k1], ["storestep", "0"], ["storestep", "1"], ["get", k1], ["complete", "1"], ["get", k1], ["bget", k1 + "," + k2],
              ["flushwait", "1"], ["get", k1], ["get", k2], ["bget", k1 + "," + k2 + "," + k3], ["set", k1, v2], ["get", k1]]))
    return D


def build_cases(tier, seed):
    r = random.Random(seed * 7919 + 13)
    cases = []
    tail = [["flush", "1", "1", "0"], ["flushwait", "1"], ["get", b"k1".hex()], ["get", b"k2".hex()]]
    for name, th, ops in directed_scripts():
        cases.append((name, "directed", th, ops if name.startswith("d-stale") else ops + tail))
    # sweep: one base script, the running flush acknowledged at EVERY possible point of it (and its mutations reaching the
    # store one by one before that): reads must be the same at every release point
    keys3 = [k.hex() for k in KEYS[:4]]
    for b in range({"quick": 8, "thorough": 40}.get(tier, 8)):
        base = []
        for _ in range(r.choice([5, 8])):
            x = r.random()
            kk = r.choice(keys3)
            base.append(["set", kk, hx(rand_val(r))] if x < 0.35 else ["del", kk] if x < 0.45 else ["get", kk] if x < 0.8 else ["bget", ",".join(keys3)])
        head = [["set", keys3[0], "7630"], ["set", keys3[1], "7631"], ["del", keys3[2]], ["flush", "1", "1", "0"]]
        for pos in range(len(base) + 1):
            for steps in ([], ["0"], ["2", "0", "1"]):
                ops = head + base[:pos] + [["storestep", i] for i in steps] + [["complete", "1"]] + base[pos:]
                ops += [["flush", "1", "1", "0"], ["flushwait", "1"]] + [["get", kk] for kk in keys3]
                cases.append(("sweep-%d-%d-%d-%d" % (seed, b, pos, len(steps)), "sweep", (0, 0, 0), ops))
    n = {"quick": 2500, "thorough": 12000}.get(tier, 2500)
    classes = ["rand", "window", "force", "thresh", "err", "staging", "stale", "window", "exist", "limit", "flags"]
    for i in range(n):
        cls = classes[i % len(classes)]
        th, ops = gen_script(r, cls, r.choice([6, 12, 25, 40]))
        cases.append((f"{cls}-{seed}-{i}", cls, th, ops))
    return cases


def write_casefile(cases, path):
    with open(path, "w") as fh:
        for cid, cls, th, ops in cases:
            fh.write("CASE\t%s\t%d\t%d\t%d\t%d\n" % (cid, th[0], th[1], th[2], th[3] if len(th) > 3 else 0))
            for o in ops:
                fh.write("\t".join(o) + "\n")
            fh.write("END\n")


# ------------------------------------------------------------------ property oracles on the implementation's trace
def parse_trace(text):
    """-> {case id: {"params":..., "ops":[(name,args,res)], "maxrun":int}}"""
    out, cur = {}, None
    for l in text.splitlines():
        f = l.split("\t")
        if f[0] == "CASE":
            cur = {"params": f[2:6], "ops": [], "maxrun": 0, "plines": []}
            out[f[1]] = cur
        elif f[0] in ("OP", "X") and cur is not None:
            i = f.index("=>")
            cur["ops"].append((("x" if f[0] == "X" else "") + f[1], f[2:i], f[i + 1:]))
        elif f[0] == "P" and cur is not None:
            cur["plines"].append(f[1:])
        elif f[0] == "MAXRUN" and cur is not None:
            cur["maxrun"] = int(f[2])
    return out


def oracle_case(tr):
    """Evaluates the boolean forms of the C16 theorems on one implementation trace.
    returns (n_evaluated, [failure dicts]) ; failure has 'oracle', 'op_index', 'detail', maybe 'finding_class'."""
    truth, tstack = {}, []          # what the transaction wrote (None = never written; b"" tombstone as "_")
    cur, cstack = {}, []            # writes since the last triggered flush
    fails, n = [], 0
    poisoned = False                # a flush may have failed: read-latest no longer claimed
    inflight = False
    pend_err = False                # a failed completion not yet reported
    closed = False                  # some flush failed (scripted callback mirrors txn.go: committer closed)
    gens = []
    cache_shadow, stale = {}, set()
    have_primary, flight_noprim = False, False   # observation O1: a generation flushed before any lock-writing mutation exists is refused
    pyflag, cne = set(), set()      # keys flagged presumeKeyNotExists in the mutable buffer; keys ever flushed as CheckNotExists
    for idx, (name, a, res) in enumerate(tr["ops"]):
        if res and (res[0].startswith("panic") or res[0].startswith("err:")):
            fails.append({"oracle": "no-unexpected-error", "op_index": idx, "detail": " ".join([name] + a + ["=>"] + res)})
            continue
        if name == "insert":
            if a[1] != "_":
                truth[a[0]] = a[1]; cur[a[0]] = a[1]; pyflag.add(a[0])
        elif name in ("set", "xset"):
            limit = int(tr["params"][3]) if len(tr["params"]) > 3 else 0
            size = len(a[0]) // 2 + (0 if a[1] == "_" else len(a[1]) // 2)
            if limit:
                n += 1
                if (name == "xset") != (size > limit and a[1] != "_"):
                    fails.append({"oracle": "entry-size-limit", "op_index": idx, "detail": "set of %d bytes with entry limit %d answered %s" % (size, limit, res[0])})
            elif name == "xset":
                fails.append({"oracle": "entry-size-limit", "op_index": idx, "detail": "set refused as too large without a limit"})
            if name == "set" and a[1] != "_":
                truth[a[0]] = a[1]; cur[a[0]] = a[1]
        elif name == "del":
            truth[a[0]] = "_"; cur[a[0]] = "_"
        elif name == "staging":
            tstack.append(dict(truth)); cstack.append(dict(cur))
        elif name == "release":
            if tstack:
                tstack.pop(); cstack.pop()
        elif name == "cleanup":
            if tstack:
                old = truth
                truth = tstack.pop(); cur = cstack.pop()
                for k in cache_shadow:
                    if old.get(k) != truth.get(k):
                        stale.add(k)
        elif name in ("get", "bget"):
            if poisoned:
                continue
            if name == "get":
                got = {a[0]: res[0]}
                asked = [a[0]]
            else:
                asked = [] if a[0] == "-" else a[0].split(",")
                got = {k: "nf" for k in asked}
                if res[0] != "-":
                    for kvp in res[0].split(","):
                        kk, vv = kvp.split("=")
                        got[kk] = vv
            for k in asked:
                n += 1
                exp = truth.get(k, "nf")
                if got[k] != exp and not (k in cne and {got[k], exp} <= {"nf", "_"}):
                    f = {"oracle": "C16_read_latest", "op_index": idx, "detail": "%s %s returned %s, latest write is %s" % (name, k, got[k], exp)}
                    fails.append(f)
            if name == "bget":
                for k in asked:
                    cache_shadow[k] = got[k]
                    stale.discard(k)
        elif name in ("complete", "completeexist"):
            if name == "completeexist":
                a = ["0"]
            if inflight:
                inflight = False
                eff = (a[0] == "1") and not closed and not flight_noprim
                if not eff:
                    pend_err = True; closed = True; poisoned = True
        elif name == "flush":
            cache_shadow, stale = {}, set()
            trig, status, started = res[0], res[1], res[2]
            wo = a[2]
            waited = inflight and (trig == "1" or status == "1")
            if waited:
                inflight = False
                eff = (wo == "1") and not closed and not flight_noprim
                if not eff:
                    pend_err = True; closed = True; poisoned = True
            n += 1
            if status == "1":
                if not pend_err:
                    fails.append({"oracle": "C16_flush_error_fails_txn", "op_index": idx, "detail": "Flush reported an error although no unreported flush failure exists"})
                pend_err = False
                if trig == "1":
                    fails.append({"oracle": "C16_flush_error_fails_txn", "op_index": idx, "detail": "Flush both failed and triggered"})
            elif trig == "1":
                if pend_err:
                    fails.append({"oracle": "C16_flush_error_fails_txn", "op_index": idx, "detail": "a new flush started although the previous flush failed and its error was never reported (write lost silently)"})
                if inflight:
                    fails.append({"oracle": "C16_flush_once", "op_index": idx, "detail": "a flush started while the previous one was still running"})
                g, _, muts = started.partition(":")
                gens.append(int(g))
                if gens != list(range(1, len(gens) + 1)):
                    fails.append({"oracle": "C16_flush_once", "op_index": idx, "detail": "generations %s are not 1,2,3,..." % gens})
                hand = {} if muts == "-" else dict(kvp.split("=") for kvp in muts.split(","))
                if hand != cur:
                    fails.append({"oracle": "C16_flush_once", "op_index": idx, "detail": "flush %s was handed %s, the mutations buffered since the previous flush are %s" % (g, hand, cur)})
                if muts != "-" and [kvp.split("=")[0] for kvp in muts.split(",")] != sorted(hand):
                    fails.append({"oracle": "C16_flush_once", "op_index": idx, "detail": "flush %s mutations not in key order / duplicated: %s" % (g, muts)})
                cne |= {k for k, val in cur.items() if val == "_" and k in pyflag}
                flight_noprim = False
                if not closed and not have_primary and cur:
                    if any(not (val == "_" and k in pyflag) for k, val in cur.items()):
                        have_primary = True
                    else:
                        flight_noprim = True
                cur, pyflag = {}, set()
                inflight = True
        elif name == "flushwait":
            n += 1
            if inflight:
                inflight = False
                eff = (a[0] == "1") and not closed and not flight_noprim
                if not eff:
                    pend_err = True; closed = True; poisoned = True
            if (res[0] == "err") != pend_err:
                fails.append({"oracle": "C16_flush_error_fails_txn", "op_index": idx, "detail": "FlushWait returned %s, unreported flush failure = %s" % (res[0], pend_err)})
            pend_err = False
    for pl in tr.get("plines", []):
        n += 1
        if pl[-1] != "pass":
            fails.append({"oracle": "handleAlreadyExistErr" if pl[0] == "existerr" else pl[0], "op_index": -1, "detail": " ".join(pl)})
    n += 1
    if tr["maxrun"] > 1:
        fails.append({"oracle": "C16_flush_once", "op_index": -1, "detail": "flush function ran %d times concurrently" % tr["maxrun"]})
    return n, fails, {"flushes": len(gens), "failed": closed}


# ------------------------------------------------------------------ main
def run_buffer(tier, seed, v, stats, replay_case=None):
    okm, modelrun = vlib.build_model("Pipelined")
    okg, exe = vlib.go_build("pipelined", roots=ROOTS)
    if not (okm and okg):
        v.violation({"kind": "harness-build", "correspondence": "pipelined buffer driver / model build against the current tree",
                     "error": (exe if not okg else modelrun)}, has_input=False)
        return
    cases = replay_case if replay_case else build_cases(tier, seed)
    d = os.path.join(vlib.BUILD, "c16")
    os.makedirs(d, exist_ok=True)
    cf = os.path.join(d, "cases-%s-%d.txt" % (tier, seed))
    write_casefile(cases, cf)
    rc, trace = vlib.sh([exe, cf], timeout=240)
    if rc != 0:
        v.violation({"kind": "harness", "correspondence": "pipelined buffer driver", "error": "rc=%d %s" % (rc, trace[-800:])}, has_input=False)
        return
    rc, mout = vlib.sh([modelrun], inp=trace, timeout=900)
    if rc != 0:
        v.violation({"kind": "harness", "correspondence": "pipelined modelrun", "error": mout[-800:]}, has_input=False)
        return
    byid = {c[0]: c for c in cases}
    traces = parse_trace(trace)
    mism = {}
    for l in mout.splitlines():
        f = l.split("\t")
        if f[0] == "MISMATCH":
            mism.setdefault(f[1], []).append(f[2:])
        elif f[0] == "STATS":
            stats["model_ops"] = int(f[2].split("=")[1]); stats["model_mismatches"] = int(f[3].split("=")[1])
    nontrivial = set()
    ofail_cases = set()
    for cid, tr in traces.items():
        n, fails, info = oracle_case(tr)
        stats["oracle_evals"] = stats.get("oracle_evals", 0) + n
        cls = byid[cid][1] if cid in byid else "?"
        cl = stats.setdefault("classes", {})
        cl[cls] = cl.get(cls, 0) + 1
        if info["flushes"] >= 1 and any(o[0] in ("get", "bget") for o in tr["ops"]):
            nontrivial.add(hashlib.sha1(repr(tr["ops"]).encode()).hexdigest())
        if info["failed"]:
            stats["cases_with_failed_flush"] = stats.get("cases_with_failed_flush", 0) + 1
        seen = set()
        for f in fails:
            key = (f["oracle"], f.get("finding_class"))
            if key in seen:
                continue
            seen.add(key)
            ofail_cases.add(cid)
            c = byid.get(cid)
            obj = {"kind": "property-oracle", "driver": "pipelined", "oracle": f["oracle"], "what": f["detail"], "op_index": f["op_index"],
                   "case": {"id": cid, "class": cls, "params": list(c[2]) if c else None, "ops": c[3] if c else None},
                   "implementation_trace": [" ".join([o[0]] + o[1] + ["=>"] + o[2]) for o in tr["ops"]],
                   "model_mismatches": mism.get(cid, [])}
            if "finding_class" in f:
                obj["finding_class"] = f["finding_class"]
                stats["known_class_hits"] = stats.get("known_class_hits", 0) + 1
            else:
                stats["oracle_failures"] = stats.get("oracle_failures", 0) + 1
            if stats.get("reported", 0) < 6 or "finding_class" in f:
                stats["reported"] = stats.get("reported", 0) + (0 if "finding_class" in f else 1)
                v.violation(obj)
    shown = 0
    for cid, ms in mism.items():
        if cid in ofail_cases or shown >= 3:
            continue
        shown += 1
        c = byid.get(cid)
        v.violation({"kind": "correspondence", "correspondence": "Pipelined model vs internal/unionstore PipelinedMemDB", "driver": "pipelined",
                     "case": {"id": cid, "params": list(c[2]) if c else None, "ops": c[3] if c else None}, "mismatch": ms[:5],
                     "implementation_trace": [" ".join([o[0]] + o[1] + ["=>"] + o[2]) for o in traces[cid]["ops"]] if cid in traces else None,
                     "what": "model and implementation disagree; none of the property oracles fails on this case"}, has_input=False)
    stats["buffer_cases"] = len(traces)
    stats["buffer_nontrivial"] = len(nontrivial)
    stats["samples"] = [" ; ".join(" ".join([o[0]] + o[1] + ["=>"] + o[2]) for o in traces[c]["ops"][:8]) for c in list(traces)[:3]] + \
                       [" ; ".join(" ".join([o[0]] + o[1] + ["=>"] + o[2]) for o in traces[c]["ops"][:8]) for c in list(traces)[20:23]]


def main(tier, replay):
    t0 = time.time()
    v = Verdict(PID)
    cov = {"checker_cmd": "coq/mk.sh theories/Pipelined/Props.vo (coqc 8.16.1, full .vo build) + Print Assumptions per theorem",
           "trusted_base": vlib.TRUSTED_BASE + [
               "modelled, not verified: MemDB (ART) as a sorted key->value map with whole-map staging snapshots; memDB.Mem() taken from the implementation as an oracle input of needFlush",
               "the flush callback's closed-committer prologue/epilogue (txn.go) is mirrored by the scripted flush function of driver (1); the real callback runs in drivers (2)/(3)",
               "region layout static during a resolve; mock store / unistore as the lock store"]}
    gate = vlib.coq_gate(PID, AREAS, PROPS)
    cov.update(obligations=gate["obligations"], discharged=gate["discharged"], theorems=gate["theorems"],
               axioms={k: a for k, a in gate["axioms"].items() if a})
    stats = {}
    replay_case = None
    robj = json.load(open(replay)) if replay else None
    if robj and robj.get("driver", "pipelined") == "pipelined" and robj.get("case", {}).get("ops"):
        c = robj["case"]
        replay_case = [(c["id"], c.get("class", "replay"), tuple(c["params"]), c["ops"])]
    if not robj or replay_case:
        run_buffer(tier, vlib.SEED, v, stats, replay_case)
    if not replay_case:
        import importlib.util
        p = os.path.join(os.path.dirname(os.path.abspath(__file__)), "C16_commit.py")
        if os.path.exists(p):
            spec = importlib.util.spec_from_file_location("c16_commit", p)
            m = importlib.util.module_from_spec(spec); spec.loader.exec_module(m)
            m.run(tier, vlib.SEED, v, stats, robj)
    if not gate["ok"]:
        v.violation({"kind": "proof", "theorem_or_file": gate["problems"], "what": "Coq obligations no longer check"}, has_input=False)
    if tier == "thorough" and gate["ok"]:
        ok, out = vlib.coqchk(["Verif.Pipelined.Props", "Verif.Pipelined.PropsCompose"])
        stats["coqchk"] = "ok" if ok else out[-300:]
        if not ok:
            v.violation({"kind": "proof", "theorem_or_file": "coqchk Verif.Pipelined.Props", "what": out[-600:]}, has_input=False)
    cov.update(evaluations=stats.get("model_ops", 0) + stats.get("oracle_evals", 0) + stats.get("commit_evals", 0),
               distinct_nontrivial=stats.get("buffer_nontrivial", 0) + stats.get("commit_nontrivial", 0),
               rule="buffer: directed scripts (level fall-through, cache drop, in-flight writes, failed flush, staging, stale cache) + seeded random op scripts in classes rand/force/thresh/err/staging/stale, each ending in a commit attempt and a read-back of every key; distinct = distinct implementation traces with >=1 started flush and >=1 read. commit: see commit_rule",
               samples=stats.pop("samples", [])[:6] + stats.pop("commit_samples", [])[:4],
               traces_validated_against_impl=stats.get("buffer_cases", 0) + stats.get("commit_cases", 0),
               input_distribution=stats.get("classes", {}), detail=stats)
    rc = v.finish()
    vlib.write_evidence(PID, cov, t0, violations=len(v.violations), level="proof",
                        assumptions=["keys are non-empty byte strings (the callback uses len(bound)==0 as 'unset')",
                                     "one goroutine drives the buffer (PipelinedMemDB is documented as not concurrency safe); the flush function is the only concurrent party",
                                     "region layout does not change while a resolve runs"])
    return rc
