"""C08 — ART ≡ RBT ≡ reference model (ordered map with nested undo).
Proof: coq/theories/MemBuf/Props.v (L1 value-log model refines the L0 staged-map reference; snapshot,
iteration, limits, stack discipline).  Correspondence: the Go driver (overlay root ov_c08,
internal/zz_verif/membuf) runs identical generated op sequences on the ART and the RBT MemBuffer, compares
them pairwise in-process after every op and prints every result; the extracted models L0 and L1
(ocaml/membuf) recompute every result.  Oracles on the implementation: ART≡RBT (every op + full dump after
every mutator), impl ≡ L0 on every sequence (reverts to any live checkpoint included), iteration strictly
ordered and inside its bounds, handle round trip, snapshot API variants agree (incl. the batched reverse scan over the empty key, F25), empty
non-nil bounds = unbounded (F26), every call terminates (watchdog), stale iterators/snapshots fail loudly.
F03/F03b (fixed by 6b4091a) stays as directed regression sequences d-f03b / d-f03b-more."""
import os, time, json, subprocess, hashlib
import vlib
from vlib import Verdict

PID = "C08"
PROPS = [("theories/MemBuf/Props.v", "MemBuf.Props")]
AREAS = ["theories/MemBuf"]
MUTATORS = {"set", "flags", "staging", "release", "cleanup", "cp", "revert", "limits", "bopen", "bnext"}  # bopen/bnext mutate the harness' iterator object
MAX_MINIMISE = 4


_RUNDIR = [None]


def rundir():
    """scratch directory of THIS run (driver output, model output, replay batches): unique per process, on the RAM
    disk when there is one — the big driver output must neither depend on free space of the shared disk nor collide
    with another run of this check; removed at the end (VERIF_C08_KEEP=1 keeps it and prints the path)"""
    if _RUNDIR[0] is None:
        import tempfile
        base = "/dev/shm" if os.path.isdir("/dev/shm") and os.access("/dev/shm", os.W_OK) else os.path.join(vlib.BUILD, "run")
        os.makedirs(base, exist_ok=True)
        _RUNDIR[0] = tempfile.mkdtemp(prefix="verif-%s-" % PID, dir=base)
    return _RUNDIR[0]


def drop_rundir():
    if _RUNDIR[0] and os.path.isdir(_RUNDIR[0]):
        if os.environ.get("VERIF_C08_KEEP"):
            vlib.log("C08: run files kept in " + _RUNDIR[0])
        else:
            import shutil
            shutil.rmtree(_RUNDIR[0], ignore_errors=True)
    _RUNDIR[0] = None


def pipeline(exe, modelrun, env, args, tag):
    """driver | tee drv | modelrun > mr ; returns (drv_path, mr_path) or error string"""
    d = rundir()
    drv, mr = os.path.join(d, f"{tag}.drv"), os.path.join(d, f"{tag}.mr")
    cmd = "set -o pipefail; %s %s | tee %s | %s > %s" % (exe, " ".join(args), drv, modelrun, mr)
    p = subprocess.run(["bash", "-c", cmd], env=env, stdout=subprocess.PIPE, stderr=subprocess.STDOUT, text=True, errors="replace", timeout=3000)
    if p.returncode != 0:
        msg = "driver|modelrun failed rc=%d (cmd: %s); stderr tail: %s" % (p.returncode, cmd, p.stdout[-1500:])
        vlib.log("C08: " + msg)
        return None, msg
    return (drv, mr), None


def parse_mr(path):
    """per sequence: {'mism': [...], 'l0': [(idx, haz, op, impl, l0)], 'notes': [(idx, what)]}; stats; counts"""
    seqs, stats, counts = {}, {}, {}
    for line in open(path, errors="replace"):
        f = line.rstrip("\n").split("\t")
        if f[0] == "STATS":
            stats.update({kv.split("=")[0]: int(kv.split("=")[1]) for kv in f[1:]})
        elif f[0] == "COUNT":
            counts[f[1]] = int(f[2])
        elif f[0] in ("MISMATCH", "L0DIFF", "NOTE"):
            s = seqs.setdefault(f[1], {"mism": [], "l0": [], "notes": []})
            if f[0] == "MISMATCH":
                s["mism"].append((int(f[2]), f[3], f[4], f[5]))
            elif f[0] == "L0DIFF":
                s["l0"].append((int(f[2]), f[3] == "haz=1", f[4], f[5], f[6]))
            else:
                s["notes"].append((int(f[2]), f[3]))
    return seqs, stats, counts


def parse_drv(path, want_ids):
    """P failures per sequence, PC counters, and the op lists of the wanted sequences"""
    pf, pc, ops, cur, keep, samples = {}, {}, {}, None, False, []
    for line in open(path, errors="replace"):
        if line.startswith("O\t"):
            if keep:
                f = line.rstrip("\n").split("\t")[1:]
                ops[cur].append(f[:f.index("=>")] if "=>" in f else f)
            continue
        f = line.rstrip("\n").split("\t")
        if f[0] == "SEQ":
            cur = f[1]
            keep = cur in want_ids or len(samples) < 0
            if keep:
                ops[cur] = []
        elif f[0] == "P":
            pf.setdefault(f[2], []).append((f[1], int(f[3]), [x[:400] for x in f[5:]]))
        elif f[0] == "PC":
            pc[f[1]] = int(f[2])
    return pf, pc, ops


def sample_seqs(path, n=4):
    """a few actual sequences (mutators only) for the evidence file"""
    res, cur, k = [], None, 0
    for line in open(path, errors="replace"):
        if line.startswith("SEQ\t"):
            k += 1
            cur = [line.split("\t")[1]] if k % 700 == 1 else None
            if cur is not None:
                res.append(cur)
        elif cur is not None and line.startswith("O\t"):
            f = line.rstrip("\n").split("\t")
            if f[1] in MUTATORS and len(cur) < 25:
                cur.append(" ".join(x[:40] for x in f[1:f.index("=>")]))
        if len(res) > n and cur is None:
            break
    return res[:n + 1]


def write_case(path, cases):
    with open(path, "w") as fh:
        for cid, ops in cases:
            fh.write("SEQ\t%s\treplay\n" % cid)
            for o in ops:
                fh.write("O\t" + "\t".join(o) + "\n")
            fh.write("END\n")


class Runner:
    def __init__(self, exe, modelrun, env):
        self.exe, self.modelrun, self.env, self.n = exe, modelrun, env, 0

    def run(self, cases, mode="auto"):
        """cases: [(id, ops)] -> {id: {'mism','l0','notes','pf'}}"""
        self.n += 1
        f = os.path.join(rundir(), "case-%d.in" % (self.n % 4))
        write_case(f, cases)
        res, err = pipeline(self.exe, self.modelrun, self.env, ["replay", mode, f], "case-%d" % (self.n % 4))
        if err:
            vlib.log("C08: replay batch failed: " + err[-400:])
            return None
        seqs, _, _ = parse_mr(res[1])
        pf, _, _ = parse_drv(res[0], set())
        out = {}
        for cid, _ in cases:
            s = seqs.get(cid, {"mism": [], "l0": [], "notes": []})
            s["pf"] = pf.get(cid, [])
            out[cid] = s
        return out


def kind_of(s):
    """failure kind of one sequence result"""
    if s["pf"]:
        return "oracle:" + s["pf"][0][0]
    if s["l0"]:
        return "impl-differs-from-reference-L0"
    if s["mism"]:
        return "l1-mismatch"
    return None


MIN_BUDGET_S = 40          # per sequence
MIN_TOTAL_S = [150.0]      # per run, shared


def minimise(runner, ops, kind):
    """delta debugging on the mutators (chunks n/2, n/4, ..., 1, removed from the end backwards), keeping the
    failure kind; bounded by a time budget so that big sequences (class `batch`) cannot stall the check"""
    # keep the mutators and, if the failing op is an observer (last op of the cut), that observer
    ops = [o for i, o in enumerate(ops) if o[0] in MUTATORS or i == len(ops) - 1]
    t_end = time.time() + min(MIN_BUDGET_S, max(MIN_TOTAL_S[0], 5.0))
    t_start = time.time()
    r = runner.run([("m", ops)])
    if r is None or kind_of(r["m"]) != kind:
        return ops, r["m"] if r else None, False
    best = r["m"]
    chunk = max(1, len(ops) // 2)
    while time.time() < t_end:
        removed = False
        i = len(ops)
        while i > 0 and time.time() < t_end:
            lo = max(0, i - chunk)
            cand = ops[:lo] + ops[i:]
            if cand and len(cand) < len(ops):
                r = runner.run([("m", cand)])
                if r is not None and kind_of(r["m"]) == kind:
                    ops, best, removed = cand, r["m"], True
            i = lo
        if chunk == 1 and not removed:
            break
        if not removed or chunk > 1:
            chunk = max(1, chunk // 2)
    MIN_TOTAL_S[0] -= time.time() - t_start
    return ops, best, True


def main(tier, replay):
    """never exits non-zero silently: an exception inside the check is printed and reported as a violation"""
    try:
        try:
            return _main(tier, replay)
        finally:
            drop_rundir()
    except BaseException as ex:  # noqa: also KeyboardInterrupt / SystemExit from helpers
        import traceback
        tb = traceback.format_exc()
        print("C08: the check itself crashed:\n" + tb[-3000:], flush=True)
        v = Verdict(PID)
        v.violation({"kind": "check-crashed", "correspondence": "checks/C08.py", "error": tb[-3000:]}, has_input=False)
        rc = v.finish()
        try:
            vlib.write_evidence(PID, {"explanation": "check crashed: " + repr(ex)}, time.time(), violations=1, level="other")
        except Exception:
            pass
        return rc or 1


def _main(tier, replay):
    t0 = time.time()
    v = Verdict(PID)
    cov = {"checker_cmd": "coq/mk.sh theories/MemBuf/Props.vo (coqc 8.16.1, full .vo build) + Print Assumptions per theorem",
           "trusted_base": vlib.TRUSTED_BASE + [
               "modelled: the arena's block structure is abstracted to a linear log (addresses = log length after the append); the radix tree / red-black tree are abstracted to a key table sorted by bytes.Compare (L2 not built); flags are N bit masks",
               "add-only overlay file internal/unionstore/zz_verif_export_membuf.go (constructors/accessors for the RBT and ART wrappers)"]}
    gate = vlib.coq_gate(PID, AREAS, PROPS)
    cov.update(obligations=gate["obligations"], discharged=gate["discharged"], theorems=gate["theorems"],
               axioms={k: a for k, a in gate["axioms"].items() if a})
    env = vlib.goenv(); env["VERIF_SEED"] = str(vlib.SEED); env["VERIF_TIER"] = tier
    okm, modelrun = vlib.build_model("MemBuf")
    okg, exe = vlib.go_build("membuf", roots=("ov_c08",))
    stats, counts, pc, samples = {}, {}, {}, []
    if not (okg and okm):
        v.violation({"kind": "harness-build", "correspondence": "MemBuf driver/model build against the current tree",
                     "error": (exe if not okg else modelrun)}, has_input=False)
    else:
        runner = Runner(exe, modelrun, env)
        if replay:
            rep = json.load(open(replay))
            case = [o.split("\t") for o in rep.get("case", [])]
            f = os.path.join(rundir(), "replay.in")
            write_case(f, [("replay", case)])
            res, err = pipeline(exe, modelrun, env, ["replay", rep.get("mode", "auto"), f], "replay")
        else:
            res, err = pipeline(exe, modelrun, env, [], "gen-%d" % vlib.SEED)
        if err:
            v.violation({"kind": "harness", "correspondence": "MemBuf driver", "error": err}, has_input=False)
        else:
            drv, mr = res
            seqs, stats, counts = parse_mr(mr)
            pf, pc, _ = parse_drv(drv, set())
            bad_ids = set(seqs) | set(pf)
            _, _, opsof = parse_drv(drv, bad_ids)
            samples = sample_seqs(drv)
            results = {}
            for cid in bad_ids:
                s = seqs.get(cid, {"mism": [], "l0": [], "notes": []})
                s["pf"] = pf.get(cid, [])
                results[cid] = s
            shown_kinds = {}
            for cid in sorted(results, key=lambda c: len(opsof.get(c, []))):
                s = results[cid]
                kind = kind_of(s)
                if kind is None:
                    continue
                if shown_kinds.get(kind, 0) >= 2:
                    shown_kinds[kind] = shown_kinds[kind] + 1
                    continue
                shown_kinds[kind] = shown_kinds.get(kind, 0) + 1
                ops = opsof.get(cid, [])
                idxs = [i for (_, i, _) in s["pf"]] + [i for (i, *_r) in s["mism"]] + [i for (i, *_r) in s["l0"]]
                cut = ops[:min(idxs) + 1] if idxs else ops
                # a call that never returns is not minimised (every candidate would wait for the watchdog again)
                mops, ms, ok = minimise(runner, cut, kind) if not (replay or kind == "oracle:call-terminates") else (cut, s, False)
                src = ms if (ok and ms) else s
                obj = {"kind": kind, "sequence": cid, "case": ["\t".join(o) for o in (mops if ok else cut)], "mode": "auto" if ok else "exact",
                       "oracle_failures": [list(x) for x in src["pf"][:4]],
                       "impl_vs_L1": [list(x) for x in src["mism"][:6]],
                       "impl_vs_L0": [list(x) for x in src["l0"][:6]],
                       "ghost_notes": src["notes"][:12]}
                if kind.startswith("oracle:"):
                    obj["what"] = "property oracle %s failed on the implementation" % kind[7:]
                    v.violation(obj)
                elif kind == "impl-differs-from-reference-L0":
                    obj["what"] = "the implementation disagrees with the reference model L0 (C08: ART ≡ RBT ≡ reference)"
                    v.violation(obj)
                else:
                    obj["correspondence"] = "L1 (VLog) vs ART/RBT"
                    obj["what"] = "model L1 and implementation disagree; implementation still agrees with L0 and with all oracles"
                    v.violation(obj, has_input=False)
    if not gate["ok"]:
        v.violation({"kind": "proof", "theorem_or_file": gate["problems"], "what": "Coq obligations no longer check"}, has_input=False)
    elif tier == "thorough":
        # independent re-check of the compiled development
        okc, outc = vlib.coqchk(["Verif.MemBuf.Props"])
        cov["coqchk"] = "ok" if okc else outc[-300:]
        if not okc:
            v.violation({"kind": "proof", "theorem_or_file": "coqchk Verif.MemBuf.Props", "error": outc[-800:]}, has_input=False)
    evals = stats.get("ops", 0) + sum(pc.values())
    cov.update(evaluations=evals, distinct_nontrivial=stats.get("distinct_nontrivial", 0),
               rule="seeded random op sequences per class (small alphabet incl. the empty key and 0x00/0xFF; shared prefixes > 20 bytes and keys that are prefixes of others; fan-out 3..256 below one node; values crossing the 4K/8K/16K arena blocks; entry/buffer limits; checkpoint heavy; iteration bounds nil / empty non-nil / keys / neighbours; repeated no-op flag updates = F02 regression) + directed limit sequences (key 65535/65536 bytes); every mutator followed by observers; distinct_nontrivial = sequences with >= 4 mutators and >= 1 staging/checkpoint, distinct by their mutator list",
               samples=samples, traces_validated_against_impl=stats.get("seqs", 0),
               input_distribution={k: c for k, c in counts.items() if k.startswith("class:")},
               op_distribution={k: c for k, c in counts.items() if k.startswith("op:")},
               oracle_evaluations=pc, model_L1_mismatches=stats.get("mismatches", 0),
               L0_divergences=stats.get("l0diffs", 0),
               L2_structure_and_map_checks=stats.get("l2_checks", 0), L2_diffs=stats.get("l2_diffs", 0),
               tree_shape_dumps_compared=counts.get("op:tree", 0))
    # the thorough driver output is ~0.8 GB: do not leave it on the shared disk
    try:
        for f in os.listdir(rundir()):
            fp = os.path.join(rundir(), f)
            if f.endswith(".drv") and os.path.getsize(fp) > 200 * 1024 * 1024:
                os.remove(fp)
    except OSError:
        pass
    rc = v.finish()
    vlib.write_evidence(PID, cov, t0, violations=len(v.violations), level="proof",
                        assumptions=["bytes are 0..255; Go's bytes.Compare = lex_cmp", "single-threaded use of the buffer (the RWMutex wrappers are not exercised concurrently)",
                                     "only live checkpoint tokens are reverted to: not below the current stage, not cut off by an earlier revert/cleanup (tokens of a released stage stay live)"])
    return rc
