"""C09 — region lookups contain their keys, cover ranges without gaps, do not regress, converge.
Proof: coq/theories/Region/Props.v. Correspondence: in-package Go driver (overlay root harness/go/ov_c09, package
internal/locate + internal/zz_verif/regioncache) runs seeded sequences of topology changes / lookups / cache
invalidations on the real RegionCache over mocktikv.Cluster with a PD wrapper that answers from stale snapshots;
the extracted model (ocaml/region) replays every operation with the logged PD answers as oracle input and must
reproduce every result, every PD request and the whole index (B-tree, by-version map, latestVersions).
The property oracles (containment, gap-free coverage, partition, non-regression, bounded convergence to the
leader known to the ground truth) are evaluated here on the implementation's outputs only."""
import os, time, json, subprocess, collections
import vlib
from vlib import Verdict

PID = "C09"
PROPS = [("theories/Region/Props.v", "Region.Props"), ("theories/Region/PropsRead.v", "Region.PropsRead")]
AREAS = ["theories/Region"]
ROOTS = ("ov_c09",)
CONV_BOUND = 4          # C09_converges: rounds until the request is served by the current leader
REALISTIC = ("rand", "real", "f07", "many", "bkt", "wide")   # mocktikv numbers epochs like TiKV (since /repo c65efb3): the bound holds in every class


def unhex(s):
    return b"" if s == "-" else bytes.fromhex(s)


def contains(s, e, k):
    return s <= k and (k < e or e == b"")


def contains_end(s, e, k):
    if k == b"":
        return e == b""
    return s < k and (k <= e or e == b"")


def parse_loc(s):
    f = s.split(",")
    return dict(id=int(f[0]), ver=int(f[1]), conf=int(f[2]), s=unhex(f[3]), e=unhex(f[4]))


def parse_locs(s):
    return [] if s in ("_", "") else [parse_loc(x) for x in s.split(";")]


def parse_desc(s):
    f = s.split(",")
    return dict(id=int(f[0]), s=unhex(f[1]), e=unhex(f[2]), ver=int(f[3]), conf=int(f[4]), peers=f[5], leader=f[6])


def parse_descs(s):
    return [] if s in ("_", "") else [parse_desc(x) for x in s.split(";")]


def parse_ranges(s):
    return [] if s in ("_", "") else [tuple(unhex(y) for y in x.split(":")) for x in s.split(";")]


def covers(locs, s, e, upto=None):
    """every key of [s,e) (e == b'' : +inf) lies in some location; `upto`: only keys below it need to be covered.
    Returns None if covered, else the first uncovered key."""
    cur = s
    while True:
        if upto is not None and upto != b"" and cur >= upto:
            return None
        if e != b"" and cur >= e:
            return None
        best = None
        for l in locs:
            if contains(l["s"], l["e"], cur):
                if l["e"] == b"":
                    return None
                if best is None or l["e"] > best:
                    best = l["e"]
        if best is None:
            return cur
        cur = best


class Seq:
    __slots__ = ("cls", "seed", "lines", "ops", "truths", "events")


def read_seqs(text):
    """split the trace into sequences; each op = dict(idx, op, args, qs, res, dump, truth_idx, line_no)"""
    seqs, cur, op = [], None, None
    for line in text.split("\n"):
        if not line:
            continue
        f = line.split("\t")
        tag = f[0]
        if tag == "SEQ":
            cur = Seq(); cur.cls, cur.seed, cur.lines, cur.ops, cur.truths, cur.events = f[1], int(f[2]), [], [], [], []
            seqs.append(cur)
            continue
        if cur is None:
            continue
        cur.lines.append(line)
        if tag == "O":
            op = dict(idx=int(f[1]), op=f[2], args=f[3:], qs=[], res="", dump=None, truth=len(cur.truths) - 1, at=len(cur.lines) - 1)
            cur.ops.append(op)
        elif tag == "Q" and op is not None:
            op["qs"].append(f[1:])
        elif tag == "R" and op is not None:
            op["res"] = f[1] if len(f) > 1 else ""
        elif tag == "D":
            if op is not None and op["dump"] is None:
                op["dump"] = f[1:6]
            else:
                cur.events.append(("D", f[1:6], len(cur.ops), len(cur.truths) - 1))
        elif tag == "T":
            cur.truths.append(parse_descs(f[1]))
        elif tag == "X":
            cur.events.append(("X", f[1:], len(cur.ops), len(cur.truths) - 1))
            op = None
    return seqs


def qs_all_have_leader(op):
    for q in op["qs"]:
        if q[0] in ("scan", "batch"):
            for d in parse_descs(q[-1]):
                if d["leader"].split(":")[0] == "0":
                    return False
    return True


def latest_of(dump):
    m = {}
    if dump and dump[2] != "_":
        for x in dump[2].split(";"):
            i, vc = x.split(">")
            v, c = vc.split(",")
            m[int(i)] = (int(v), int(c))
    return m


def regs_of(dump):
    """verid -> (start, end) through the by-version map and the index"""
    ents = {}
    if dump and dump[0] != "_":
        for x in dump[0].split(";"):
            f = x.split(",")
            ents[(f[3], (int(f[0]), int(f[1]), int(f[2])))] = (unhex(f[3]), unhex(f[4]))
    m = {}
    if dump and dump[1] != "_":
        for x in dump[1].split(";"):
            v, st = x.split(">")
            vid = tuple(int(y) for y in v.split(","))
            if (st, vid) in ents:
                m[vid] = ents[(st, vid)]
    return m


def entries_of(dump):
    """(verid, start) -> dict(e=end, bver=bucket version or 0, bkeys=[...] or None)"""
    m = {}
    if dump and dump[0] != "_":
        for x in dump[0].split(";"):
            f = x.split(",")
            bk = f[11] if len(f) > 11 else "-"
            bver, bkeys = 0, None
            if bk != "-":
                v, ks = bk.split("#")
                bver, bkeys = int(v), ([unhex(k) for k in ks.split("/")] if ks else [])
            m[((int(f[0]), int(f[1]), int(f[2])), f[3])] = dict(e=unhex(f[4]), bver=bver, bkeys=bkeys)
    return m


def go_locate_bucket(keys, key):
    """KeyLocation.locateBucket (sort.Search included): the bucket found by the search, or None"""
    if not keys:
        return None
    sl = len(keys) - 1
    i, j = 0, sl
    while i < j:
        h = (i + j) >> 1
        if not (key < keys[h]):
            i = h + 1
        else:
            j = h
    if i == 0 or (i == sl and len(keys[sl]) != 0 and key >= keys[sl]):
        return None
    return (keys[i - 1], keys[i])


def check_seq(sq, fails, stats):
    """evaluates the property oracles on the implementation's outputs; appends (oracle, op idx, detail, finding_class)"""
    prev_latest, prev_ents = {}, {}
    for opi, op in enumerate(sq.ops):
        name, a, res = op["op"], op["args"], op["res"]
        ok = res.startswith("ok")
        body = res[3:] if ok else ""
        stats["oracle_evals"] += 1
        before = sq.ops[opi - 1]["dump"] if opi > 0 else None

        def fail(oracle, detail, fc=""):
            fails.append(dict(oracle=oracle, op=op, detail=detail, finding_class=fc, _seq=sq))
        if res.startswith("panic"):
            fail("no-panic", res)
        if name in ("locate", "try") and ok:
            l, k = parse_loc(body), unhex(a[0])
            if not contains(l["s"], l["e"], k):
                fail("C09_contains", "LocateKey(%s) returned %s which does not contain the key" % (a[0], body))
        elif name == "locate_end" and ok:
            l, k = parse_loc(body), unhex(a[0])
            if not contains_end(l["s"], l["e"], k):
                fail("C09_contains(end key)", "LocateEndKey(%s) returned %s which does not contain the key by end" % (a[0] if k else '""', body))
        elif name == "lbucket" and ok:
            parts = body.split(" ")
            l, k, probe, bres = parse_loc(parts[0]), unhex(a[0]), unhex(a[1]), parts[2]
            if not contains(l["s"], l["e"], k):
                fail("C09_contains", "LocateKey(%s) returned %s which does not contain the key" % (a[0], parts[0]))
            ent = entries_of(op["dump"]).get(((l["id"], l["ver"], l["conf"]), l["s"].hex() or "-"))
            if not op["qs"] and ent is not None and ent["e"] == l["e"] and int(parts[1][1:]) != ent["bver"]:   # a pure cache hit returns the entry itself
                fail("C09_bucket(GetBucketVersion)", "location %s reports bucket version %s, the cached entry has %d" % (parts[0], parts[1], ent["bver"]))
            if bres not in ("nobuckets",):
                stats["bucket_lookups"] = stats.get("bucket_lookups", 0) + 1
                inreg = contains(l["s"], l["e"], probe)
                if bres == "nil":
                    if inreg:
                        fail("C09_bucket_contains", "LocateBucket(%s) on %s returned nil for a key of the region" % (a[1], parts[0]))
                else:
                    bs, be = (unhex(x) for x in bres.split(":"))
                    if inreg and not contains(bs, be, probe):
                        fail("C09_bucket_contains", "LocateBucket(%s) on %s returned [%s) which does not contain the key" % (a[1], parts[0], bres))
                    inside = l["s"] <= bs and (l["e"] == b"" or (be != b"" and be <= l["e"])) and (be == b"" or bs < be)
                    if not inside:
                        found = (not op["qs"]) and ent is not None and ent["bkeys"] is not None and go_locate_bucket(ent["bkeys"], probe) is not None
                        if found:
                            fail("C09_bucket_inside", "LocateBucket(%s) on %s returned [%s) which is not inside the region although the search found it (bucket keys %s)"
                                 % (a[1], parts[0], bres, [x.hex() for x in (ent or {}).get("bkeys") or []]))
                        else:
                            # observation only (outside C09): the fall-back buckets are not clamped to the region
                            stats["obs_bucket_fallback_unclamped"] = stats.get("obs_bucket_fallback_unclamped", 0) + 1
        elif name == "byid" and ok:
            if parse_loc(body)["id"] != int(a[0]):
                fail("C09_contains(by id)", "LocateRegionByID(%s) returned %s" % (a[0], body))
        elif name in ("range", "loadrange") and ok:
            if qs_all_have_leader(op):
                miss = covers(parse_locs(body), unhex(a[0]), unhex(a[1]))
                if miss is not None:
                    fail("C09_range_gap_free", "%s [%s,%s): key %s is in no returned location %s" % (name, a[0], a[1], miss.hex() or "-", body))
        elif name == "batch" and ok:
            if a[0] == "0" or qs_all_have_leader(op):
                locs = parse_locs(body)
                for (s, e) in parse_ranges(a[1]):
                    miss = covers(locs, s, e)
                    if miss is not None:
                        nr = len(parse_ranges(a[1]))
                        fail("C09_range_gap_free", "BatchLocateKeyRanges(%s): key %s of range [%s,%s) (range #%d of %d) is in no returned location %s"
                             % (a[1] if nr <= 8 else "%d ranges %s ... %s" % (nr, a[1][:40], a[1][-30:]), miss.hex() or "-", s.hex() or "-", e.hex() or "-",
                                parse_ranges(a[1]).index((s, e)), nr, body[:300]))
                        break
        elif name in ("bload", "bloads") and ok:
            locs = parse_locs(body)
            if locs and qs_all_have_leader(op):
                rs = [(unhex(a[0]), unhex(a[1]))] if name == "bload" else parse_ranges(a[2])
                upto = locs[-1]["e"]
                for (s, e) in rs:
                    miss = covers(locs, s, e, upto=upto)
                    if miss is not None:
                        fail("C09_range_gap_free(loaded batch)", "%s %s: key %s below the end of the last loaded region is in no loaded region %s"
                             % (name, " ".join(a), miss.hex() or "-", body))
                        break
        elif name == "group" and ok:
            keys = a[0].split(";") if a[0] else []
            parts = body.split(" ")
            first, groups = parts[0], (parts[1] if len(parts) > 1 else "")
            got, regmap = [], regs_of(op["dump"])
            firstok = False
            for g in [x for x in groups.split(";") if x]:
                v, ks = g.split("=")
                ks = ks.split("/")
                got += ks
                if keys and keys[0] in ks and v == first:
                    firstok = True
                vid = tuple(int(y) for y in v.split(","))
                if vid in regmap:
                    s, e = regmap[vid]
                    for k in ks:
                        if not contains(s, e, unhex(k)):
                            fail("C09_group_partition", "key %s grouped under %s whose cached range [%s,%s) does not contain it" % (k, v, s.hex(), e.hex()))
            if sorted(got) != sorted(keys):
                fail("C09_group_partition", "groups %s are not a partition of the keys %s" % (groups, a[0]))
            if keys and not firstok:
                fail("C09_group_partition", "first region %s is not the group of the first key" % first)
        elif name == "groupf" and ok:
            # GroupKeysByRegion with the split-key filter (equalRegionStartKey): every kept key is in its region; keys are only dropped,
            # never invented; for strictly increasing keys no kept key is the start key of its region (C09_group_filter_sorted); for
            # other key lists a kept key equal to its region's start key is an observation outside C09 (counted in the evidence only)
            keys = a[0].split(";") if a[0] else []
            parts = body.split(" ")
            groups = parts[1] if len(parts) > 1 else ""
            regmap, kept = regs_of(op["dump"]), []
            incr = all(unhex(keys[i]) < unhex(keys[i + 1]) for i in range(len(keys) - 1))
            stats["filtered_groupings"] = stats.get("filtered_groupings", 0) + 1
            for g in [x for x in groups.split(";") if x]:
                v, ks = g.split("=")
                ks = ks.split("/")
                kept += ks
                vid = tuple(int(y) for y in v.split(","))
                if vid in regmap:
                    s_, e_ = regmap[vid]
                    for k in ks:
                        if not contains(s_, e_, unhex(k)):
                            fail("C09_group_partition", "key %s grouped under %s whose cached range [%s,%s) does not contain it" % (k, v, s_.hex(), e_.hex()))
                        elif unhex(k) == s_ and incr:
                            fail("C09_group_filter_sorted", "GroupKeysByRegion(%s, equalRegionStartKey): key %s is kept under %s although it is that region's start key" % (a[0], k, v))
                        elif unhex(k) == s_:
                            # observation, no clause of C09: the filter is not consulted for a key served from the last location
                            stats["obs_group_filter_lastloc"] = stats.get("obs_group_filter_lastloc", 0) + 1
            rest = list(keys)
            for k in kept:
                if k in rest:
                    rest.remove(k)
                else:
                    fail("C09_group_partition", "groups %s contain key %s more often than the input %s" % (groups, k, a[0]))
        # a lookup must not fail when every PD answer it got was usable (non-empty, every region with a leader)
        if name == "ctxread" and ok and before and before[0] != "_":
            # replica reads, judged on the cache content before the call: the entry of that version, its peers, the store epochs
            vid = tuple(int(x) for x in a[0].split(","))
            kind, seed, lo = a[1], int(a[2]), a[3] == "1"
            pr, idx = body.split(" ")[0], int(body.split(" ")[1])
            cand = [f for f in (x.split(",") for x in before[0].split(";")) if (int(f[0]), int(f[1]), int(f[2])) == vid]
            if len(cand) == 1:
                f = cand[0]
                peers, rec, work = f[9].split("/"), [int(x) for x in f[10].split("/")], int(f[5])
                sep = dict((int(x.split(">")[0]), int(x.split(">")[1])) for x in before[3].split(";")) if before[3] != "_" else {}
                fresh = lambda j: sep.get(int(peers[j].split(":")[1]), 0) == rec[j]
                stats["replica_reads"] = stats.get("replica_reads", 0) + 1
                what = "GetTiKVRPCContext(%s, %s, seed %d%s) returned peer %s at index %d; entry peers %s work %d recorded epochs %s store epochs %s" % (
                    a[0], kind, seed, ", leaderOnly" if lo else "", pr, idx, f[9], work, f[10], before[3])
                if idx >= len(peers) or peers[idx] != pr or not fresh(idx):
                    fail("C09_read_ctx_sound", what + ": not a peer of the entry on a store nobody failed on")
                elif kind == "follower" and len(peers) > 1 and seed + len(peers) <= 2 ** 32 and idx == work and any(fresh(j) for j in range(len(peers)) if j != work):
                    fail("C09_read_ctx_follower", what + ": the leader although a follower's store is fine")
                    stats["follower_fallbacks"] = stats.get("follower_fallbacks", 0)
                elif ((kind == "preferleader" and fresh(work)) or (lo and kind in ("mixed", "preferleader")) or kind in ("leader", "learner")) and idx != work:
                    fail("C09_read_ctx_prefer_leader", what + ": must be the work peer")
                if kind == "follower" and idx == work and len(peers) > 1 and seed + len(peers) > 2 ** 32 and any(fresh(j) for j in range(len(peers)) if j != work):
                    stats["obs_follower_seed_wrap"] = stats.get("obs_follower_seed_wrap", 0) + 1
        if res == "err" and name in ("locate", "locate_end", "range", "batch", "loadrange", "bload", "bloads", "group", "groupf", "listids") and op["qs"]:
            usable = all(q[-1] not in ("none", "_") for q in op["qs"]) and qs_all_have_leader(op) and \
                     all(d["leader"].split(":")[0] != "0" for q in op["qs"] if q[0] in ("get", "prev", "byid") for d in parse_descs(q[-1]))
            if usable and not (name in ("bload", "bloads") and "0" in (a[2:3] if name == "bload" else a[1:2])):
                fail("C09_converges(lookup fails although PD answered)", "%s %s returned an error; PD answers: %s" % (name, " ".join(a), ["|".join(q)[:200] for q in op["qs"]][:4]))
        # non-regression of latestVersions while the id stays present
        lat = latest_of(op["dump"])
        # C09_no_regress speaks about ids that are never dropped in between: only operations that perform at most
        # one insertion are judged (a multi-insert operation may evict an id and re-install it from a stale answer)
        one_insert = (name in ("locate", "locate_end", "byid") and len(op["qs"]) <= 1) or \
                     (name == "epoch" and len(a[2].split(";")) == 1) or name in ("inval", "expire", "flag", "uplead", "ctx", "try")
        for i, (v, c) in lat.items():
            if i in prev_latest and one_insert:
                pv, pc = prev_latest[i]
                if v < pv or c < pc:
                    fail("C09_no_regress", "latest version of region %d went from (ver %d, conf %d) to (ver %d, conf %d)" % (i, pv, pc, v, c))
        # latestVersions[id] is only dropped together with the entry that carries exactly that version: if that entry is
        # still indexed afterwards the record must still be there and not lower (any operation)
        verids_now = set(k2[0] for k2 in entries_of(op["dump"]))
        for i, (v, c) in prev_latest.items():
            if name != "clear" and any(vid == (i, v, c) for vid in verids_now):
                nv = lat.get(i)
                if nv is None or nv[0] < v or nv[1] < c:
                    fail("C09_no_regress(latest kept)", "latestVersions[%d] was (ver %d, conf %d) and that version is still indexed, but the record is now %s"
                         % (i, v, c, nv))
        # bucket versions of an entry that stays in place never go back
        ents_now = entries_of(op["dump"])
        if one_insert or name in ("bvnm", "ubuckets"):
            for key2, en in ents_now.items():
                if key2 in prev_ents and en["bver"] < prev_ents[key2]["bver"]:
                    fail("C09_bucket_version_mono", "bucket version of entry %s went from %d to %d" % (key2, prev_ents[key2]["bver"], en["bver"]))
        prev_ents = ents_now
        prev_latest = lat
    # stuck situations (leader store down / leaderless region / PD stale): no silent spinning — every failing round changes
    # the cache, consults PD or returns an error
    in_stuck, rounds_at = False, []
    for ev in sq.events:
        if ev[0] != "X":
            continue
        w0 = ev[1][0]
        if w0 == "stuck begin":
            in_stuck, rounds_at, stuck_kind = True, [], ev[1][1]
        elif w0 == "stuck round" and in_stuck:
            rounds_at.append(ev[2])
        elif w0 == "stuck end" and in_stuck:
            in_stuck = False
            rounds_at.append(ev[2])
            for a0, b0 in zip(rounds_at, rounds_at[1:]):
                ops = sq.ops[a0:b0]
                stats["oracle_evals"] += 1
                stats["stuck_rounds"] = stats.get("stuck_rounds", 0) + 1
                if not ops:
                    continue
                before = sq.ops[a0 - 1]["dump"] if a0 > 0 else None
                served = any(e2[0] == "X" and e2[1][0].startswith("reply ok") and a0 <= e2[2] <= b0 for e2 in sq.events)
                progress = served or any(o["qs"] or o["res"] == "err" for o in ops) or ops[-1]["dump"] != before
                if not progress:
                    fails.append(dict(oracle="C09_converges(no silent spin)", op=ops[-1], finding_class="", _seq=sq,
                                      detail="stuck situation %s: a failing round neither changed the cache nor consulted PD nor returned an error" % stuck_kind))
    # after a store was decommissioned and the store check noticed it: real requests (LocateKey + RegionRequestSender) are served
    # by the current leader within 10 locate+send rounds
    for ev in sq.events:
        if ev[0] == "X" and ev[1][0] == "sender end":
            x = ev[1]
            stats["oracle_evals"] += 1
            stats["sender_convs"] = stats.get("sender_convs", 0) + 1
            k, rounds, served, store = unhex(x[1]), int(x[2]), x[3] == "true", x[4]
            tr = [t for t in sq.truths[ev[3]] if contains(t["s"], t["e"], k)]
            lead_store = tr[0]["leader"].split(":")[1] if tr else "?"
            if not served or store != lead_store:
                fails.append(dict(oracle="C09_converges(request after a store was decommissioned)", op=sq.ops[ev[2] - 1] if ev[2] else None, finding_class="", _seq=sq,
                                  detail="a store was drained and became a tombstone while a warm region led by it was idle; after the store check "
                                         "the request for key %s %s after %d locate+send rounds (leader is on store %s)"
                                         % (x[1], ("was served by store %s" % store) if served else "was not served", rounds, lead_store)))
        elif ev[0] == "X" and ev[1][0].startswith("sender panic"):
            fails.append(dict(oracle="no-panic", op=None, finding_class="", _seq=sq, detail=ev[1][0]))
    # convergence, and every served request reached the current leader of the region holding the key
    for ev in sq.events:
        if ev[0] != "X":
            continue
        x, nops, ti = ev[1], ev[2], ev[3]
        w = x[0].split(" ")
        if w[0] == "reply" and w[1] == "ok":
            stats["oracle_evals"] += 1
            k, loc, peer = unhex(x[1]), parse_loc(x[2]), x[3]
            tr = [t for t in sq.truths[ti] if contains(t["s"], t["e"], k)]
            opref = sq.ops[nops - 1] if nops else None
            if not tr or (tr[0]["id"], tr[0]["ver"], tr[0]["conf"]) != (loc["id"], loc["ver"], loc["conf"]) or tr[0]["leader"] != peer:
                fails.append(dict(oracle="C09_converges(served by the current leader)", op=opref, finding_class="", _seq=sq,
                                  detail="request for key %s was served through location %s peer %s; ground truth %s" % (x[1], x[2], peer, tr[:1])))
        elif w[0] == "conv" and w[1] == "end":
            stats["conv"] += 1
            stats["oracle_evals"] += 1
            rounds, okc = int(x[2]), x[3] == "true"
            stats["conv_rounds"][rounds if okc else -1] += 1
            if sq.cls in REALISTIC and (not okc or rounds > CONV_BOUND):
                opref = sq.ops[nops - 1] if nops else None
                fails.append(dict(oracle="C09_converges", op=opref, finding_class="", _seq=sq,
                                  detail="after topology and PD answers stopped changing the request for key %s %s after %d rounds (bound %d)"
                                         % (x[1], "was served" if okc else "was not served", rounds, CONV_BOUND)))


def run_driver(exe, modelrun, env, case=None):
    cmd = [exe, "run"] + [str(x) for x in case] if case else [exe, "gen"]
    p = subprocess.run(cmd, env=env, stdout=subprocess.PIPE, stderr=subprocess.PIPE, timeout=2400)
    if p.returncode != 0:
        # a hang / crash inside a lookup: the truncated trace names the sequence and the operation
        part = p.stdout.decode(errors="replace")
        i = part.rfind("\nSEQ\t")
        tail = part[i + 1:] if i >= 0 else part
        hd = tail.split("\n", 1)[0].split("\t")
        ops = [l for l in tail.split("\n") if l.startswith("O\t")]
        crash = None
        if len(hd) >= 3 and ops:
            f = ops[-1].split("\t")
            crash = {"case": [hd[1], int(hd[2]), int(f[1]) + 1], "operation": " ".join(f[2:]), "trace": tail.split("\n")[-120:],
                     "stderr": p.stderr.decode(errors="replace")[-400:]}
        return None, crash, "driver failed rc=%d: %s" % (p.returncode, p.stderr.decode(errors="replace")[-600:])
    trace = p.stdout.decode(errors="replace")
    rc, cmp_out = vlib.sh([modelrun], inp=trace, timeout=2400)
    if rc != 0:
        return None, None, "modelrun failed: " + cmp_out[-600:]
    return trace, cmp_out, None


def seq_excerpt(sq, upto_op):
    """the trace of the sequence up to and including operation index upto_op"""
    out = []
    for l in sq.lines:
        out.append(l if len(l) < 1500 else l[:1500] + "...")
        if l.startswith("O\t"):
            cur = int(l.split("\t")[1])
            if cur > upto_op:
                out.pop()
                break
    return out[-400:]


def main(tier, replay):
    t0 = time.time()
    v = Verdict(PID)
    cov = {"checker_cmd": "coq/mk.sh theories/Region/Props.vo (coqc 8.16.1, full .vo build) + Print Assumptions per theorem",
           "trusted_base": vlib.TRUSTED_BASE + [
               "modelled, not verified: B-tree as a sorted list; *Region objects shared between the index and the by-version map named by start key; "
               "TTL as an expired flag (no wall clock); stores always resolvable, all peers TiKV and available; buckets, TiFlash, proxies, store epochs not modelled",
               "PD wrapper of the harness (stale snapshots of mocktikv.Cluster)"]}
    gate = vlib.coq_gate(PID, AREAS, PROPS)
    cov.update(obligations=gate["obligations"], discharged=gate["discharged"], theorems=gate["theorems"],
               axioms={k: a for k, a in gate["axioms"].items() if a})
    env = vlib.goenv(); env["VERIF_SEED"] = str(vlib.SEED); env["VERIF_TIER"] = tier
    okm, modelrun = vlib.build_model("Region")
    okg, exe = vlib.go_build("regioncache", roots=ROOTS)
    stats = dict(oracle_evals=0, conv=0, conv_rounds=collections.Counter())
    mstats, classes, mism, fails, samples, distinct, invs = {}, {}, [], [], [], 0, []
    if okg and okm and not replay:
        # directed: the public API over mocktikv's own PD client (F29, fixed by 201b415): bounded range then unbounded range
        pr = subprocess.run([exe, "probe-mockpd"], env=env, stdout=subprocess.PIPE, stderr=subprocess.PIPE, timeout=120).stdout.decode(errors="replace")
        pl = [l for l in pr.splitlines() if l.startswith("PROBE\t")]
        ids = [x.split(",")[0] for x in pl[0].split("\t")[2].split(";")] if pl else []
        stats["oracle_evals"] += 1
        if ids != ["3", "5"]:
            v.violation({"kind": "property-oracle", "oracle": "C09_range_gap_free(mock PD client)", "case": ["probe-mockpd"],
                         "what": "regions [-inf,b) id3 [b,d) id4 [d,+inf) id5, cold cache over mocktikv.NewPDClient: BatchLocateKeyRanges([a,a1),[e,+inf)) "
                                 "must return regions 3 and 5", "implementation_result": pl[:1] or pr[-300:]})
    if okg and okm and not replay:
        # observation only (no clause of C09): follower read with seed 2^32-1 on a 4-peer region whose followers 1, 2 failed
        try:
            pw = subprocess.run([exe, "probe-follower-wrap"], env=env, stdout=subprocess.PIPE, stderr=subprocess.PIPE, timeout=120).stdout.decode(errors="replace")
            stats["probe_follower_wrap"] = [l.split("\t", 1)[1].replace("\t", " ") for l in pw.splitlines() if l.startswith("PROBE\t")][:2]
        except Exception as ex:
            stats["probe_follower_wrap"] = ["probe failed: %s" % ex]
    if okg and okm:
        case = None
        if replay:
            case = json.load(open(replay)).get("case")
        trace, cmp_out, err = run_driver(exe, modelrun, env, case)
        if err and cmp_out:
            v.violation({"kind": "property-oracle", "oracle": "C09_converges(lookup terminates)", "error": err,
                         "what": "the operation did not return (endless loop or crash inside the lookup)", **cmp_out})
        elif err:
            v.violation({"kind": "harness", "correspondence": "Region driver", "error": err}, has_input=False)
        else:
            for l in cmp_out.splitlines():
                f = l.split("\t")
                if f[0] == "STATS":
                    mstats.update({kv.split("=")[0]: int(kv.split("=")[1]) for kv in f[1:]})
                elif f[0] == "COUNT":
                    classes[f[1]] = int(f[2])
                elif f[0] == "SENDERPRIM":
                    stats.setdefault("sender_prims", {})[f[1]] = int(f[2])
                elif f[0].startswith("MISMATCH"):
                    mism.append(f)
                elif f[0] in ("INVARIANT", "TRUTH-NOT-WF", "HISTORY", "PD-NOT-TRUTH"):
                    invs.append(f)
            stats["store_faults"] = trace.count("\nX\tfault getstore")
            seqs = read_seqs(trace)
            del trace
            seen = set()
            for sq in seqs:
                check_seq(sq, fails, stats)
                for op in sq.ops:
                    if op["qs"] or op["op"] in ("batch", "range", "epoch", "uplead", "u_merge", "u_gap", "u_after", "group"):
                        seen.add((op["op"], tuple(op["args"]), tuple(tuple(q) for q in op["qs"]), op["res"], tuple(op["dump"] or ())))
            distinct = len(seen)
            for sq in seqs[:: max(1, len(seqs) // 6)][:6]:
                if sq.ops:
                    op = sq.ops[len(sq.ops) // 2]
                    samples.append("%s/%d op%d %s %s => %s" % (sq.cls, sq.seed, op["idx"], op["op"], " ".join(op["args"])[:160], op["res"][:200]))
            # ---- verdicts
            by_oracle = collections.OrderedDict()
            for f in fails:
                by_oracle.setdefault((f["oracle"], f["finding_class"]), f)
            listed = set()
            try:
                for kf in json.load(open(os.path.join(vlib.VERIF, "known_findings.json"))).get("findings", []):
                    if kf.get("property") == PID:
                        listed.add(kf.get("fingerprint", {}).get("finding_class", "") or kf.get("finding_class", ""))
            except Exception:
                pass
            pending = {}
            for (oracle, fc), f in list(by_oracle.items()):
                if fc and fc not in listed:
                    pending[fc] = pending.get(fc, 0) + len([x for x in fails if x["finding_class"] == fc])
                    del by_oracle[(oracle, fc)]
            cov["pending_findings"] = {k: {"hits": n, "note": "reported, not yet listed in known_findings.json: recorded only"} for k, n in pending.items()}
            for (oracle, fc), f in list(by_oracle.items())[:6]:
                sq, op = f["_seq"], f["op"]
                idx = op["idx"] if op else -1
                obj = {"kind": "property-oracle", "oracle": oracle, "what": f["detail"],
                       "case": [sq.cls, sq.seed, (idx + 1) if idx >= 0 and not oracle.startswith("C09_converges") else -1],
                       "operation": ("%s %s" % (op["op"], " ".join(op["args"]))) if op else "",
                       "implementation_result": op["res"] if op else "", "pd_answers": ["\t".join(q) for q in (op["qs"] if op else [])][:20],
                       "model": "the extracted model reproduces this result (no correspondence mismatch)" if not mism else "see mismatches",
                       "trace": seq_excerpt(sq, idx if idx >= 0 else 10 ** 9)}
                if fc:
                    obj["finding_class"] = fc
                v.violation(obj)
            # the hypotheses of C09_converges_checked, evaluated by the extracted cinvb / truth_wfb on the implementation's states
            byseq = {(s.cls, s.seed): s for s in seqs}
            for m in invs[:3]:
                sq = byseq.get((m[1], int(m[2])))
                idx = int(m[3]) if m[3].lstrip("-").isdigit() else -1
                v.violation({"kind": "property-oracle", "oracle": "C09_converges(invariant of the proof holds in the reached state)",
                             "case": [m[1], int(m[2]), idx + 1 if idx >= 0 else -1], "operation": " ".join(m[4:6]),
                             "what": ("the cache content after this operation violates the invariant cinv relative to the ground truth: " + " ".join(m[6:7])) if m[0] == "INVARIANT"
                                     else ("the region states reported by PD / the stores in this sequence break the epoch discipline relative to the final ground truth (hist_okb false): " + " ".join(m[6:7])) if m[0] == "HISTORY"
                                     else ("after the quiescent point PD / a store does not report the ground truth (hypothesis of C09_converges): " + " ".join(m[6:7])) if m[0] == "PD-NOT-TRUTH"
                                     else "the ground truth at a quiescent point is not a partition into led regions (truth_wfb false)",
                             "state": m[7:8], "trace": seq_excerpt(sq, idx if idx >= 0 else 10 ** 9) if sq else []})
            if mism and not [f for f in fails if not f["finding_class"]]:
                for m in mism[:3]:
                    sq = byseq.get((m[1], int(m[2])))
                    idx = int(m[3]) if m[3].lstrip("-").isdigit() else -1
                    v.violation({"kind": "correspondence", "correspondence": "Region model vs internal/locate (results, PD requests, index content)",
                                 "case": [m[1], int(m[2]), idx + 1 if idx >= 0 else -1], "mismatch": m[:8],
                                 "trace": seq_excerpt(sq, idx if idx >= 0 else 10 ** 9) if sq else [],
                                 "what": "model and implementation disagree; none of %d property-oracle evaluations failed" % stats["oracle_evals"]}, has_input=False)
    else:
        why = (exe if not okg else modelrun)
        v.violation({"kind": "harness-build", "correspondence": "Region driver/model build against the current tree", "error": why}, has_input=False)
    if not gate["ok"]:
        v.violation({"kind": "proof", "theorem_or_file": gate["problems"], "what": "Coq obligations no longer check"}, has_input=False)
    if tier == "thorough" and gate["ok"]:
        okc, outc = vlib.coqchk(["Verif.Region.Props", "Verif.Region.PropsRead"])
        cov["coqchk"] = "ok" if okc else outc[-300:]
        if not okc:
            v.violation({"kind": "proof", "theorem_or_file": "coqchk Verif.Region.Props Verif.Region.PropsRead", "what": outc[-400:]}, has_input=False)
    cov.update(evaluations=mstats.get("cases", 0) + stats["oracle_evals"], distinct_nontrivial=distinct,
               rule="seeded sequences (classes rand: any topology change incl. leaderless regions, real: every region always led, f07: cache miss in the middle + cached unbounded last region, "
                    "many: >128 regions, unit: merger/rangesAfterKey/gap check on arbitrary chains) of split/merge/transfer-leader/add-remove peer/stop-start "
                    "store interleaved with every lookup API, invalidations, forced TTL expiry, reload flags, GC, UpdateLeader, OnRegionEpochNotMatch and request "
                    "rounds; PD answers from stale snapshots with probability 0/0.25/0.5; distinct = distinct (op,args,PD answers,result,index) among operations "
                    "that touch PD or the merger",
               samples=samples, traces_validated_against_impl=mstats.get("cases", 0), input_distribution=classes,
               sequences=mstats.get("seqs", 0), store_replies_compared=mstats.get("replies", 0), invariant_states_checked=mstats.get("inv_checked", 0), invariant_failures=len(invs), truth_wf_checked=mstats.get("wf_checked", 0), histories_checked=mstats.get("hist_checked", 0), pd_truth_answers_checked=mstats.get("pd_truth_checked", 0), history_states=mstats.get("hist_states", 0), model_mismatches=len(mism), oracle_failures=len([f for f in fails if not f["finding_class"]]),
               known_finding_hits=len([f for f in fails if f["finding_class"]]), bucket_lookups=stats.get("bucket_lookups", 0), stuck_rounds=stats.get("stuck_rounds", 0), sender_convergences=stats.get("sender_convs", 0), sender_effects_explained=stats.get("sender_prims", {}), replica_reads=stats.get("replica_reads", 0), transient_getstore_faults=stats.get("store_faults", 0), filtered_groupings=stats.get("filtered_groupings", 0), observations={"bucket_fallback_unclamped": stats.get("obs_bucket_fallback_unclamped", 0), "follower_read_seed_wrap_falls_back_to_leader": stats.get("obs_follower_seed_wrap", 0), "probe_follower_wrap": stats.get("probe_follower_wrap", []), "group_filter_not_consulted_for_last_location": stats.get("obs_group_filter_lastloc", 0)},
               convergence_rounds={str(k): n for k, n in sorted(stats["conv_rounds"].items())}, convergence_bound=CONV_BOUND)
    rc = v.finish()
    vlib.write_evidence(PID, cov, t0, violations=len(v.violations), level="proof",
                        assumptions=["PD answers a key lookup with a region containing the key (possibly stale epoch/leader); a prev-region answer ends at the asked key",
                                     "key ranges handed to the batch APIs are sorted and disjoint (API contract)",
                                     "convergence: epochs behave as in TiKV (a newer description of overlapping keys never has a smaller version; hist_ok — checked by the extracted hist_okb on everything PD and the stores report in a run), "
                                     "topology and PD answers no longer change, every region has a leader on a running store"])
    return rc
