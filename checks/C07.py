"""C07 — a transaction reads its own writes over its snapshot; savepoint rollback undoes.
Proof: coq/theories/Union/Props.v (merge iterator = overlay, get, batch get, latest write wins, cleanup/release/
revert). Correspondence: Go driver `unionstore` (overlay internal/zz_verif/unionstore) runs random programs on
KVUnionStore (ART and RBT buffers, scripted snapshot) and on a real KVTxn over the mock store; the extracted
model (ocaml/union) replays every transcript; the property oracles are evaluated by the driver on the
implementation's outputs against a specification map (snapshot overlaid with the writes in program order,
savepoints = previous versions) and against the implementation's own earlier observations (restore oracles).
Failing programs are minimised in process by the driver. There is no known-finding path any more (F03 was
repaired by 6b4091a; its program is a directed regression on ART, RBT and KVTxn)."""
import os, time, json, tempfile, shutil
import vlib
from vlib import Verdict

PID = "C07"
PROPS = [("theories/Union/Props.v", "Union.Props"), ("theories/Union/PropsX.v", "Union.PropsX"), ("theories/Union/PropsP.v", "Union.PropsP"), ("theories/Union/PropsY.v", "Union.PropsY")]
AREAS = ["theories/Base", "theories/Union"]

CONCLUSION = {
    "revert-restores": "C07_revert_checkpoint: after RevertToCheckpoint(cp) every observable equals the one at Checkpoint()",
    "cleanup-restores": "C07_cleanup_restores: after Staging h; ops; Cleanup h every observable equals the one before Staging",
    "release-keeps": "C07_release_keeps: Release h does not change any observable",
    "iter-strictly-monotone": "C07_iter: iteration yields strictly ascending (descending) keys",
    "iter-within-bounds": "C07_iter: iteration yields only keys inside [lower, upper)",
    "iter-no-tombstone": "C07_iter: deleted keys are not yielded",
    "iter=overlay": "C07_iter: iteration = sorted overlay of snapshot and buffered writes restricted to the bounds (no key repeated or skipped)",
    "get=overlay": "C07_get: get = overlay lookup (buffer first, deletion hides the snapshot)",
    "latest-write-wins": "C07_latest_write_wins: a read after a write returns that write",
    "batchget=overlay": "C07_batch_get: batch get = overlay restricted to the requested keys",
    "batchget-shrinks-keys": "C07_batch_get: the snapshot is asked exactly for the requested keys that are not buffered",
    "flags=fold-of-flag-ops": "C07_flags_fold / C07_flags_undo: flags of a key = fold of its flag operations; undo keeps them (persistent part only when the first value is undone)",
    "has-presume-kne": "C07_flags_fold: KVUnionStore.HasPresumeKeyNotExists = PresumeKNE | PreviousPresumeKNE of the folded flags",
    "iter-with-flags=existing-keys": "C07_len: IterWithFlags yields exactly the existing keys (value or flags) in order with folded flags and current value",
    "len=existing-keys,size=keys+values": "C07_len: Len = number of existing keys; Size = sum of key lengths and current value lengths",
    "write-status(limits)": "entry limit: len(key)+len(value) > limit is rejected without effect; buffer limit: the write is applied and ErrTxnTooLarge returned iff Size exceeds it",
    "stale-iterator-fails-loudly": "C07_write_seq: a buffer iterator used after an accepted write panics (ART), after a rejected one it does not",
    "snapshot-read-ignores-staging": "C07_snapshot_ignores_staging: SnapshotGetter reads the buffer as at the outermost Staging",
    "snapshot-iter-ignores-staging": "C07_snapshot_ignores_staging: SnapshotIter / SnapshotIterReverse iterate the buffer as at the outermost Staging",
    "flush-invisible-to-reads": "C07_pipelined_get / C07_pipelined_flush_invisible: reads of a pipelined transaction = latest of (mutable buffer, flushing buffer, flushed store incl. tombstones, snapshot), whatever the flush schedule and the batch-get cache hold",
    "flush-accepted-iff-no-staging-level": "PipelinedMemDB.Flush(true) is refused exactly when a staging level is open",
    "snapshot-batchget=base-overlay": "C07_snapshot_batch_get: BufferSnapshotBatchGetter = staging-blind view of the buffer overlaid on the snapshot, snapshot asked exactly for the keys the view does not hold",
    "snapshot-object=view-at-creation-or-invalid": "C07_snapshot_seq: a MemBufferSnapshot object used after further operations answers with the staging-blind view of its creation, or refuses (SnapshotSeqNo moved)",
    "dirty-is-monotone": "C07_dirty_monotone: Dirty() never goes back to false",
    "union-iter=overlay-merge": "C07_iter_contract: UnionIter over two iterators that are strictly sorted in the iteration direction yields the sorted overlay (buffer entry wins, buffered tombstone hides); with a failing inner iterator a prefix of it, then the error",
    "open-snapshot-iterator-keeps-its-view": "C07_snapshot_ignores_staging / C07_snapshot_seq: a snapshot iterator that stays open while its level keeps writing (ART: GetSnapshot().BatchedSnapshotIter, RBT: SnapshotIter) yields exactly the staging-blind view of its creation, or refuses once SnapshotSeqNo moved",
    "history-head=buffered-value": "SelectValueHistory starts at the buffered value; a key without value has no history",
    "inspect-stage-covers-changes": "InspectStage(h) reports every key whose buffered value changed since Staging h, each once",
}


def run_driver(exe, modelrun, env, progs=None, timeout=2400):
    """returns (transcript file, model output lines, error); the transcript can be large: stream it"""
    td = tempfile.mkdtemp(prefix="c07-", dir=vlib.BUILD)
    outp = os.path.join(td, "transcript.tsv")
    env = dict(env); env["VERIF_OUT"] = outp
    cmd = [exe]
    if progs is not None:
        pf = os.path.join(td, "progs.json")
        json.dump(progs, open(pf, "w"))
        cmd = [exe, "replay", pf]
    rc, log = vlib.sh(cmd, env=env, timeout=timeout)
    if rc != 0 or not os.path.exists(outp):
        return None, None, "driver failed rc=%d: %s" % (rc, log[-800:])
    rc, mout = vlib.sh("%s < %s" % (modelrun, outp), timeout=timeout)
    if rc != 0:
        return None, None, "modelrun failed: " + mout[-500:]
    return outp, mout.split("\n"), None


def main(tier, replay):
    t0 = time.time()
    v = Verdict(PID)
    cov = {"checker_cmd": "coq/mk.sh theories/Union/Props.vo (coqc 8.16.1, full .vo build) + Print Assumptions per theorem",
           "trusted_base": vlib.TRUSTED_BASE + [
               "modelled, not verified: the buffer's ordered index (ART / red-black tree) is abstracted to 'newest value-log entry of the key' and an ascending list; value-log positions are entry counts instead of byte offsets; the pipelined flush protocol (generations, thresholds, errors) and memory hooks are not modelled",
               "the Go driver's discipline tracker decides which checkpoints are still legal to revert to (a checkpoint dies when the log is truncated below it; reverting below the top staging level is API misuse)"]}
    gate = vlib.coq_gate(PID, AREAS, PROPS)
    cov.update(obligations=gate["obligations"], discharged=gate["discharged"], theorems=gate["theorems"],
               axioms={k: a for k, a in gate["axioms"].items() if a})
    proof_broken = not gate["ok"]
    if tier == "thorough" and gate["ok"]:
        okc, outc = vlib.coqchk(["Verif.Union.Props", "Verif.Union.PropsX", "Verif.Union.PropsP", "Verif.Union.PropsY"])
        cov["coqchk"] = "ok" if okc else outc[-300:]
        if not okc:
            proof_broken = True; gate["problems"].append("coqchk: " + outc[-300:])
    env = vlib.goenv(); env["VERIF_SEED"] = str(vlib.SEED); env["VERIF_TIER"] = tier
    okm, modelrun = vlib.build_model("Union")
    okg, exe = vlib.go_build("unionstore")
    stats = {"cases": 0, "mismatches": 0, "programs": 0}
    classes, pstat, gstat, samples = {}, {}, {}, []
    fails, mism, distinct = [], [], set()
    if okg and okm:
        progs = None
        if replay:
            progs = json.load(open(replay)).get("case")
        tfile, mout, err = run_driver(exe, modelrun, env, progs)
        if err:
            v.violation({"kind": "harness", "correspondence": "Union driver (unionstore) / extracted model", "error": err}, has_input=False)
        else:
            target = ""
            for l in open(tfile):
                f = l.rstrip("\n").split("\t")
                if f[0] == "PROG":
                    target = f[2]
                    if len(samples) < 3:
                        samples.append({"target": target, "snapshot": f[3][:200], "ops": []})
                elif f[0] == "O":
                    if samples and len(samples[-1]["ops"]) < 14 and f[1] == str(len(samples)):
                        samples[-1]["ops"].append(" ".join(x[:60] for x in f[3:]))
                    if f[3] in ("get", "bget", "iter", "riter") and f[-1] not in ("-", "nf") and not f[-1].endswith("res=-"):
                        distinct.add(hash((target, f[3], tuple(f[4:]))))
                    elif f[3] in ("cleanup", "revert", "release"):
                        distinct.add(hash((target, f[1], f[2])))
                elif f[0] == "M":
                    distinct.add(hash(("merge", tuple(f[2:]))))
                elif f[0] == "FAIL":
                    fails.append(f)
                elif f[0] == "PSTAT":
                    pstat[f[1]] = (int(f[2]), int(f[3]))
                elif f[0] == "GSTAT":
                    gstat[f[1]] = int(f[2])
            shutil.rmtree(os.path.dirname(tfile), ignore_errors=True)
            for l in mout:
                f = l.split("\t")
                if f[0] == "STATS":
                    stats.update({kv.split("=")[0]: int(kv.split("=")[1]) for kv in f[1:]})
                elif f[0] == "COUNT":
                    classes[f[1]] = int(f[2])
                elif f[0] == "MISMATCH":
                    mism.append(f[1:])
    else:
        why = (exe if not okg else modelrun)
        v.violation({"kind": "harness-build", "correspondence": "Union driver/model build against the current tree", "error": why}, has_input=False)

    # ---- oracle failures on the implementation (already minimised by the driver)
    seen_min = set()
    known_hits = 0
    for f in fails:
        oracle, idx, orig, mn, transcript, fired, detail = f[1], f[2], f[3], f[4], f[5], f[6] == "true", (f[7] if len(f) > 7 else "")
        if mn in seen_min:
            continue
        seen_min.add(mn)
        minprog = json.loads(mn)
        obj = {"kind": "property-oracle", "oracle": oracle, "violated_conclusion": CONCLUSION.get(oracle, oracle),
               "case": [minprog], "original_program": json.loads(orig), "failing_op_index_in_original": int(idx),
               "implementation_outputs": transcript, "detail": detail,
               "what": "property oracle failed on the implementation (minimised program in 'case')"}
        # model outputs on the minimised program
        if okg and okm and len(seen_min) <= 8:
            l2, m2, e2 = run_driver(exe, modelrun, env, [minprog], timeout=120)
            if not e2:
                shutil.rmtree(os.path.dirname(l2), ignore_errors=True)
                obj["model_vs_implementation"] = [x for x in m2 if x.startswith("MISMATCH")] or "the model agrees with the implementation on every op of this program"
        v.violation(obj)
    # ---- model vs implementation (the driver stops a program at its first oracle failure, so a mismatch
    # in a program that also has an oracle failure is the same event; others are correspondence breaks)
    failing_pids = set(f[8] for f in fails if len(f) > 8)
    unexplained = [m for m in mism if m[0] not in failing_pids]
    for m in unexplained[:3]:
        v.violation({"kind": "correspondence", "correspondence": "Union model (Model.v, faithful buffer) vs unionstore/KVTxn",
                     "line": m, "what": "model and implementation disagree on program %s op %s; no property-oracle failure in that program (%d oracle evaluations in this run)"
                     % (m[0], m[1], sum(n for n, _ in pstat.values()))}, has_input=False)
    if gstat.get("failing-programs-not-classified"):
        v.violation({"kind": "harness", "correspondence": "unionstore driver", "what": "%d failing programs were not minimised/classified (cap reached)" % gstat["failing-programs-not-classified"]}, has_input=False)
    if proof_broken:
        v.violation({"kind": "proof", "theorem_or_file": gate["problems"], "what": "Coq obligations no longer check"}, has_input=False)
    n_oracle = sum(n for n, _ in pstat.values())
    cov.update(evaluations=stats.get("cases", 0) + n_oracle,
               distinct_nontrivial=len(distinct),
               rule="random programs (seeded) of set/delete (with flag ops, some probing a stale buffer iterator)/update-flags/get/get-flags/len+size/batch-get(with duplicate keys)/iter/iter-reverse/iter-with-flags/snapshot get+iter/history/inspect-stage/limits/staging/release/cleanup/checkpoint/revert, "
                    "~40 ops (every 10th 120), key pool of 3-11 adversarial keys per program (empty key, 00/ff runs, prefix chains, a 23-byte common prefix), values of length 1-3 "
                    "(same-length overwrites frequent, in place or appended depending on staging position and lastCheckpoint) and some of 1.2-4 KB (cross arena blocks), arbitrary bounds incl. lower>upper; directed F03 regression programs (same-length overwrite after a checkpoint, plain / in a level / after release / two checkpoints) on every target; "
                    "targets: KVUnionStore+ART, KVUnionStore+RBT over a scripted snapshot, real KVTxn over mocktikv (several regions with adversarial split keys, region splits in the middle of a program, open-ended reverse scans, repeated batch gets on a warm snapshot cache) with committed base data; UnionIter driven directly with scripted iterators (empty snapshot values, broken sortedness contract, failing inner iterator); real PipelinedMemDB with a scripted flush function (flush start / completion / wait schedules, batch-get cache); "
                    "distinct_nontrivial = distinct (target, read op, arguments, non-empty result) tuples plus effective cleanup/revert/release executions",
               samples=samples, traces_validated_against_impl=stats.get("programs", 0), programs=stats.get("programs", 0),
               ops_compared_with_model=stats.get("cases", 0), oracle_evaluations={k: n for k, (n, _) in pstat.items()},
               oracle_failures={k: x for k, (_, x) in pstat.items() if x}, generator=gstat,
               input_distribution=classes, model_mismatches=len(mism))
    rc = v.finish()
    vlib.write_evidence(PID, cov, t0, violations=len(v.violations), level="proof",
                        assumptions=["bytes are 0..255; Go's bytes.Compare = lex_cmp (cross-checked by C19)",
                                     "the snapshot returns non-empty values, ascending/descending within the bounds (contract of uSnapshot; the scripted snapshot implements it, mocktikv is observed through KVTxn)",
                                     "savepoint calls follow the API discipline (handles from Staging, live checkpoints); misuse with a wrong handle is exercised and must panic without changing the view"])
    return rc
