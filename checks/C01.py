"""C01 — committed transactions form a snapshot-isolated, externally consistent history.
Proof: coq/theories/SI/Props.v (C01_*: the history oracle is sound w.r.t. the abstract MVCC semantics; write-write
disjointness and external consistency follow from the request-stream rules + store rules). Search: concurrent workloads
of begin/get/batch-get/scan/set/insert/delete/lock-keys/commit/rollback over shared keys (driver `txn`, program mode,
unistore), interleaved at API-call granularity with commits running concurrently, splits, all commit modes x
{optimistic, pessimistic}; every read is replayed against the timestamp-ordered committed history (MVCC dump)."""
import os, sys, time, json, random
import vlib, txnlab
from vlib import Verdict

PID = "C01"
PROPS = [("theories/SI/Props.v", "SI.Props")]
AREAS = ["theories/SI"]
KEYS = ["k1", "k2", "k3", "k4", "k5", "k6"]


def gen_history(rng, idx):
    nt = rng.choice([2, 3, 3, 4, 5])
    names = [f"t{i+1}" for i in range(nt)]
    txns = {}
    for t in names:
        mode = rng.choice(["2pc", "async", "1pc", "async1pc"])
        txns[t] = {"mode": mode, "pessimistic": rng.random() < 0.45, "causal": False, "ops": []}
    preload = [{"k": k, "v": "p-" + k} for k in KEYS if rng.random() < 0.6]
    splits = rng.sample(KEYS[1:], rng.choice([0, 1, 2, 3]))
    prog, alive, begun, locked = [], set(), set(), {t: set() for t in names}
    touched = {t: set() for t in names}
    seq = 0
    steps = rng.randrange(12, 34)
    for _ in range(steps):
        t = rng.choice(names)
        if t not in begun:
            prog.append({"t": t, "op": "begin"}); begun.add(t); alive.add(t); continue
        if t not in alive:
            if rng.random() < 0.3:
                # a new transaction under a new name is not supported by the driver; just skip
                pass
            continue
        pess = txns[t]["pessimistic"]
        x = rng.random()
        k = rng.choice(KEYS)
        seq += 1
        val = f"{t}.{seq}"
        if x < 0.22:
            prog.append({"t": t, "op": "get", "k": k})
        elif x < 0.30:
            prog.append({"t": t, "op": "bget", "ks": rng.sample(KEYS, rng.randrange(1, 5))})
        elif x < 0.38:
            lo, hi = sorted(rng.sample(KEYS + ["", "k7"], 2)) if rng.random() < 0.7 else ("", "")
            # forward scans only: unistore's reverse scan returns versions newer than the read ts (environment defect,
            # seen as t3.rscan reading a value committed after t3's start while the RPC carried the right version);
            # reverse scans are covered by C05 on the in-repo mock store
            op = "scan"
            prog.append({"t": t, "op": op, "k": lo, "v": hi})
        elif x < 0.62:
            if pess and k not in locked[t]:
                prog.append({"t": t, "op": "lock", "ks": [k], "wait": 40, "rv": rng.random() < 0.7}); locked[t].add(k)
            touched[t].add(k)
            prog.append({"t": t, "op": "set", "k": k, "v": val, "rv": True})
        elif x < 0.70:
            if pess and k not in locked[t]:
                prog.append({"t": t, "op": "lock", "ks": [k], "wait": 40, "rv": True}); locked[t].add(k)
            touched[t].add(k)
            prog.append({"t": t, "op": "del", "k": k, "rv": True})
        elif x < 0.78:
            if k in touched[t]:
                continue   # an insert is generated only for a key this transaction has not written yet (key flags set by a
                           # failed insert survive the statement's undo and would re-interpret an earlier delete)
            touched[t].add(k)
            prog.append({"t": t, "op": "insert", "k": k, "v": val})   # pessimistic: buffered + locked with existence check, discarded on failure
            if pess:
                locked[t].add(k)
        elif x < 0.84 and pess:
            ks = rng.sample(KEYS, rng.randrange(1, 3))
            prog.append({"t": t, "op": "lock", "ks": ks, "wait": 40, "rv": True}); locked[t] |= set(ks)
        elif x < 0.88:
            prog.append({"t": t, "op": "split", "k": k})
        else:
            fin = rng.choice(["commit", "commit", "commit", "rollback"])
            st = {"t": t, "op": fin}
            if fin == "commit" and rng.random() < 0.35:
                st["async"] = True
            prog.append(st); alive.discard(t)
    for t in names:
        if t in alive:
            prog.append({"t": t, "op": rng.choice(["commit", "commit", "rollback"])})
    # in a third of the histories another client reads every key at a fresh timestamp just before some requests of t1's
    # client are delivered (meets half-written transactions, pushes min-commit timestamps under a running commit), and a
    # sixth runs with the store declining async commit / 1PC (fallback to 2PC)
    extras = []
    if rng.random() < 0.34:
        extras = [{"at": a, "what": "push_min_commit", "k": ""} for a in sorted(rng.sample(range(0, 24), rng.randrange(2, 7)))]
    sc = {"id": f"h{idx}", "backend": "unistore", "splits": splits, "preload": preload, "batch_size": rng.choice([0, 0, 24, 3]),
          "txn": {"mode": "2pc", "ops": []}, "txns": txns, "program": prog, "keys": KEYS, "black_from": -1, "extras": extras,
          "resolve_before_audit": True}
    if rng.random() < 0.17:
        sc["safe_window_ms"] = 0
    return sc


def si_history_ok(sc, r, obs_out=None):
    """replays all reads against the ts-ordered committed history; returns list of violations.
    obs_out (optional dict): receives the committed history and every point read (get / batch-get item) with this
    oracle's own verdict, for the differential against the extracted Coq checker (SI.Model.obs_ok)"""
    bad = []
    txns = r.get("txns") or {}
    steps = {s["i"]: s for s in r.get("steps", [])}
    audit = r.get("audit_pre") or {}
    pre = {p["k"]: p["v"] for p in sc.get("preload", [])}
    # committed history per key from the MVCC dump: list of (commit_ts, start_ts, value|None)
    hist = {}
    for k in sc["keys"]:
        ws = []
        for w in (audit.get(k) or {}).get("writes", []):
            if w["type"] == "Put":
                ws.append((w["commit"], w["start"], w["short"]))
            elif w["type"] in ("Delete", "Del"):
                ws.append((w["commit"], w["start"], None))
        hist[k] = sorted(ws)
    if obs_out is not None:
        obs_out["hist"] = hist; obs_out["obs"] = []; obs_out["scans"] = []
    def read_at(k, ts):
        best = None
        for c, s, val in hist[k]:
            if c <= ts:
                best = val
        return best
    start_of = {t: tv["start"] for t, tv in txns.items()}
    by_start = {tv["start"]: t for t, tv in txns.items()}
    # buffered writes per transaction as the program proceeds (own writes)
    buf = {t: {} for t in txns}
    fu_of = {t: {} for t in txns}
    begin_seq, told_seq = {}, {}
    for e in r.get("trace", []):
        if e["kind"] == "begin" and e["f"]["start"] in by_start:
            # the instant Begin was CALLED (logged before the start ts is fetched); the begin event itself is logged after
            # Begin returned, when another transaction's acknowledgement may already lie in between
            begin_seq[by_start[e["f"]["start"]]] = e["f"].get("call_seq", e["seq"])
        if e["kind"] == "told" and e["f"].get("finish") == "commit" and e["f"]["start"] in by_start and e["f"].get("res") == "ok":
            told_seq[by_start[e["f"]["start"]]] = e["seq"]
    writes = {t: {} for t in txns}
    inserted = {t: set() for t in txns}
    for i, st in enumerate(sc["program"]):
        res = steps.get(i)
        if res is None or res.get("skipped"):
            continue
        t = st.get("t")
        if t not in txns:
            continue
        S = start_of[t]
        def expect(k):
            if k in buf[t]:
                return buf[t][k]
            return read_at(k, S)
        def note(k, got):
            if obs_out is not None and k in hist:
                obs_out["obs"].append({"step": i, "ts": S, "k": k, "own": (k in buf[t]), "own_v": buf[t].get(k), "got": got, "py_ok": got == expect(k)})
        if st["op"] == "get" and "err" not in res:
            note(st["k"], res.get("v"))
            if res.get("v") != expect(st["k"]):
                bad.append(f"step {i}: {t}.get({st['k']}) = {res.get('v')!r}, the committed history at start ts says {expect(st['k'])!r}")
        elif st["op"] == "bget" and "err" not in res:
            for k, got in (res.get("vals") or {}).items():
                note(k, got)
                if got != expect(k):
                    bad.append(f"step {i}: {t}.batch_get {k} = {got!r}, want {expect(k)!r}")
        elif st["op"] in ("scan", "rscan") and "err" not in res:
            lo, hi = st.get("k") or "", st.get("v") or ""
            want = []
            for k in sorted(set(sc["keys"]) | set(buf[t])):
                if (lo == "" or k >= lo) and (hi == "" or k < hi):
                    val = expect(k)
                    if val is not None and val != "":
                        want.append([k, val])
            if st["op"] == "rscan":
                want.reverse()
            got = [p for p in (res.get("pairs") or []) if p[0] in sc["keys"] or p[0] in buf[t]]
            if obs_out is not None and st["op"] == "scan" and all(k in hist for k in buf[t]) and all(p[1] not in (None, "") for p in got):
                obs_out["scans"].append({"step": i, "ts": S, "keys": [k for k in sorted(sc["keys"]) if (lo == "" or k >= lo) and (hi == "" or k < hi)],
                                         "own": dict(buf[t]), "got": [list(p) for p in got], "py_ok": got == want})
            if got != want:
                bad.append(f"step {i}: {t}.{st['op']}[{lo},{hi}) = {got}, want {want}")
        elif st["op"] == "lock" and "err" not in res:
            fu = res.get("for_update") or 0
            for k in st.get("ks", []):
                fu_of[t].setdefault(k, fu)
            if st.get("rv") and txns[t]["pessimistic"]:
                for k, got in (res.get("vals") or {}).items():
                    want = read_at(k, fu)
                    if k in buf[t] or got == "<already-locked>":
                        continue
                    if got != want and not (got in (None, "") and want in (None, "")):
                        bad.append(f"step {i}: {t}.lock_keys(return values) {k} = {got!r}, newest committed value at the for-update ts is {want!r}")
        elif st["op"] == "set" and "err" not in res:
            buf[t][st["k"]] = st["v"]; writes[t][st["k"]] = st["v"]
        elif st["op"] == "insert" and "err" not in res:
            buf[t][st["k"]] = st["v"]; writes[t][st["k"]] = st["v"]; inserted[t].add(st["k"])
            if res.get("for_update"):
                fu_of[t].setdefault(st["k"], res["for_update"])
        elif st["op"] == "del" and "err" not in res:
            buf[t][st["k"]] = None; writes[t][st["k"]] = None
    committed = {t: tv for t, tv in txns.items() if tv["result"] == "ok" and tv["commit_ts"]}
    # the MVCC records of a committed transaction carry its commit ts on every written key; nothing of the others is visible
    for t, tv in txns.items():
        S = tv["start"]
        recs = {k: [(c, val) for c, s, val in hist[k] if s == S] for k in sc["keys"]}
        if t in committed:
            for k, val in writes[t].items():
                if k in inserted[t] and val is None:
                    continue
                got = recs.get(k) or []
                if not got:
                    bad.append(f"{t} committed but its write of {k} is missing from the store")
                elif got[-1][0] != tv["commit_ts"]:
                    bad.append(f"{t}: write of {k} committed at {got[-1][0]}, Commit reported {tv['commit_ts']}")
                elif got[-1][1] != val:
                    bad.append(f"{t}: committed value of {k} is {got[-1][1]!r}, last buffered write was {val!r}")
        elif tv["result"] != "undetermined":
            vis = [k for k, g in recs.items() if g]
            if vis:
                bad.append(f"{t} ended with {tv['result']} but its writes on {vis} are visible")
    # insert semantics
    for t in committed:
        for k in inserted[t]:
            if writes[t].get(k) is None:
                continue
            before = read_at(k, committed[t]["commit_ts"] - 1)
            if before not in (None, ""):
                bad.append(f"{t} committed an insert of {k} although the key held {before!r} at its commit point")
    # write-write disjointness of overlapping committed transactions
    cl = list(committed.items())
    for a in range(len(cl)):
        for b in range(a + 1, len(cl)):
            (ta, va), (tb, vb) = cl[a], cl[b]
            for k in set(writes[ta]) & set(writes[tb]):
                # an optimistic insert-then-delete writes nothing on the key (check-not-exists only)
                if (k in inserted[ta] and writes[ta][k] is None) or (k in inserted[tb] and writes[tb][k] is None):
                    continue
                sa = fu_of[ta].get(k, va["start"]) if va["pessimistic"] else va["start"]
                sb = fu_of[tb].get(k, vb["start"]) if vb["pessimistic"] else vb["start"]
                if sa <= vb["commit_ts"] and sb <= va["commit_ts"]:
                    bad.append(f"{ta} [{sa},{va['commit_ts']}] and {tb} [{sb},{vb['commit_ts']}] overlap and both wrote {k}")
    # external consistency: commit acknowledged before Begin => start ts not below commit ts
    for ta in committed:
        for tb in txns:
            if ta != tb and ta in told_seq and tb in begin_seq and told_seq[ta] < begin_seq[tb]:
                if txns[tb]["start"] < committed[ta]["commit_ts"]:
                    bad.append(f"{ta} was acknowledged before {tb} began, but start({tb}) = {txns[tb]['start']} < commit({ta}) = {committed[ta]['commit_ts']}")
    return bad


def coq_oracle_lines(items):
    """items: list of (id, keys, obs_out). One modelrun line per history (see ocaml/si/driver.ml)."""
    lines = []
    for hid, keys, oo in items:
        kid = {k: i + 1 for i, k in enumerate(sorted(keys))}
        vid = {}
        def V(x):
            if x is None:
                return "-"
            if x not in vid:
                vid[x] = len(vid) + 1
            return "%x" % vid[x]
        h = ";".join("%x=%s" % (kid[k], ",".join("%x.%x.%s" % (c, s_, V(val)) for c, s_, val in oo["hist"][k])) for k in sorted(keys))
        o = ",".join("%x.%x.%s.%s" % (ob["ts"], kid[ob["k"]], ("n" if not ob["own"] else ("d" if ob["own_v"] is None else "v" + V(ob["own_v"]))), V(ob["got"]))
                     for ob in oo["obs"])
        sl = ";".join("%x/%s/%s/%s" % (sn["ts"], ".".join("%x" % kid[k] for k in sn["keys"]) or "~",
                                       ",".join("%x:%s" % (kid[k], "d" if w in (None, "") else "v" + V(w)) for k, w in sorted(sn["own"].items())) or "~",
                                       ",".join("%x:%s" % (kid[p[0]], V(p[1])) for p in sn["got"]) or "~")
                      for sn in oo.get("scans", []))
        lines.append(f"{hid} {h or '~'} {o or '~'} {sl or '~'}")
    return lines


def coq_oracle_diff(mexe, items):
    """runs the extracted Coq checker on every history; returns (reads compared, list of disagreements)"""
    import subprocess
    out = subprocess.run([mexe], input="\n".join(coq_oracle_lines(items)) + "\n", capture_output=True, text=True, timeout=600)
    if out.returncode != 0:
        return 0, [{"error": out.stderr[-400:]}]
    got = {l.split(" ")[0]: l.split(" ")[1:] for l in out.stdout.splitlines() if l.strip()}
    n, dis = 0, []
    for hid, keys, oo in items:
        ans = got.get(hid) or ["", ""]
        bits = "" if ans[0] == "~" else ans[0]
        sbits = "" if len(ans) < 2 or ans[1] == "~" else ans[1]
        if len(sbits) != len(oo.get("scans", [])):
            dis.append({"history": hid, "error": "scan answer length"})
        else:
            for sn, b in zip(oo.get("scans", []), sbits):
                n += 1
                if (b == "1") != sn["py_ok"]:
                    dis.append({"history": hid, "scan": sn, "coq_scan_ok": b == "1", "python_ok": sn["py_ok"]})
        if len(bits) != len(oo["obs"]):
            dis.append({"history": hid, "error": "answer length"}); continue
        for ob, b in zip(oo["obs"], bits):
            n += 1
            if (b == "1") != ob["py_ok"]:
                dis.append({"history": hid, "obs": ob, "coq_obs_ok": b == "1", "python_ok": ob["py_ok"]})
    return n, dis


def main(tier, replay):
    sys.path.insert(0, os.path.dirname(os.path.abspath(__file__)))
    t0 = time.time()
    v = Verdict(PID)
    rng = random.Random(vlib.SEED)
    cov = {"checker_cmd": "coq/mk.sh theories/SI/Props.vo + Print Assumptions", "trusted_base": vlib.TRUSTED_BASE}
    if os.path.exists(os.path.join(vlib.COQ, PROPS[0][0])):
        g = vlib.coq_gate(PID, AREAS, PROPS)
        cov.update(obligations=g["obligations"], discharged=g["discharged"], theorems=g["theorems"], axioms={k: a for k, a in g["axioms"].items() if a})
        if not g["ok"]:
            v.violation({"kind": "proof", "theorem_or_file": g["problems"], "what": "Coq obligations no longer check"}, has_input=False)
    else:
        cov.update(obligations=0, discharged=0)
        v.violation({"kind": "proof", "theorem_or_file": ["coq/theories/SI/Props.v missing"], "what": "no theorem yet"}, has_input=False)
    if tier == "thorough" and cov.get("obligations") and cov.get("obligations") == cov.get("discharged"):
        from perc_gate import thorough_coqchk
        thorough_coqchk("Verif.SI.Props", cov, v)
    okd, exe = txnlab.build_driver()
    if not okd:
        v.violation({"kind": "harness-build", "correspondence": "txn driver build against the current tree", "error": exe}, has_input=False)
        rc = v.finish(); vlib.write_evidence(PID, dict(cov, evaluations=0, distinct_nontrivial=0, rule="driver did not build", samples=[]), t0, 1); return rc
    if replay:
        sc = json.load(open(replay))["scenario"]
        r = txnlab.run_scenarios(exe, [sc], jobs=1)[0]
        bad = si_history_ok(sc, r)
        print("replay:", sc["id"], "violations:", bad)
        if bad:
            v.violation({"kind": "property-oracle", "scenario": sc, "violated": bad})
        return v.finish()
    okm, mexe = vlib.build_model("SI")
    if not okm:
        v.violation({"kind": "harness-build", "correspondence": "extracted Coq history checker (coq/extract/SI.v)", "error": mexe}, has_input=False)
    n = 900 if tier == "quick" else 8000
    scs = [gen_history(rng, i) for i in range(n)]
    res = txnlab.run_scenarios(exe, scs)
    nviol, dist, distinct, traces = 0, {}, set(), []
    reads = 0
    coq_items = []
    for sc, r in zip(scs, res):
        if r.get("fatal"):
            nviol += 1
            if nviol <= 3:
                v.violation({"kind": "harness", "correspondence": "txn driver program run", "error": r["fatal"], "scenario": sc}, has_input=False)
            continue
        oo = {}
        bad = si_history_ok(sc, r, oo)
        coq_items.append((sc["id"], sc["keys"], oo))
        nc = sum(1 for tv in r["txns"].values() if tv["result"] == "ok")
        nf = sum(1 for tv in r["txns"].values() if tv["result"].startswith("err"))
        reads += sum(1 for s in r["steps"] if s["op"] in ("get", "bget", "scan", "rscan", "lock"))
        for tv in r["txns"].values():
            dk = f"{tv['mode']}/{'pess' if tv['pessimistic'] else 'opt'}/{tv['result'][:14]}"
            dist[dk] = dist.get(dk, 0) + 1
        if nc >= 2:
            distinct.add(json.dumps(sc["program"]))
        if bad:
            nviol += 1
            if nviol <= 5:
                v.violation({"kind": "property-oracle", "scenario": sc, "violated": bad[:6], "txns": r["txns"],
                             "steps": [{k: s.get(k) for k in ("i", "t", "op", "err", "v", "vals", "pairs", "for_update", "commit_ts")} for s in r["steps"]]})
        traces.append((sc, r))
    if okm:
        # differential between the two oracles: python read check vs extracted SI.Model.obs_ok on the same history + reads
        nread, dis = coq_oracle_diff(mexe, coq_items)
        cov.update(coq_oracle_reads=nread, coq_oracle_disagreements=len(dis))
        for d in dis[:3]:
            v.violation({"kind": "oracle-differential", "correspondence": "python si_history_ok read check vs extracted Coq obs_ok (C01_history_oracle_sound)", "detail": d}, has_input=False)
    if okm:
        # resolver status cache: getTxnStatus across calls vs the extracted glue model (own module checks/C01_status.py)
        import importlib.util
        _sp = importlib.util.spec_from_file_location("C01_status", os.path.join(os.path.dirname(os.path.abspath(__file__)), "C01_status.py"))
        C01_status = importlib.util.module_from_spec(_sp); _sp.loader.exec_module(C01_status)
        C01_status.differential(v, cov, mexe, rng, tier)
    # resolver status cache across transactions of one client (stale resolve): "an acknowledged commit is on every key it wrote" and
    # the extracted Percolator acceptor (rule 3: a lock is rolled back only on a status answer that says rolled back)
    import perc_progs
    from perc_gate import run_acceptor
    srp = perc_progs.stale_resolve_programs(random.Random(vlib.SEED * 31 + 7), 8 if tier == "quick" else 80)
    sr_traces = []
    for sc, r in zip(srp, txnlab.run_scenarios(exe, srp)):
        if r.get("fatal"):
            continue
        sr_traces.append((sc, r))
        bad = perc_progs.acked_commit_lost(sc, r)
        if bad:
            v.violation({"kind": "property-oracle", "scenario": sc, "violated": bad[:4], "txns": r.get("txns")})
    acov = run_acceptor(sr_traces, v, PID, exe=exe)
    cov.update(stale_resolve_programs=len(sr_traces), stale_resolve_acceptor={k: acov.get(k) for k in ("acceptor_accepted", "acceptor_rejected", "acceptor_reject_reasons", "acceptor_log_order_repaired", "acceptor_rejections_not_reproduced")})
    cov["traces_validated_against_impl"] = len(traces)
    cov.update(evaluations=len(scs), distinct_nontrivial=len(distinct), reads_checked=reads,
               rule="random histories: 2-5 transactions (each optimistic or pessimistic, 2pc / async / 1pc / async+1pc) over 6 shared keys, 12-34 API steps (get, batch-get, scan, reverse scan, set, insert, delete, lock-keys with return values, commit (35% running concurrently with the following steps), rollback), 0-3 region splits up front and splits in between; oracle si_history_ok: every read vs the ts-ordered committed history from MvccGetByKey, own writes, locking reads at for-update ts, write-write disjointness, insert semantics, invisibility of failed transactions, external consistency; distinct non-trivial = distinct programs with >= 2 committed transactions",
               samples=[{"program": scs[i]["program"], "txns": res[i].get("txns")} for i in range(2)], input_distribution=dist)
    rc = v.finish()
    vlib.write_evidence(PID, cov, t0, violations=len(v.violations), level="proof",
                        assumptions=["store = tidb unistore (environment)", "interleaving at API-call granularity plus concurrently running commits; RPC-level interleavings inside one call are those the Go scheduler produces"])
    return rc
