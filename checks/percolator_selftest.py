#!/usr/bin/env python3
"""Builds the extracted Percolator acceptor (coq/theories/Percolator/System.v -> modelrun) and runs
the hand-written traces of corpus/percolator/*.trace against corpus/percolator/EXPECT.tsv.
usage: python3 checks/percolator_selftest.py [extra.trace ...]   (extra traces are only printed)"""
import os, sys, glob
sys.path.insert(0, os.path.join(os.path.dirname(os.path.abspath(__file__)), "..", "lib"))
import vlib


def run_traces(modelrun, named_bodies):
    """named_bodies: [(id, text of event lines)] -> {id: (verdict, index_or_n, reason, [STATE lines])}"""
    inp = "".join("trace\t%s\n%s\n" % (i, b) for i, b in named_bodies)
    rc, out = vlib.sh([modelrun], inp=inp, timeout=600)
    if rc != 0:
        raise RuntimeError("modelrun failed: " + out[-500:])
    res = {}
    for l in out.splitlines():
        f = l.split("\t")
        if f[0] == "ACCEPT":
            res[f[1]] = ["ACCEPT", int(f[2]), "-", []]
        elif f[0] == "REJECT":
            res[f[1]] = ["REJECT", int(f[2]), f[4], []]
        elif f[0] == "STATE" and f[1] in res:
            res[f[1]][3].append(f[2:])
    return res


def main():
    rc, out = vlib.sh(["./mk.sh", "theories/Percolator/System.vo"], cwd=vlib.COQ, timeout=1500)
    if rc != 0:
        print("coq build failed:\n" + out[-1500:]); return 2
    ok, modelrun = vlib.build_model("Percolator")
    if not ok:
        print(modelrun); return 2
    d = os.path.join(vlib.VERIF, "corpus", "percolator")
    expect = {}
    for l in open(os.path.join(d, "EXPECT.tsv")):
        n, v, why = l.rstrip("\n").split("\t")
        expect[n] = (v, why)
    bodies = [(n, open(os.path.join(d, n + ".trace")).read()) for n in sorted(expect)]
    res = run_traces(modelrun, bodies)
    bad = 0
    for n, (v, why) in sorted(expect.items()):
        got = res.get(n)
        good = got is not None and got[0] == v and (v == "ACCEPT" or got[2] == why)
        print("%-4s %-48s expected %s %s, got %s" % ("ok" if good else "FAIL", n, v, why, got[:3] if got else None))
        bad += 0 if good else 1
    extra = [(os.path.basename(p), open(p).read()) for p in sys.argv[1:]]
    if extra:
        for n, r in run_traces(modelrun, extra).items():
            print("extra", n, r[:3]); [print("   ", "\t".join(x)) for x in r[3]]
    print("percolator selftest: %d traces, %d failures" % (len(expect), bad))
    return 1 if bad else 0


if __name__ == "__main__":
    sys.exit(main())
