"""C17 — local latch scheduler (internal/latch): exclusive, deadlock-free, flags exactly stale work.
Proof: coq/theories/Latch/Props.v (transition system of the atomic latch methods + scheduler automaton,
inductive invariant, any number of transactions / keys, every interleaving).
Correspondence: in-package Go driver (overlay internal/zz_verif/latch + internal/latch/zz_verif_export.go)
explores ALL interleavings of acquireSlot/releaseSlot/recycle (+ the composite acquire/release/wakeup as
macro edges) for small configurations by DFS with state hashing, random walks for bigger ones; the extracted
model (ocaml/latch) is run on every edge (result code, every slot's queue/waiting, every lock's
acquiredCount/isStale/commitTS, automaton state, enabled-edge set). The property oracles are evaluated by
the driver on the implementation after every edge, and by a monitor in a seeded concurrent stress through
the real LatchesScheduler."""
import os, time, json, re
import vlib
from vlib import Verdict

PID = "C17"
PROPS = [("theories/Latch/Props.v", "Latch.Props")]
AREAS = ["theories/Latch"]


def nontrivial(dump):
    # resulting state has a waiter, a stale lock, or a pending wake-up
    return bool(re.search(r"w\[\d", dump) or re.search(r" \d+:\d+:1:\d+", dump) or " S wake" in dump or " S run" in dump
                or re.search(r" S rel:\d+:\d", dump))


def main(tier, replay):
    t0 = time.time()
    v = Verdict(PID)
    cov = {"checker_cmd": "coq/mk.sh theories/Latch/Props.vo (coqc 8.16.1, full .vo build) + Print Assumptions per theorem",
           "trusted_base": vlib.TRUSTED_BASE + [
               "modelled: slot function murmur3&mask is a parameter (the driver reports the slot ids the code computed); sync.Mutex per slot = atomicity of acquireSlot/releaseSlot/recycle; unlock channel = unbounded FIFO (capacity 100 not modelled); sync.WaitGroup = thread pc; recycle goroutine = LRecycle step with arbitrary ts at any time; Close() not modelled"]}
    gate = vlib.coq_gate(PID, AREAS, PROPS)
    cov.update(obligations=gate["obligations"], discharged=gate["discharged"], theorems=gate["theorems"],
               axioms={k: a for k, a in gate["axioms"].items() if a})
    proof_broken = not gate["ok"]
    if tier == "thorough" and gate["ok"]:
        okc, outc = vlib.coqchk(["Verif.Latch.Props"])
        cov["coqchk"] = "ok" if okc else outc[-300:]
        if not okc:
            proof_broken = True
            gate["problems"].append("coqchk failed: " + outc[-300:])
    env = vlib.goenv(); env["VERIF_SEED"] = str(vlib.SEED); env["VERIF_TIER"] = tier
    okm, modelrun = vlib.build_model("Latch")
    okg, exe = vlib.go_build("latch")
    stats, mism, pfails, stress, samples, classes, passes = {}, [], [], [], [], {}, {}
    stress_crash = None
    script_stats = {}
    consumer_stats = {}
    distinct = 0
    if okg and okm:
        err = None
        if replay:
            case = json.load(open(replay)).get("case") or ["", ""]
            if case[0] == "stress" or case[1][:1] in ("L", "U", "X", "M", "b", "c"):
                rc, lines = 0, ""
            else:
                rc, lines = vlib.sh([exe, "replay", case[0], case[1]], env=env, timeout=300)
        else:
            rc, lines = vlib.sh([exe], env=env, timeout=1500)
        if rc != 0:
            err = "driver failed rc=%d: %s" % (rc, lines[-600:])
        else:
            rc, cmp_out = vlib.sh([modelrun], inp=lines, timeout=1500)
            if rc != 0:
                err = "modelrun failed: " + cmp_out[-600:]
        # script mode: Lock / UnLock / Close through the real LatchesScheduler, compared at every quiescent point
        sc_lines = ""
        if err is None and not replay:
            rc, sc_lines = vlib.sh([exe, "sched"], env=env, timeout=1500)
            if rc != 0:
                err = "sched driver failed rc=%d: %s" % (rc, sc_lines[-600:])
        elif err is None and replay and case[0] != "stress" and case[1][:1] in ("L", "U", "X", "M"):
            rc, sc_lines = vlib.sh([exe, "replay-sched", case[0], case[1]], env=env, timeout=300)
        if err is None and sc_lines:
            rc, cmp2 = vlib.sh([modelrun], inp=sc_lines, timeout=1500)
            if rc != 0:
                err = "modelrun (scripts) failed: " + cmp2[-600:]
            else:
                for l in cmp2.splitlines():
                    f = l.split("\t")
                    if f[0] == "STATS":
                        kv = {x.split("=")[0]: int(x.split("=")[1]) for x in f[1:]}
                        script_stats.update(kv)
                    elif f[0] == "MISMATCH":
                        mism.append(f[1:])
                    elif f[0] == "PROPFAIL":
                        pfails.append(f[2:])
                    elif f[0] == "COUNT" and f[1].startswith("script:"):
                        classes[f[1]] = int(f[2])
        # consumer tier: the caller contract the theorems assume, checked on the real KVTxn.Commit over mocktikv with
        # store-local latches enabled; same script protocol, modelrun plays a contract-following client
        if err is None:
            okt, exet = vlib.go_build("latchtxn")
            if not okt:
                v.violation({"kind": "harness-build", "correspondence": "consumer driver latchtxn (KVTxn.Commit over mocktikv) build against the current tree", "error": exet}, has_input=False)
            else:
                if replay and case[0] != "stress" and case[1][:1] in ("b", "c"):
                    rc, tx_lines = vlib.sh([exet, "replay", case[0], case[1]], env=env, timeout=600)
                elif replay:
                    rc, tx_lines = 0, ""
                else:
                    rc, tx_lines = vlib.sh([exet], env=env, timeout=1500)
                if rc != 0:
                    v.violation({"kind": "property-oracle", "oracle": "C17_caller_contract (consumer crash)", "case": ["consumer", "seed=%d" % vlib.SEED],
                                 "detail": tx_lines[-900:], "what": "the consumer driver (KVTxn.Commit with local latches over mocktikv) crashed"})
                elif tx_lines:
                    rc, cmp3 = vlib.sh([modelrun], inp=tx_lines, timeout=1500)
                    if rc != 0:
                        err = "modelrun (consumer) failed: " + cmp3[-600:]
                    else:
                        for l in cmp3.splitlines():
                            f = l.split("\t")
                            if f[0] == "STATS":
                                consumer_stats.update({x.split("=")[0]: int(x.split("=")[1]) for x in f[1:]})
                                passes["client_okb(extracted) on the client actions of real KVTxn.Commit traces"] = consumer_stats.get("client_ok_traces", 0)
                            elif f[0] == "MISMATCH":
                                mism.append(f[1:])
                            elif f[0] == "PROPFAIL":
                                pfails.append(f[2:])
                            elif f[0] == "PS":
                                passes[f[1]] = passes.get(f[1], 0) + int(f[2])
                            elif f[0] == "COUNT" and f[1].startswith("script:"):
                                classes["consumer:" + f[1][7:]] = int(f[2])
        sout, stress_crash = "", None
        if err is None:
            rc, sout = vlib.sh([exe, "stress"], env=env, timeout=1500)
            if rc != 0:
                # a panic inside the real scheduler goroutine cannot be recovered by the driver
                stress_crash = "rc=%d: %s" % (rc, sout[-900:])
        if err:
            v.violation({"kind": "harness", "correspondence": "Latch driver / modelrun", "error": err}, has_input=False)
        else:
            for l in cmp_out.splitlines() + sout.splitlines():
                f = l.split("\t")
                if f[0] in ("STATS", "TOTAL"):
                    stats.update({kv.split("=")[0]: int(kv.split("=")[1]) for kv in f[1:]})
                elif f[0] == "COUNT":
                    classes[f[1]] = int(f[2])
                elif f[0] == "PS":
                    passes[f[1]] = int(f[2])
                elif f[0] == "MISMATCH":
                    mism.append(f[1:])
                elif f[0] == "PROPFAIL":
                    pfails.append(f[2:])      # oracle, caseid, spec, path, detail
                elif f[0] == "STRESS":
                    stress.append(f[1:])
            seen = set()
            cur_spec, path_sample = "", None
            for l in lines.splitlines():
                if l.startswith("N\t"):
                    f = l.split("\t")
                    if len(f) >= 6 and nontrivial(f[5]):
                        seen.add((f[1][:1], f[3], f[5]))
                elif l.startswith("CASE\t") and len(samples) < 6:
                    f = l.split("\t")
                    if f[1].split("-")[0] not in [s["case"].split("-")[0] for s in samples] or len(samples) < 2:
                        samples.append({"case": f[1], "spec": f[2]})
            distinct = len(seen)
            ll = lines.splitlines()
            for i in range(0, len(ll), max(1, len(ll) // 5)):
                j = i
                while j < len(ll) and not ll[j].startswith("N\t"):
                    j += 1
                if j < len(ll):
                    samples.append({"edge": ll[j]})
    else:
        why = (exe if not okg else modelrun)
        v.violation({"kind": "harness-build", "correspondence": "Latch driver/model build against the current tree", "error": why}, has_input=False)
    # oracle failures on the implementation: concrete failing inputs
    seen_or = set()
    for pf in pfails:
        if pf[0] in seen_or:
            continue
        seen_or.add(pf[0])
        v.violation({"kind": "property-oracle", "oracle": "C17_" + pf[0], "case": [pf[2], pf[3]], "caseid": pf[1], "detail": pf[4] if len(pf) > 4 else "",
                     "what": "property oracle failed on the implementation (internal/latch) after the op sequence in case[1] on the configuration in case[0]",
                     "model": [m for m in mism if m[2] == pf[2]][:1]})
    if okg and okm and stress_crash:
        v.violation({"kind": "property-oracle", "oracle": "C17 stress monitor (crash)", "case": ["stress", "seed=%d" % vlib.SEED],
                     "detail": stress_crash, "what": "the concurrent stress through LatchesScheduler crashed (panic in the scheduler goroutine: release of a latch the lock does not hold, or similar); rerun with VERIF_SEED=%d" % vlib.SEED})
    for st in stress:
        if st[-1] != "ok":
            v.violation({"kind": "property-oracle", "oracle": "C17 stress monitor", "case": ["stress", st[0]], "detail": st[1],
                         "what": "exclusivity / staleness / termination monitor failed in the concurrent stress through LatchesScheduler (seed %d)" % vlib.SEED})
    if mism and not pfails:
        for m in mism[:3]:
            v.violation({"kind": "correspondence", "correspondence": "Latch model (exec) vs internal/latch", "mismatch": m[0], "case": [m[2], m[3]], "caseid": m[1],
                         "line": m[4:], "what": "model and implementation disagree on this edge; no property-oracle failure among %d oracle evaluations" % sum(passes.values())}, has_input=False)
    if proof_broken:
        v.violation({"kind": "proof", "theorem_or_file": gate["problems"], "what": "Coq obligations no longer check"}, has_input=False)
    nstress = sum(int(x) for st in stress for x in re.findall(r"ok=(\d+)", st[1])) + sum(int(x) for st in stress for x in re.findall(r"stale=(\d+)", st[1]))
    cov.update(evaluations=stats.get("edges", 0) + script_stats.get("edges", 0) + consumer_stats.get("edges", 0) + sum(passes.values()) + nstress,
               distinct_nontrivial=distinct,
               states=stats.get("nodes", 0), transitions=stats.get("edges", 0),
               exhaustive=(stats.get("trunc", 1) == 0),
               rule="DFS with state hashing over every interleaving of the atomic steps (thread acquireSlot, unlock, scheduler pop / releaseSlot / wake-up acquireSlot, recycle) and macro edges (real acquire/release/wakeup): d2 = 2 txns, all intersecting key-set pairs of a 3-key pool x all start/commit options incl. ties x {1 slot, 2 slots with a collision}; d3 = sampled 3-txn configurations; d4 = sampled 4 txns x <=3 keys (4-key pool); dr = physical timestamps, 6 keys, in-line + external recycle; w = random walks 3-6 txns, 1-4 slots; d3x (thorough) = 3 txns exhaustively (all key-set triples <=2 keys, starts 1<2<3, commits {none,start+1,4}, 1/2 slots); sc/cap = scripts through the REAL LatchesScheduler (Lock/UnLock/Close, recycle trigger, 130 pending unlocks against the 100-slot channel) compared with the model at every quiescent point (exact quiescence from runtime.Stack); t-* = consumer tier: real KVTxn.Commit over mocktikv with EnableTxnLocalLatches (1-8 slots), 3-4 optimistic transactions with overlapping key sets, stale at first key / later key / on wake-up behind a directly held latch; oracle caller_contract (every Commit returns, no latch held when nobody is in flight) + every dump reproduced by a contract-following model client + the extracted client_okb evaluated on the observed client actions (Lock / return / inferred UnLock) of every program; d2 with the Close edge (quick: every 4th configuration, thorough: all); drx = enumerated recycle class (6 keys in one slot, timestamps on both sides of the 2-minute expiry, in-line and external recycle). distinct_nontrivial = distinct (op kind, result, resulting full state dump) edges whose resulting state has a waiter, a stale lock or a pending wake-up. DFS cases truncated by the node budget: %d" % stats.get("trunc", -1),
               samples=samples[:10], traces_validated_against_impl=stats.get("edges", 0),
               input_distribution=classes, oracle_passes=passes, model_mismatches=len(mism), oracle_failures=len(pfails),
               stress_rounds=[" ".join(s) for s in stress],
               scheduler_script_actions=script_stats.get("edges", 0),
               consumer_commit_actions=consumer_stats.get("edges", 0),
               slot_predictions=stats.get("slot_predictions", 0) + script_stats.get("slot_predictions", 0) + consumer_stats.get("slot_predictions", 0))
    rc = v.finish()
    vlib.write_evidence(PID, cov, t0, violations=len(v.violations), level="proof",
                        assumptions=["keys of one Lock are distinct (txn.go passes the mutation keys of a memdb)", "byte order of the driver's keys = order of key ids",
                                     "timestamps < 2^63 (oracle.GetTimeFromTS arithmetic exact)"])
    return rc
