"""C02 — crash atomicity. Proof: coq/theories/Percolator/Props.v (C02_*). Correspondence/search: crash enumeration
through the RPC gate (driver `txn`, unistore back end): every small shape x commit mode x RPC index x
{undelivered, delivered-unanswered}; recovery by other clients; MVCC audit (boolean form of C02 (i)-(v));
the trace of every run is replayed through the extracted acceptor (trace inclusion)."""
import os, time, json, random
import vlib, txnlab
from vlib import Verdict

PID = "C02"


def enumerate_cases(tier, rng):
    shapes = txnlab.base_shapes()
    modes = ["2pc", "async", "1pc", "async1pc"]
    base = []
    for sh in shapes:
        for mode in modes:
            for pess in (False, True):
                if pess and any(o["op"] == "insdel" for o in sh["ops"]) and mode == "1pc":
                    pass
                if unistore_ok(sh, mode, pess):
                    base.append((sh, mode, pess))
    if tier == "quick":
        rng.shuffle(base)
        base = base[:110]
    # always present: pessimistic transactions whose primary sits in the 2nd+ batch of its region (small batch limit)
    base += [(sh, mode, True) for sh in txnlab.late_primary_shapes() for mode in ("2pc", "async", "1pc")]
    return base


def unistore_ok(sh, mode, pess):
    """unistore records the commit of a lock-only (Op_Lock) key only when it is the primary, so its CheckSecondaryLocks
    reports a committed lock-only secondary as missing; async-commit shapes with lock-only mutations are therefore left to
    the 2PC/1PC modes (environment limitation, see docs/TXN.md)"""
    muts = txnlab.expected_mutations({'ops': sh['ops'], 'pessimistic': pess})
    return not (mode in ('async', 'async1pc') and 'lock' in muts.values())


def main(tier, replay):
    t0 = time.time()
    v = Verdict(PID)
    rng = random.Random(vlib.SEED)
    cov = {"checker_cmd": "coq/mk.sh theories/Percolator/Props.vo + Print Assumptions", "trusted_base": vlib.TRUSTED_BASE}
    from perc_gate import perc_gate, run_acceptor
    gate = perc_gate(PID)
    cov.update(gate["cov"])
    okd, exe = txnlab.build_driver()
    if not okd:
        v.violation({"kind": "harness-build", "correspondence": "txn driver build against the current tree", "error": exe}, has_input=False)
        rc = v.finish(); vlib.write_evidence(PID, dict(cov, evaluations=0, distinct_nontrivial=0, rule="driver did not build", samples=[]), t0, 1); return rc
    if replay:
        sc = json.load(open(replay))["scenario"]
        res = txnlab.run_scenarios(exe, [sc], jobs=1)
        bad = txnlab.audit_atomic(sc, res[0])
        print("replay:", sc["id"], "told", res[0].get("told"), "violations", bad)
        if bad:
            v.violation({"kind": "property-oracle", "scenario": sc, "violated": bad})
        return v.finish()
    base = enumerate_cases(tier, rng)
    # pass 1: fault-free runs to learn the number of RPCs of each shape
    base = txnlab.with_fallbacks(base)
    cov["fallback_shapes"] = sum(1 for b in base if b[-1])
    probes = [txnlab.mk_scenario(f"p{i}", sh, mode, pess, **txnlab.fbkw(fb)) for i, (sh, mode, pess, fb) in enumerate(base)]
    pres = txnlab.run_scenarios(exe, probes)
    cases = []
    for (sh, mode, pess, fb), pr in zip(base, pres):
        n = min(pr.get("counted", 0), 14)
        for i in range(n):
            for kind in ("crash_undelivered", "crash_delivered"):
                extras = []
                x = rng.random()
                if x < 0.2:
                    # another client acts at or before the crash point (a reader may push the primary's min-commit ts
                    # under a commit that is already on its way)
                    extras = [{"at": rng.randrange(0, i + 1), "what": rng.choice(["reader", "writer", "gc", "split", "push_min_commit"]), "k": ""}]
                cases.append(txnlab.mk_scenario(f"{sh['name']}-{mode}-{'p' if pess else 'o'}-{i}-{kind[6:7]}{'x' if extras else ''}{'-fb' if fb else ''}", sh, mode, pess,
                                                faults=[{"at": i, "kind": kind}], extras=extras, **txnlab.fbkw(fb)))
    # crash "never" with another client acting at every index: a reader pushing the primary's min-commit ts under a commit that
    # is already on its way (the commit ts is then replaced, every key must still get ONE commit ts), a resolver, a split
    for (sh, mode, pess, fb), pr in zip(base, pres):
        if len(sh["keys"]) < 2:
            continue
        for i in range(min(pr.get("counted", 0), 14)):
            hk = ["push_min_commit", "reader", "split"][i % 3] if rng.random() < 0.5 else "push_min_commit"
            cases.append(txnlab.mk_scenario(f"{sh['name']}-{mode}-{'p' if pess else 'o'}-{i}-h{hk[:2]}{'-fb' if fb else ''}", sh, mode, pess,
                                            extras=[{"at": i, "what": hk, "k": ""}], **txnlab.fbkw(fb)))
    if tier == "quick" and len(cases) > 1800:
        rng.shuffle(cases)
        cases = cases[:1800]
    res = txnlab.run_scenarios(exe, probes + cases)
    allsc = probes + cases
    nviol, distinct, samples, dist = 0, set(), [], {}
    traces = []
    for sc, r in zip(allsc, res):
        bad = txnlab.audit_atomic(sc, r)
        key = (sc["txn"]["mode"], sc["txn"]["pessimistic"], json.dumps(sc["txn"]["ops"]), json.dumps(sc["splits"]), json.dumps(sc["faults"]), json.dumps(sc["extras"]))
        if r.get("crashed"):
            distinct.add(key)
        outcome = "fatal" if r.get("fatal") else ("committed" if any(w.get("start") == r.get("start_ts") and w["type"] in ("Put", "Delete", "Del") for a in (r.get("audit") or {}).values() for w in (a or {}).get("writes", [])) else "rolledback")
        dk = f"{sc['txn']['mode']}/{'pess' if sc['txn']['pessimistic'] else 'opt'}/told={str(r.get('told'))[:12]}/{outcome}"
        dist[dk] = dist.get(dk, 0) + 1
        if bad and bad[0].startswith("driver-fatal"):
            nviol += 1
            if nviol <= 5:
                v.violation({"kind": "harness", "correspondence": "txn driver (environment)", "error": bad[0], "scenario": sc}, has_input=False)
        elif bad:
            nviol += 1
            if nviol <= 5:
                v.violation({"kind": "property-oracle", "scenario": sc, "violated": bad, "told": r.get("told"), "audit": r.get("audit"),
                             "trace_tail": [e for e in r.get("trace", []) if e["kind"] != "tso"][-40:]})
        traces.append((sc, r))
    if len(samples) < 3:
        samples = [{"scenario": sc, "told": r.get("told"), "crashed": r.get("crashed")} for sc, r in traces[len(probes):len(probes) + 3]]
    acc = run_acceptor(traces, v, PID, exe=exe)
    cov.update(acc)
    if not gate["ok"]:
        v.violation({"kind": "proof", "theorem_or_file": gate["problems"], "what": "Coq obligations no longer check"}, has_input=False)
    elif tier == "thorough":
        from perc_gate import thorough_coqchk
        thorough_coqchk("Verif.Percolator.Props", cov, v)
    cov.update(evaluations=len(allsc), distinct_nontrivial=len(distinct),
               rule="shapes (1-4 keys, 1-3 regions, put/del/insert/insert-delete/lock-only) x {2pc, async, 1pc} x {optimistic, pessimistic} x RPC index i x {request never delivered, delivered but unanswered}, 12% with a reader/writer/GC/split at the crash instant; recovery by fresh clients (reads with TTL elapsed, then GC lock resolution); audit = boolean form of C02 (i)-(v) on MvccGetByKey of every key; distinct non-trivial = distinct (shape, mode, crash point, extras) that actually crashed the client",
               samples=samples, input_distribution=dist, exhaustive=(tier != "quick"))
    rc = v.finish()
    vlib.write_evidence(PID, cov, t0, violations=len(v.violations), level="proof",
                        assumptions=["store = tidb unistore (environment, implements TiKV's async-commit/1PC semantics)", "PD issues strictly increasing timestamps (clock offset wrapper keeps monotonicity)", "RPC-granularity crash points (goroutine interleavings below one RPC are not controlled)"])
    return rc
