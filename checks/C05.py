"""C05 — snapshot reads are stable and identical across all access paths.
Proof: coq/theories/SnapRead/Props.v.  Correspondence: Go driver (overlay root ov_snapread,
internal/zz_verif/snapread: public snapshot API over the in-repo mock store, random MVCC histories
with leftover locks of every kind, random layouts with splits/merges between RPCs) vs the extracted
model (ocaml/snapread): the specification read_at/expected evaluated on the MVCC dump is the
property oracle for every Get/BatchGet/Iter/IterReverse/cache program (PROPFAIL), the scanner model
is replayed against every recorded Scan RPC, the classification table and the cache programs are
compared (MISMATCH)."""
import os, time, json
import vlib
from vlib import Verdict

PID = "C05"
PROPS = [("theories/SnapRead/Props.v", "SnapRead.Props")]
AREAS = ["theories/Base", "theories/SnapRead"]
ROOTS = ("ov_snapread",)


def run_pipeline(exes, modelrun, env, case=None):
    """exes = (mock-store driver, unistore driver); history ids >= 100000 belong to the unistore driver"""
    tmo = 300 if env.get("VERIF_TIER") != "thorough" else 1500
    if case:
        exe = exes[1] if int(case[1]) >= 100000 else exes[0]
        rc, lines = vlib.sh([exe, "replay"] + [str(c) for c in case], env=env, timeout=300)
        if rc != 0:
            return None, "driver failed rc=%d: %s" % (rc, lines[-800:])
    else:
        lines = ""
        for exe in exes:
            e2 = dict(env)
            rc, out = vlib.sh("%s 2>/dev/null" % exe if exe == exes[1] else [exe], env=e2, timeout=tmo)
            if rc != 0:
                return None, "driver %s failed rc=%d: %s" % (os.path.basename(exe), rc, out[-800:])
            lines += out if out.endswith("\n") or not out else out + "\n"
    rc, cmp_out = vlib.sh([modelrun], inp=lines, timeout=1200)
    if rc != 0:
        return None, "modelrun failed: " + cmp_out[-500:]
    return (lines, cmp_out), None


def history_of(lines, hid):
    """HIST + TRUTH lines of one history (the concrete input: layout, transactions, locks, truth)"""
    res = []
    for l in lines:
        f = l.split("\t", 2)
        if len(f) > 1 and f[0] in ("HIST", "TRUTH") and f[1] == hid:
            res.append(l)
    return res


def main(tier, replay):
    t0 = time.time()
    v = Verdict(PID)
    cov = {"checker_cmd": "coq/mk.sh theories/SnapRead/Props.vo (coqc 8.16.1, full .vo build) + Print Assumptions per theorem",
           "trusted_base": vlib.TRUSTED_BASE + [
               "modelled: one successful Scan RPC per get_data step (region errors / retries re-locate without changing the cursor); "
               "lock resolution synchronous; the store's scan as the region-clamped filter of the visible rows; "
               "mock cluster split/merge with TiKV-like epochs (harness VerifSplit/VerifMerge)"]}
    gate = vlib.coq_gate(PID, AREAS, PROPS)
    cov.update(obligations=gate["obligations"], discharged=gate["discharged"], theorems=gate["theorems"],
               axioms={k: a for k, a in gate["axioms"].items() if a})
    proof_broken = not gate["ok"]
    env = vlib.goenv(); env["VERIF_SEED"] = str(vlib.SEED); env["VERIF_TIER"] = tier
    okm, modelrun = vlib.build_model("SnapRead")
    okg, exe = vlib.go_build("snapread", roots=ROOTS)
    if okg:
        # unistore tier (honours committed_locks, async commit, 1PC): main package in module integration_tests
        okg, exe_uni = vlib.go_build("snapread_uni", pkg="./zz_verif_snapread",
                                     module_dir=os.path.join(vlib.REPO, "integration_tests"), roots=ROOTS)
        if not okg:
            exe = exe_uni
        else:
            exe = (exe, exe_uni)
    stats, samples, mism, pfails = {}, [], [], []
    seed = vlib.SEED
    if okg and okm:
        case = None
        if replay:
            case = json.load(open(replay)).get("case")
            if case:
                seed = case[0]
        res, err = run_pipeline(exe, modelrun, env, case)
        if err:
            v.violation({"kind": "harness", "correspondence": "SnapRead driver", "error": err}, has_input=False)
        else:
            lines, cmp_out = res
            ll = lines.splitlines()
            for l in cmp_out.splitlines():
                f = l.split("\t")
                if f[0] == "STATS":
                    stats.update({kv.split("=")[0]: int(kv.split("=")[1]) for kv in f[1:]})
                elif f[0] == "COUNT":
                    stats.setdefault("classes", {})[f[1]] = int(f[2])
                elif f[0] == "MISMATCH":
                    mism.append(f[1:])
                elif f[0] == "PROPFAIL":
                    pfails.append(f[1:])
            samples = [ll[i][:300] for i in range(0, len(ll), max(1, len(ll) // 6))][:6]

            def field(fs, name):
                for x in fs:
                    if x.startswith(name + "="):
                        return x[len(name) + 1:]
                return ""

            def line_of(fs):
                # the driver line starts at the op name
                for i, x in enumerate(fs):
                    if x in ("GET", "BGET", "SCAN", "CACHE", "CLS", "LATER", "BBUF", "ALIAS", "OPTS", "ATOMIC"):
                        return fs[i:]
                return fs

            seen_cls = {}
            failed_lines = set()
            # every failing history is re-run once (the generator is deterministic per (seed, history)); the
            # outcome is only RECORDED in the replay object ("reproduced"), nothing is suppressed: the one
            # load-sensitive answer of earlier rounds had its root in the driver (owner's finish racing with a
            # reader whose waiting is virtual) and is fixed there
            confirmed, unconfirmed = {}, 0
            if not case:
                for pf in pfails:
                    dl = line_of(pf)
                    hid = dl[1] if len(dl) > 1 else "0"
                    if hid in confirmed or len(confirmed) >= 5:
                        continue
                    r2, e2 = run_pipeline(exe, modelrun, env, [seed, hid, tier])
                    confirmed[hid] = bool(e2) or any(l.startswith("PROPFAIL") for l in r2[1].splitlines())
                stats["replayed_failing_histories"] = len(confirmed)
            for pf in pfails:
                dl = line_of(pf)
                hid0 = dl[1] if len(dl) > 1 else "0"
                if confirmed.get(hid0) is False:
                    unconfirmed += 1
                failed_lines.add("\t".join(dl))
                cls = field(pf, "class") or "none"
                key = (pf[0], cls)
                seen_cls[key] = seen_cls.get(key, 0) + 1
                if seen_cls[key] > 3:
                    continue
                hid = dl[1] if len(dl) > 1 else "0"
                v.violation({"kind": "property-oracle", "oracle": pf[0], "finding_class": cls,
                             "case": [seed, int(hid) if hid.isdigit() else 0, tier],
                             "op": dl[:dl.index("=>")] if "=>" in dl else dl,
                             "implementation": dl[dl.index("=>") + 1] if "=>" in dl else "",
                             "scan_rpcs": dl[dl.index("=>") + 2] if "=>" in dl and len(dl) > dl.index("=>") + 2 else "",
                             "expected": field(pf, "expected"),
                             "history": history_of(ll, hid), "reproduced_on_replay": confirmed.get(hid),
                             "what": "the implementation's answer differs from read_at on the MVCC truth (C05 conclusion violated)"})
            stats["unconfirmed"] = unconfirmed
            n_corr = 0
            for m in mism:
                dl = line_of(m)
                if "\t".join(dl) in failed_lines:
                    continue   # the same input already fails the property oracle
                n_corr += 1
                if n_corr > 3:
                    continue
                hid = dl[1] if len(dl) > 1 and dl[0] != "CLS" else "0"
                v.violation({"kind": "correspondence", "correspondence": "SnapRead model vs txnsnapshot/txnlock: " + m[0],
                             "finding_class": field(m, "class") or "none",
                             "case": [seed, int(hid) if hid.isdigit() else 0, tier], "line": dl,
                             "history": history_of(ll, hid),
                             "what": "model and implementation disagree; the property oracle holds on this input (%d oracle evaluations in this run)" % stats.get("props", 0)},
                            has_input=False)
    else:
        why = (exe if not okg else modelrun)
        v.violation({"kind": "harness-build", "correspondence": "SnapRead driver/model build against the current tree", "error": why}, has_input=False)
    if tier == "thorough" and not proof_broken and not replay:
        okc, outc = vlib.coqchk(["Verif.SnapRead.Props"])
        cov["coqchk"] = "ok" if okc else "FAILED"
        if not okc:
            v.violation({"kind": "proof", "theorem_or_file": "coqchk Verif.SnapRead.Props", "what": outc[-600:]}, has_input=False)
    if proof_broken:
        v.violation({"kind": "proof", "theorem_or_file": gate["problems"], "what": "Coq obligations no longer check"}, has_input=False)
    cls = stats.get("classes", {})
    cov.update(evaluations=stats.get("cases", 0) + stats.get("props", 0),
               distinct_nontrivial=stats.get("distinct", 0),
               rule="per history: random key universe over an adversarial alphabet (prefix related, 00/ff bytes), 2-10 transactions of 9 kinds "
                    "(committed, rolled back, committed/rolled-back primary with leftover secondaries, expired, min-commit pushable, live then finished "
                    "after n status checks, pessimistic, lock-only) with start above/below the snapshot ts, 0-4 split points on/off keys, splits/merges "
                    "before the i-th read RPC; Get/BatchGet/Iter/IterReverse cold and warm, batch sizes 0,1,2,3,5,256, key-only, bounds on keys/borders/"
                    "between/unbounded, SetSnapshotTS, cache programs; 300 classification tuples; distinct = distinct (history, op, answer) lines",
               samples=samples, traces_validated_against_impl=stats.get("cases", 0),
               input_distribution=cls, model_mismatches=len(mism), oracle_failures=len(pfails),
               unreproduced_timing_failures=stats.get("unconfirmed", 0))
    rc = v.finish()
    vlib.write_evidence(PID, cov, t0, violations=len(v.violations), level="proof",
                        assumptions=["mock store (mocktikv) as the store: honours resolved_locks, ignores committed_locks, no async commit / 1PC",
                                     "ground truth = committed write records of the MvccGetByKey dump plus leftover locks whose primary is committed",
                                     "values are non-empty"])
    return rc
