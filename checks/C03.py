"""C03 — Commit's answer is truthful under lost messages, region errors, resolver races.
Proof: coq/theories/Percolator/Props.v (C03_*). Search: single and double faults from the property's list at every
RPC index of Commit (driver `txn` behind the RPC gate, unistore), then recovery and comparison of the error class
returned by Commit with the per-key MVCC truth; every trace also goes through the extracted acceptor."""
import os, time, json, random
import vlib, txnlab
from vlib import Verdict

PID = "C03"
FAULTS = ["dropreq", "dropresp", "cancelresp", "regionerr:NotLeader", "regionerr:EpochNotMatch", "regionerr:ServerIsBusy", "regionerr:StaleCommand"]
# what the caller of SendRequest sees when a request / its answer is lost: the transport reports it as one of a family of
# errors, and the client's classification (is it an RPC error? may the request have been applied?) branches on them
ERRKINDS = ["ctx_canceled", "ctx_deadline", "grpc_canceled", "grpc_unavailable", "grpc_deadline", "grpc_unknown", "eof"]
HOOKS = ["split", "expire_resolve", "push_min_commit", "reader_clockjump"]


def undetermined_justified(r):
    """told undetermined only if a commit-point request (commit with the primary; any prewrite under async/1PC)
    was sent and its answer was never received"""
    S = r.get("start_ts")
    sends, replied, prim = {}, set(), None
    for e in r.get("trace", []):
        f = e.get("f", {})
        if e.get("client") != "c1":
            continue
        if e["kind"] == "send" and f.get("start") == S:
            if e.get("cmd") == "Prewrite":
                prim = f.get("primary")
                if f.get("async") or f.get("onepc"):
                    sends[e["req"]] = "prewrite"
            if e.get("cmd") == "Commit" and prim in (f.get("keys") or []):
                sends[e["req"]] = "commit"
        if e["kind"] == "reply" and "rpc_err" not in f:
            replied.add(e["req"])
    return any(q not in replied for q in sends)


def unistore_ok(sh, mode, pess):
    """unistore records the commit of a lock-only (Op_Lock) key only when it is the primary, so its CheckSecondaryLocks
    reports a committed lock-only secondary as missing; async-commit shapes with lock-only mutations are therefore left to
    the 2PC/1PC modes (environment limitation, see docs/TXN.md)"""
    muts = txnlab.expected_mutations({'ops': sh['ops'], 'pessimistic': pess})
    return not (mode in ('async', 'async1pc') and 'lock' in muts.values())


def main(tier, replay):
    t0 = time.time()
    v = Verdict(PID)
    rng = random.Random(vlib.SEED)
    cov = {"checker_cmd": "coq/mk.sh theories/Percolator/Props.vo + Print Assumptions", "trusted_base": vlib.TRUSTED_BASE}
    from perc_gate import perc_gate, run_acceptor
    gate = perc_gate(PID)
    cov.update(gate["cov"])
    okd, exe = txnlab.build_driver()
    if not okd:
        v.violation({"kind": "harness-build", "correspondence": "txn driver build against the current tree", "error": exe}, has_input=False)
        rc = v.finish(); vlib.write_evidence(PID, dict(cov, evaluations=0, distinct_nontrivial=0, rule="driver did not build", samples=[]), t0, 1); return rc

    def judge(sc, r):
        bad = txnlab.audit_atomic(sc, r)
        told = r.get("told", "none")
        if told == "undetermined" and not undetermined_justified(r):
            bad.append("'undetermined' returned although every commit-point request got an answer")
        faulty = sc["faults"] or sc["extras"] or sc.get("black_from", -1) >= 0
        if not faulty and told == "undetermined":
            bad.append("'undetermined' returned in a fault-free run")
        if r.get("hang"):
            bad.append("Commit did not return")
        return bad

    if replay:
        sc = json.load(open(replay))["scenario"]
        res = txnlab.run_scenarios(exe, [sc], jobs=1)
        bad = judge(sc, res[0])
        print("replay:", sc["id"], "told", res[0].get("told"), "violations", bad)
        if bad:
            v.violation({"kind": "property-oracle", "scenario": sc, "violated": bad})
        return v.finish()
    shapes = txnlab.base_shapes()
    base = [(sh, mode, pess) for sh in shapes for mode in ("2pc", "async", "1pc", "async1pc") for pess in (False, True) if unistore_ok(sh, mode, pess)]
    rng.shuffle(base)
    if tier == "quick":
        base = base[:45]
    # always present: pessimistic transactions whose primary sits in the 2nd+ batch of its region (small batch limit)
    base += [(sh, mode, True) for sh in txnlab.late_primary_shapes() for mode in ("2pc", "async", "1pc")]
    base = txnlab.with_fallbacks(base)
    cov["fallback_shapes"] = sum(1 for b in base if b[-1])
    probes = [txnlab.mk_scenario(f"p{i}", sh, mode, pess, **txnlab.fbkw(fb)) for i, (sh, mode, pess, fb) in enumerate(base)]
    pres = txnlab.run_scenarios(exe, probes)
    cases, lostkinds = [], []
    for (sh, mode, pess, fb), pr in zip(base, pres):
        n = min(pr.get("counted", 0), 12)
        tag = f"{sh['name']}-{mode}{'fb' if fb else ''}-{'p' if pess else 'o'}"
        _mk = txnlab.mk_scenario
        def mk(*a, **kw):
            kw.update(txnlab.fbkw(fb))
            return _mk(*a, **kw)
        for i in range(n):
            for fk in FAULTS:
                cases.append(mk(f"{tag}-{i}-{fk}", sh, mode, pess, faults=[{"at": i, "kind": fk}]))
            # the answer of an applied request is lost, reported in every way the transport knows; a lost request in two of them
            for ek in ERRKINDS:
                lostkinds.append(mk(f"{tag}-{i}-dropresp:{ek}", sh, mode, pess, faults=[{"at": i, "kind": f"dropresp:{ek}"}]))
            for ek in rng.sample(ERRKINDS, 2):
                lostkinds.append(mk(f"{tag}-{i}-dropreq:{ek}", sh, mode, pess, faults=[{"at": i, "kind": f"dropreq:{ek}"}]))
            for hk in HOOKS:
                if hk == "reader_clockjump":
                    # the reader meets ONE key's lock (so also a secondary's before the primary's), and its clock jumps by
                    # an hour while the status check is on its way back
                    for kk in sh["keys"]:
                        cases.append(mk(f"{tag}-{i}-{hk}@{kk}", sh, mode, pess, extras=[{"at": i, "what": hk, "k": kk}]))
                    continue
                cases.append(mk(f"{tag}-{i}-{hk}", sh, mode, pess, extras=[{"at": i, "what": hk, "k": ""}]))
            # the request is applied, its answer is lost, and only then the region is split: the retry is re-split
            cases.append(mk(f"{tag}-{i}-dropresp+aftersplit", sh, mode, pess, faults=[{"at": i, "kind": "dropresp"}],
                            extras=[{"at": i, "what": "after:split", "k": rng.choice(sh["keys"])}]))
            for bk in ("req", "resp"):
                cases.append(mk(f"{tag}-{i}-black{bk}", sh, mode, pess, black_from=i, black_kind=bk))
            # double faults: a second fault at a later index
            for _ in range(2):
                j = rng.randrange(i, n + 2)
                f1, f2 = rng.choice(FAULTS), rng.choice(FAULTS + HOOKS)
                fl = [{"at": i, "kind": f1}]
                ex = []
                if f2 in HOOKS:
                    ex = [{"at": j, "what": f2, "k": ""}]
                elif j != i:
                    fl.append({"at": j, "kind": f2})
                cases.append(mk(f"{tag}-{i}-{f1}+{j}-{f2}", sh, mode, pess, faults=fl, extras=ex))
    if tier == "quick" and len(cases) > 1400:
        rng.shuffle(cases)
        cases = cases[:1400]
    if tier == "quick" and len(lostkinds) > 700:
        rng.shuffle(lostkinds)
        lostkinds = lostkinds[:700]
    cases += lostkinds
    allsc = probes + cases
    res = txnlab.run_scenarios(exe, allsc)
    nviol, distinct, dist = 0, set(), {}
    traces = []
    for sc, r in zip(allsc, res):
        bad = judge(sc, r)
        told = str(r.get("told"))
        if sc["faults"] or sc["extras"] or sc.get("black_from", -1) >= 0:
            distinct.add(sc["id"])
        committed = any(w.get("start") == r.get("start_ts") and w["type"] in ("Put", "Delete", "Del") for a in (r.get("audit") or {}).values() for w in (a or {}).get("writes", []))
        fk = (sc["faults"][0]["kind"] if sc["faults"] else (sc["extras"][0]["what"] if sc["extras"] else ("black" + sc.get("black_kind", "") if sc.get("black_from", -1) >= 0 else "none")))
        dk = f"{sc['txn']['mode']}/{fk}/told={told.split(':')[0] if told.startswith('err') else told}/{'committed' if committed else 'not-committed'}"
        dist[dk] = dist.get(dk, 0) + 1
        if bad and bad[0].startswith("driver-fatal"):
            nviol += 1
            if nviol <= 5:
                v.violation({"kind": "harness", "correspondence": "txn driver (environment)", "error": bad[0], "scenario": sc}, has_input=False)
        elif bad:
            nviol += 1
            if nviol <= 5:
                v.violation({"kind": "property-oracle", "scenario": sc, "violated": bad, "told": r.get("told"), "audit": r.get("audit"),
                             "trace_tail": [e for e in r.get("trace", []) if e["kind"] != "tso" and e.get("client") == "c1"][-40:]})
        traces.append((sc, r))
    # directed programs: the FIRST lock call of a pessimistic transaction fails on its single key (key exists / lock held by
    # another transaction, no wait), the transaction goes on with other keys and commits: the primary must be re-chosen among
    # the keys it really locks, and Commit may answer success only after the commit of that primary was acknowledged
    progs = []
    for i, (mode, splits) in enumerate([(m, sp) for m in ("2pc", "async", "1pc", "async1pc") for sp in ([], ["k2"], ["k3"], ["k2", "k3"])]):
        for first in ("insert", "locked"):
            steps = [{"t": "t1", "op": "begin"}]
            txns = {"t1": {"mode": mode, "pessimistic": True, "ops": []}}
            if first == "insert":
                steps.append({"t": "t1", "op": "insert", "k": "k1", "v": "x"})
            else:
                txns["t2"] = {"mode": "2pc", "pessimistic": True, "ops": []}
                steps = [{"t": "t2", "op": "begin"}, {"t": "t2", "op": "lock", "ks": ["k1"], "wait": -1}] + steps + [{"t": "t1", "op": "lock", "ks": ["k1"], "wait": -1}]
            steps += [{"t": "t1", "op": "set", "k": "k2", "v": "y"}, {"t": "t1", "op": "set", "k": "k3", "v": "z"}, {"t": "t1", "op": "commit"}]
            if first == "locked":
                steps.append({"t": "t2", "op": "rollback"})
            steps.append({"t": "t1", "op": "sleep", "wait": 250})
            progs.append({"id": f"ffl{i}-{mode}-{first}", "backend": "unistore", "splits": splits, "preload": [{"k": "k1", "v": "o"}, {"k": "k2", "v": "o2"}],
                          "txn": {"mode": "2pc", "ops": []}, "txns": txns, "program": steps, "keys": ["k1", "k2", "k3"], "black_from": -1})
    for sc, r in zip(progs, txnlab.run_scenarios(exe, progs)):
        if r.get("fatal"):
            continue
        bad = []
        t1 = (r.get("txns") or {}).get("t1") or {}
        S = t1.get("start")
        tr = r.get("trace", [])
        sends = {e.get("req"): e for e in tr if e["kind"] == "send"}
        told = next((e for e in tr if e["kind"] == "told" and e["f"].get("start") == S and (e["f"].get("finish") or "commit") == "commit"), None)
        pws = [e for e in tr if e["kind"] == "send" and e.get("cmd") == "Prewrite" and e["f"].get("start") == S]
        if told is not None and told["f"].get("res") == "ok" and pws and not any(e["f"].get("async") or e["f"].get("onepc") for e in pws):
            prim = pws[0]["f"].get("primary")
            acked = any(e["kind"] == "reply" and e.get("cmd") == "Commit" and e["seq"] < told["seq"] and not e["f"].get("error") and "regionerr" not in e["f"] and "rpc_err" not in e["f"]
                        and (sends.get(e.get("req")) or {}).get("f", {}).get("start") == S and prim in ((sends.get(e.get("req")) or {}).get("f", {}).get("keys") or [])
                        for e in tr)
            if not acked:
                bad.append("Commit returned success before the commit of the primary named by its prewrites was acknowledged (2PC)")
        if bad:
            v.violation({"kind": "property-oracle", "scenario": sc, "violated": bad, "told": t1.get("result")})
        traces.append((sc, r))
    cov["first_lock_failed_programs"] = len(progs)
    cov.update(run_acceptor(traces, v, PID, exe=exe))
    if not gate["ok"]:
        v.violation({"kind": "proof", "theorem_or_file": gate["problems"], "what": "Coq obligations no longer check"}, has_input=False)
    elif tier == "thorough":
        from perc_gate import thorough_coqchk
        thorough_coqchk("Verif.Percolator.Props", cov, v)
    cov.update(evaluations=len(allsc), distinct_nontrivial=len(distinct),
               rule="single faults {drop request, drop response, NotLeader, EpochNotMatch, ServerIsBusy, StaleCommand, region split, another client expires+resolves, reader pushes min-commit-ts, store unreachable from i on (requests / responses)} at every RPC index of Commit + random double faults, for shapes x {2pc, async, 1pc} x {optimistic, pessimistic}; after recovery: error class of Commit vs per-key MVCC truth; distinct non-trivial = distinct faulty scenarios",
               samples=[{"scenario": sc, "told": r.get("told")} for sc, r in traces[len(probes):len(probes) + 3]], input_distribution=dist)
    rc = v.finish()
    vlib.write_evidence(PID, cov, t0, violations=len(v.violations), level="proof",
                        assumptions=["store = tidb unistore (environment)", "faults injected at the tikv.Client boundary; back-off sleeps virtualised (failpoint fastBackoffBySkipSleep)"])
    return rc
