"""C20 — back-off budget and fork accounting. Proof: coq/theories/Backoff/Props.v.
Correspondence: Go driver (overlay root ov_backoff: internal/zz_verif/backoff + config/retry/zz_verif_export.go)
executes generated op sequences on the real retry.Backoffer with sleeping virtualised (failpoint
fastBackoffBySkipSleep); the extracted model (ocaml/backoff) replays every sequence with the observed
(random) sleeps and compares result + state after every op. Independently of the model the property
oracles below are evaluated on the implementation's observations."""
import os, time, json, tempfile
import vlib
from vlib import Verdict

PID = "C20"
PROPS = [("theories/Backoff/Props.v", "Backoff.Props")]
AREAS = ["theories/Backoff"]
ROOTS = ("ov_backoff",)


# ---------------------------------------------------------------- parsing
def parse_state(tok):
    i, rest = tok.split("=", 1)
    nums, errs, sleep, times, cfgs, types, text = rest.split("|")
    mx, total, excl, errnum, ctx, vrs, kil, ttimes, keep = ([int(x) for x in nums.split(",")] + [0])[:9]
    dm = lambda s: {int(k): int(v) for k, v in (e.split(":") for e in s.split(".") if e)}
    li = lambda s: [int(x) for x in s.split(".") if x != ""]
    return int(i), dict(max=mx, total=total, excl=excl, errnum=errnum, errs=li(errs), sleep=dm(sleep), times=dm(times),
                        cfgs=li(cfgs), types=li(types), ctx=ctx, vars=vrs, killed=kil, ttimes=ttimes, keep=keep, text=text)


COUNTERS = ("total", "excl", "errnum", "errs", "sleep", "times", "cfgs")
OWN = COUNTERS + ("max",)


def same(a, b):
    return all(a[c] == b[c] for c in OWN)


class Seq:
    def __init__(self, head):
        f = head.split("\t")
        self.no, self.cls = int(f[1]), f[2]
        self.excl = {int(k): int(v) for k, v in (e.split(":") for e in f[3].split(";") if e)}
        self.lf = set(int(x) for x in f[4].split(";") if x)
        self.head = head
        self.lines = []


def split_seqs(text):
    cfgs, seqs, cur, cfg_lines, xl = {}, [], None, [], []
    for l in text.splitlines():
        if l.startswith("X"):
            xl.append(l); continue
        if l.startswith("O\t"):
            cur.lines.append(l)
        elif l.startswith("S\t"):
            cur = Seq(l); seqs.append(cur)
        elif l.startswith("CFG\t"):
            f = l.split("\t")
            cfgs[int(f[1])] = dict(name=int(f[2]), base=int(f[3]), cap=int(f[4]), jit=int(f[5]), err=int(f[6]),
                                   text=f[7] if len(f) > 7 else "", govar=f[8] if len(f) > 8 else "-")
            cfg_lines.append(l)
    return cfgs, seqs, xl


# ---------------------------------------------------------------- property oracles on the implementation
def budget_hi(m):
    return m if m > 0 else None


def oracles(cfgs0, sq, stats):
    """returns list of (oracle, op index, detail, finding_class) for one sequence"""
    fails = []
    cfgs = {k: dict(v) for k, v in cfgs0.items()}     # SetErrors / SetBackoffFnCfg change it during the sequence
    capmax = max([c["cap"] for c in cfgs.values()] + [1000])
    ghost, stale, keepf = {}, set(), {}
    st, parent, ctx_of, vars_of, noop, fn = {}, {}, {}, {}, {}, {}
    ctx_parent, ctx_done, killed = [], [], {0: 0}
    nvars, merged_seen, resetmax_seen = 1, False, False
    L = max(list(sq.excl.values()) + [0])

    def cancelled(c):
        while c is not None:
            if ctx_done[c]:
                return True
            c = ctx_parent[c]
        return False

    def anc(i, j):
        p = parent.get(j)
        while p is not None:
            if p == i:
                return True
            p = parent.get(p)
        return False

    def bad(name, k, detail, cls=""):
        fails.append((name, k, detail, cls))

    for k, line in enumerate(sq.lines):
        f = line.split("\t")
        arrow = f.index("=>")
        op, args, res = f[1], [int(x) for x in f[2:arrow]], f[arrow + 1]
        if res == "panic":
            if sq.cls == "domain" and k == len(sq.lines) - 1:
                stats["o_domain"] += 1          # precondition probes: the code panics exactly where the model says RBad
            else:
                bad("no_panic", k, "implementation panicked")
            break
        states = dict(parse_state(t) for t in f[arrow + 2:])
        if op == "B" and args[0] not in states:      # long sequences dump the state rarely: only the step bounds are checked
            i, cid, maxms, errid, api, sleep = args
            stale.add(i)
            if res.split(":")[0] in ("ok", "killed"):
                c = cfgs[cid]; key = (i, c["name"]); real = int(res.split(":")[-1])
                if key not in fn:
                    fn[key] = [max(2, c["base"]) if c["name"] not in sq.lf else None, c["cap"], c["jit"], 0]
                base, cap, jit, att = fn[key]
                stats["o_step_bounds"] += 1
                if base is not None and jit in (1, 3):
                    v = min(cap, base * 2 ** att)
                    lo, hi_ = (v, v) if jit == 1 else (v // 2, v // 2 + v // 2 - 1)
                    if not (lo <= sleep <= hi_) or real != (maxms if 0 <= maxms < sleep else sleep) or real < (1 if maxms != 0 else 0):
                        bad("C20_step_bounds", k, "attempt %d: sleep %d / accounted %d outside [%d,%d]" % (att, sleep, real, lo, hi_))
                fn[key][3] += 1
            continue
        if op == "V":
            killed[nvars] = 0; nvars += 1
        elif op == "N":
            i = len(parent); parent[i] = None
            ctx_parent.append(None); ctx_done.append(False); ctx_of[i] = len(ctx_parent) - 1
            noop[i] = args[2] == 2; vars_of[i] = None if args[2] == 2 else (0 if args[2] == 1 else args[1])
            ghost[i] = budget_hi(states[i]["max"])
        elif op in ("F", "C"):
            src, i = args[0], len(parent)
            noop[i] = False; vars_of[i] = vars_of[src]; ghost[i] = ghost[src]; keepf[i] = keepf.get(src, 0)
            if op == "F":
                parent[i] = src; ctx_parent.append(ctx_of[src]); ctx_done.append(False); ctx_of[i] = len(ctx_parent) - 1
            else:
                parent[i] = parent[src]; ctx_of[i] = ctx_of[src]
            stats["o_fork_clone_start"] += 1
            a, b = states[src], states[i]
            if any(a[c] != b[c] for c in COUNTERS) or a["max"] != b["max"] or not same(a, st.get(src, a)):
                bad("C20_fork_clone_start", k, "new back-offer does not start from the parent's accounting (or the parent changed)")
        elif op == "X":
            ctx_done[args[0]] = True
        elif op == "KG":
            keepf[args[0]] = 1
            if not same(states[args[0]], st[args[0]]):
                bad("C20_accounting", k, "KeepGoingWhenKilled changed the accounting")
        elif op == "SE":
            cfgs[args[0]]["err"] = args[1]
        elif op == "SF":
            cfgs[args[0]].update(base=args[1], cap=args[2], jit=args[3])
        elif op == "SC":
            ctx_of[args[0]] = args[1]
            if not same(states[args[0]], st[args[0]]):
                bad("C20_accounting", k, "SetCtx changed the accounting")
        elif op == "MN":
            stats["o_api"] += 1
            if res != "-" or not same(states[args[0]], st[args[0]]):
                bad("C20_accounting", k, "MayBackoffForRegionError(nil / real EpochNotMatch) must do nothing, got " + res)
        elif op == "K":
            killed[args[0]] = args[1]
        elif op in ("R", "RM"):
            i = args[0]
            for key in [x for x in fn if x[0] == i]:
                del fn[key]
            if op == "RM":
                resetmax_seen = True
            s = states[i]
            ghost[i] = budget_hi(s["max"])
            if s["total"] != 0 or s["excl"] != 0:
                bad("reset", k, "Reset left sleep time behind")
        elif op == "M":
            i, j = args[0], args[1]
            stats["o_merge_exact"] += 1
            if anc(i, j):
                merged_seen = True
                own = budget_hi(st[i]["max"])
                ghost[i] = max(own, ghost[j]) if (own is not None and ghost[j] is not None) else None
                a, b = states[i], st[j]
                if any(a[c] != b[c] for c in COUNTERS) or a["max"] != st[i]["max"]:
                    bad("C20_merge_exact", k, "after UpdateUsingForked the ancestor's counters differ from the fork's: %s" %
                        [c for c in COUNTERS if a[c] != b[c]], "merge_loses_" + "_".join(c for c in COUNTERS if a[c] != b[c]))
            else:
                if not same(states[i], st[i]) or (j in states and not same(states[j], st[j])):
                    bad("C20_merge_exact", k, "UpdateUsingForked of a non-descendant changed something")
        elif op == "B":
            i, cid, maxms, errid, api, sleep = args
            if i in stale:                       # first full dump after a gap: only refresh
                stale.discard(i); st[i] = states[i]; continue
            c, pre, post = cfgs[cid], st[i], states[i]
            if (api == 1 and maxms != -1) or (api == 2 and cid != 5) or (api in (3, 4) and (cid != 2 or maxms != -1)):
                bad("harness", k, "driver used an API variant outside its meaning")
            stats["o_api"] += 1 if api else 0
            name = c["name"]
            is_ex = name in sq.excl
            canc, kl = cancelled(ctx_of[i]), (killed.get(vars_of[i], 0) if vars_of[i] is not None else 0)
            if keepf.get(i, 0):
                kl = 0            # KeepGoingWhenKilled: the kill flag does not end a back-off (C20_cancel_kill_killed, flag on)
            kind = res.split(":")[0]
            if kind in ("ok", "killed"):
                real = int(res.split(":")[-1])
                stats["o_step_bounds"] += 1
                # closure state tracked independently (first config used for the name since creation / reset)
                key = (i, name)
                if key not in fn:
                    fn[key] = [max(2, c["base"]) if name not in sq.lf else None, c["cap"], c["jit"], 0]
                base, cap, jit, att = fn[key]
                want = maxms if (0 <= maxms < sleep) else sleep
                if not (0 <= real <= sleep <= cap) or real != want or (maxms >= 0 and real > maxms):
                    bad("C20_step_bounds", k, "sleep %d / accounted %d violates cap %d or per-call maximum %d" % (sleep, real, cap, maxms))
                elif base is not None and jit in (1, 2, 3):
                    v = min(cap, base * 2 ** min(att, 40))
                    lo = v if jit == 1 else (v // 2 if jit == 3 else 0)
                    hi = v if jit == 1 else (v // 2 + v // 2 - 1 if jit == 3 else v - 1)
                    if not (lo <= sleep <= hi):
                        bad("C20_step_bounds", k, "sleep %d outside the jitter window [%d,%d] of attempt %d" % (sleep, lo, hi, att))
                fn[key][3] += 1
                # budget checked before the sleep, so afterwards at most one step over
                stats["o_budget"] += 1
                if pre["max"] > 0 and (pre["total"] - pre["excl"] >= pre["max"] or
                                       (is_ex and pre["excl"] >= sq.excl[name] and pre["excl"] >= pre["max"])):
                    bad("C20_budget", k, "slept although the budget %d was exhausted (total %d excluded %d)" % (pre["max"], pre["total"], pre["excl"]))
                # exact accounting of this step
                exp = dict(pre)
                exp["total"] = pre["total"] + real; exp["excl"] = pre["excl"] + (real if is_ex else 0)
                exp["sleep"] = dict(pre["sleep"]); exp["sleep"][name] = pre["sleep"].get(name, 0) + real
                exp["times"] = dict(pre["times"]); exp["times"][name] = pre["times"].get(name, 0) + 1
                exp["errnum"] = pre["errnum"] + 1; exp["cfgs"] = pre["cfgs"] + [cid]
                if post["errs"] != (pre["errs"] + [errid])[-3:]:      # C20_errors_ring
                    bad("C20_errors_ring", k, "latest errors %s after recording %d on top of %s" % (post["errs"], errid, pre["errs"]))
                if any(post[x] != exp[x] for x in ("total", "excl", "sleep", "times", "errnum", "cfgs", "max")):
                    bad("C20_accounting", k, "one back-off step is not accounted exactly: %s" % [x for x in ("total", "excl", "sleep", "times", "errnum", "cfgs", "max") if post[x] != exp[x]])
                if canc or noop[i]:
                    bad("C20_cancel_kill", k, "slept on a cancelled / no-op back-offer")
                if kl != 0 and kind == "ok":
                    bad("C20_cancel_kill", k, "nil error although the query is killed (signal %d)" % kl)
                if kl == 0 and kind == "killed":
                    bad("C20_cancel_kill", k, "killed error without a kill")
            else:
                if not same(post, pre):
                    bad("C20_accounting", k, "a back-off that returned an error changed the accounting")
                if canc or noop[i]:
                    stats["o_cancel"] += 1
                    if kind != "orig":
                        bad("C20_cancel_kill", k, "cancelled / no-op back-offer must return the caller's error, got " + res)
                else:
                    stats["o_longest"] += 1
                    exhausted = pre["max"] > 0 and (pre["total"] - pre["excl"] >= pre["max"] or
                                                    (is_ex and pre["excl"] >= sq.excl[name] and pre["excl"] >= pre["max"]))
                    if not exhausted:
                        bad("C20_budget", k, "budget error although the budget %d is not exhausted (total %d excluded %d)" % (pre["max"], pre["total"], pre["excl"]))
                    nonex = {n: v for n, v in pre["sleep"].items() if n not in sq.excl}
                    m = max(list(nonex.values()) + [0])
                    if m <= 0:
                        anon = [cfgs[x]["err"] for x in pre["cfgs"] if cfgs[x]["name"] == 0][:1]
                        want = "cfgerr:%d" % anon[0] if anon else "orig"
                        if res != want:
                            bad("C20_longest", k, "budget exhausted with no positive non-excluded sleep: returned %s, expected %s" % (res, want), "longest_kind_wrong")
                    if m > 0:
                        cands = set()
                        for n, v in nonex.items():
                            if v == m:
                                first = [cfgs[x]["err"] for x in pre["cfgs"] if cfgs[x]["name"] == n][:1]
                                cands.add("cfgerr:%d" % first[0] if first else "orig")
                        ok_set = set(x for x in cands if x != "orig")
                        if res not in ok_set:
                            bad("C20_longest", k, "budget exhausted: returned %s, the longest sleeper(s) %s call for %s" %
                                (res, sorted(n for n, v in nonex.items() if v == m), sorted(ok_set) or "a config that is missing"),
                                "longest_kind_config_missing_after_merge" if (merged_seen and res == "orig") else "longest_kind_wrong")
        # global budget invariant, all sequences (C20_budget_general): h = largest budget that took part (ghost)
        for i, s in states.items():
            h = ghost.get(i)
            if h is not None:
                stats["o_budget"] += 1
                if not (s["max"] <= h and s["total"] - s["excl"] < h + capmax and s["excl"] < max(L, h) + capmax and 0 <= s["excl"] <= s["total"]):
                    bad("C20_budget", k, "total %d excluded %d exceed the largest budget involved %d (own %d) + one step" % (s["total"], s["excl"], h, s["max"]))
                if not (merged_seen and resetmax_seen) and s["max"] > 0 and h != s["max"]:
                    bad("harness", k, "oracle ghost differs from the own budget without ResetMaxSleep+merge")
            # exported getters against the tracked world
            stats["o_getters"] += 1
            want_k = killed.get(vars_of[i], 0) if vars_of[i] is not None else 0
            want_text = "" if s["total"] == 0 else " backoff(%dms [%s])" % (s["total"], " ".join(cfgs0[x]["text"] for x in s["cfgs"]))
            # C20_counters_agree on the implementation
            if not (s["ttimes"] == s["errnum"] == len(s["cfgs"]) and len(s["errs"]) == min(3, s["errnum"])):
                bad("C20_counters_agree", k, "GetTotalBackoffTimes %d, ErrorsNum %d, %d configs, %d latest errors" % (s["ttimes"], s["errnum"], len(s["cfgs"]), len(s["errs"])))
            if s["keep"] != keepf.get(i, 0):
                bad("C20_keepgoing_flag", k, "keepGoingWhenKilled is %d, the history (KeepGoingWhenKilled / Fork / Clone inherit, merge leaves) says %d" % (s["keep"], keepf.get(i, 0)))
            if (s["ctx"] != ctx_of[i] or s["vars"] != (-1 if vars_of[i] is None else vars_of[i]) or s["killed"] != want_k
                    or s["ttimes"] != sum(s["times"].values()) or s["text"] != want_text):
                bad("C20_getters", k, "GetCtx/GetVars/CheckKilled/GetTotalBackoffTimes/String disagree with the history: %s" %
                    {x: s[x] for x in ("ctx", "vars", "killed", "ttimes", "text")})
            st[i] = s
        if len(fails) >= 4:
            break
    return fails


# ---------------------------------------------------------------- expo on the real code (X lines)
def expo_oracle(xl, stats):
    """X base cap n => v : v = min(cap, base*2^n) exactly (python big ints), inside [0,cap], monotone in n.
    XP lines (cap >= 2^53, outside the model's domain) are only summarised."""
    fails, probes, last = [], {"n": 0, "negative": [], "inexact": 0}, {}
    for l in xl:
        f = l.split("\t")
        b, c, n, v = int(f[1]), int(f[2]), int(f[3]), int(f[5])
        want = min(c, b * 2 ** n)
        if f[0] == "XP":
            probes["n"] += 1
            if v < 0:
                probes["negative"].append(l.replace("\t", " "))
            elif v != want:
                probes["inexact"] += 1
            continue
        stats["o_expo"] += 1
        if v != want or not (0 <= v <= c):
            fails.append(("C20_step_bounds", l, "expo(%d,%d,%d) = %d, exact value %d" % (b, c, n, v, want)))
    return fails, probes


# ---------------------------------------------------------------- the real table of kinds (config/retry/config.go)
def table_check(cfgs, lf, stats):
    """instantiates C20_table_applies on the kinds read from the code in this run; returns (problems, info)"""
    import re
    problems, info = [], {}
    real = {c["govar"]: (k, c) for k, c in cfgs.items() if c["govar"] != "-"}
    src = open(os.path.join(vlib.REPO, "config", "retry", "config.go")).read()
    declared = re.findall(r"^\s*(Bo\w+)\s*=\s*NewConfig\(", src, flags=re.M)
    missing = [d for d in declared if d not in real]
    if missing:
        problems.append(("uncovered", "config.go declares kinds the driver does not drive: %s" % missing, None))
    info["kinds"] = {g: [c["base"], c["cap"], c["jit"]] for g, (k, c) in sorted(real.items())}
    for g, (k, c) in sorted(real.items()):
        stats["o_table"] += 1
        ok = c["base"] > 0 and c["cap"] >= 2 and 1 <= c["jit"] <= 4 and (c["jit"] != 4 or (max(2, c["base"]) <= c["cap"] and c["name"] not in lf))
        if not ok:
            problems.append(("kind", "kind %s (base %d, cap %d, jitter %d) violates 0 < base, 2 <= cap, jitter in 1..4 (Decorr: max(2,base) <= cap)" %
                             (g, c["base"], c["cap"], c["jit"]), g))
    d = os.path.join(vlib.BUILD, "coq_cases"); os.makedirs(d, exist_ok=True)
    z = lambda v: "(%d)" % v
    rows = ["mkCfg %s %s %s %s %s %s" % tuple(z(x) for x in (k, c["name"], c["base"], c["cap"], c["jit"], c["err"])) for g, (k, c) in sorted(real.items())]
    with open(os.path.join(d, "C20Table.v"), "w") as fh:
        fh.write("(* generated by checks/C20.py from the kinds the driver read out of config/retry in this run *)\n"
                 "From Coq Require Import ZArith List. Import ListNotations. Open Scope Z_scope.\n"
                 "From Verif Require Import Backoff.Model Backoff.ProofsExt Backoff.Props.\n"
                 "Definition lf : list Z := [%s].\nDefinition table : list cfg := [\n  %s].\n"
                 "Lemma table_ok : forallb (cfg_okb lf) table = true. Proof. vm_compute. reflexivity. Qed.\n"
                 "Definition table_instance := C20_table_applies lf table table_ok.\nCheck table_instance.\n"
                 "Lemma table_cap_val : table_cap table = %d. Proof. vm_compute. reflexivity. Qed.\n"
                 % ("; ".join(z(x) for x in sorted(lf)), ";\n  ".join(rows), max([c["cap"] for g, (k, c) in real.items()] + [0])))
    rc, out = vlib.sh(["coqc", "-R", os.path.join(vlib.COQ, "theories"), "Verif", "C20Table.v"], cwd=d, timeout=300)
    info["coq_instance"] = "ok" if rc == 0 else out[-400:]
    if rc != 0 and not any(p[0] == "kind" for p in problems):
        problems.append(("coq", "the generated instance of C20_table_applies does not check: " + out[-300:], None))
    return problems, info


# ---------------------------------------------------------------- call sites (consumers of Fork / Clone / UpdateUsingForked)
def site_oracle(text, stats):
    """CS lines of the backoffsite driver.  What the unmodified consumers guarantee (C20_worker_pattern): the caller's
    back-offer ends with its accounting at the fork plus the sleeps of exactly ONE worker (the one that finished last).
    The driver makes every worker back off exactly k times with regionMiss through a fresh closure (2, 4, .. ms), so
    whichever worker is merged the caller gains exactly those k sleeps — on success and on error endings."""
    fails, n = [], 0
    for l in text.splitlines():
        if not l.startswith("CS\t"):
            continue
        r = json.loads(l.split("\t", 1)[1]); n += 1
        stats["o_call_site"] += 1
        if r["site"] == "public":
            # C20_stats_accumulate + C20_worker_pattern through the public API: every call's back-offer ends with one
            # worker's k sleeps (2, 4 ms); recordBackoffInfo adds them to the snapshot's statistics unless k = 0
            stats["o_stats"] += 1
            import itertools
            es = sum(sum(2 * 2 ** x for x in range(c["k"])) for c in r["calls"]); et = sum(c["k"] for c in r["calls"])
            ws, wt = ({"regionMiss": es} if es else {}), ({"regionMiss": et} if et else {})
            gs, gt = (r["stat_sleep"] or {}), (r["stat_times"] or {})
            # every call contributes one worker's t_c >= k_c sleeps (t_c > k_c only if the environment added region errors)
            ok_stats = set(gs) <= {"regionMiss"} and set(gt) <= {"regionMiss"} and any(
                sum(sum(2 * 2 ** x for x in range(t)) for t in tc) == gs.get("regionMiss", 0) and sum(tc) == gt.get("regionMiss", 0)
                for tc in itertools.product(*[range(c["k"], c["k"] + 3) for c in r["calls"]]))
            dbl = lambda m: {kk: 2 * vv for kk, vv in m.items()}
            if not ok_stats:
                fails.append(("C20_stats_accumulate", r, "public Get/BatchGet calls %s on one snapshot (async=%s): statistics sleep %s times %s, expected %s %s" %
                              ([(c["kind"], c["workers"], c["k"]) for c in r["calls"]], r["async"], r["stat_sleep"], r["stat_times"], ws, wt), "snapshot_stats_lose_worker_sleep"))
            elif (r["clone_sleep"] or {}) != dbl(gs) or (r["clone_times"] or {}) != dbl(gt):
                fails.append(("C20_stats_accumulate", r, "SnapshotRuntimeStats.Clone().Merge(stats) is not the double: %s %s" % (r["clone_sleep"], r["clone_times"]), "stats_clone_merge"))
            elif any(c["err"] or c["values"] != c["workers"] for c in r["calls"]):
                fails.append(("C20_call_site", r, "public call failed or lost values: %s" % r["calls"], "call_site_result"))
            if r["async"] and any(c["workers"] > 1 for c in r["calls"]) and not r["async_reqs"]:
                fails.append(("harness", r, "EnableAsyncBatchGet did not reach the async client API", "harness"))
            continue
        b, a, k = r["before"], r["after"], r["k"]
        # txn consumers retry on the worker's own back-offer (2, 4 ms); rawkv retries through a nested sendBatch* call
        # that forks again, so every retry sleeps through a fresh closure (2, 2 ms) and is merged up level by level.
        # rawkv cancels the shared fork context on the first error: the other workers' back-offs then return at once,
        # so on an error ending the merged worker may have slept any t <= k times.
        raw = r["site"].startswith("raw")
        # The region cache / mock store may add region errors of their own (seen once in ~500 runs, on the cold first
        # call under load): the merged worker then backed off t > k times.  The oracle therefore accepts any t in
        # [k, k+3] but still demands EXACTLY one worker's accounting for that t (closure schedule 2, 4, 8, ..), so lost
        # (t < k) or doubly counted sleep is still a failure.
        ts = list(range(k + 4)) if (raw and r["ending"] == "error") else list(range(k, k + 4))
        if r["ending"] == "killed":
            # killed when the first region error is handed out (C20_cancel_kill_killed): a worker that reaches Backoff sleeps
            # once (accounted) and gets the kill error; workers stopped by the sender's CheckKilled never back off
            ts = [0, 1]
        elif r["ending"] == "cancelled":
            # cancelled at that moment (C20_cancel_kill_cancelled): every later back-off returns at once, nothing is accounted
            ts = [0]
        got = dict(a); got["types"] = got["types"] or []
        diff, gain = None, 0
        for t in ts:
            gain = 2 * t if raw else sum(min(500, 2 * 2 ** x) for x in range(t))
            exp_sleep = dict(b["sleep"]); exp_times = dict(b["times"])
            if t:
                exp_sleep["regionMiss"] = exp_sleep.get("regionMiss", 0) + gain
                exp_times["regionMiss"] = exp_times.get("regionMiss", 0) + t
            want = dict(total=b["total"] + gain, errnum=b["errnum"] + t, sleep=exp_sleep, times=exp_times,
                        types=(b["types"] or []) + ["regionMiss"] * t, ttimes=b["ttimes"] + t)
            d = [x for x in want if want[x] != got[x]]
            if not d:
                diff = []
                if t > k and r["ending"] in ("ok", "error"):
                    stats["o_call_site_env_extra"] += 1
                break
            diff = d
        res_ok = (r["err"] == "") == (r["ending"] == "ok") and (r["ending"] != "killed" or "interrupted" in r["err"]) and (r["site"] not in ("batchget", "rawbatchget") or r["ending"] != "ok" or r["values"] == 2 * r["workers"])
        if diff:
            lost = a["total"] == b["total"] and a["ttimes"] == b["ttimes"]
            fails.append(("C20_call_site", r, "%s (%d workers, each backs off %d x regionMiss = %d ms, ending %s, slow region %s): the caller's back-offer "
                          "should gain exactly one worker's sleeps; differs in %s (total %d -> %d, expected %d)" %
                          (r["site"], r["workers"], k, gain, r["ending"], r["slow"], diff, b["total"], a["total"], want["total"]),
                          "caller_loses_worker_sleep" if lost else "caller_accounting_differs"))
        elif not res_ok:
            fails.append(("C20_call_site", r, "%s returned err=%r values=%d for ending %s" % (r["site"], r["err"], r["values"], r["ending"]), "call_site_result"))
    return fails, n


# ---------------------------------------------------------------- pipeline
def run_pipeline(exe, modelrun, env, replay_lines=None):
    if replay_lines:
        with tempfile.NamedTemporaryFile("w", suffix=".c20", delete=False) as fh:
            fh.write("\n".join(replay_lines) + "\nE\t0\n")
        rc, lines = vlib.sh([exe, "replay", fh.name], env=env, timeout=120)
        os.unlink(fh.name)
    else:
        rc, lines = vlib.sh([exe], env=env, timeout=1500)
    if rc != 0:
        return None, "driver failed rc=%d: %s" % (rc, lines[-600:])
    rc, cmp_out = vlib.sh([modelrun], inp=lines, timeout=1500)
    if rc != 0:
        return None, "modelrun failed: " + cmp_out[-600:]
    return (lines, cmp_out), None


def recorded_trace_check(rec, modelrun):
    """relational replay: the replay file holds the op sequence WITH the jitter draws and results observed when it was
    recorded; they are fed to the model (admissibility of every recorded draw, agreement of results / states) and to
    the property oracles without executing any code — the recorded verdict is reproduced exactly."""
    lines = list(rec.get("kinds", [])) + list(rec.get("case", [])) + ["E\t0"]
    rc, out = vlib.sh([modelrun], inp="\n".join(lines) + "\n", timeout=120)
    res = {"model_run": "ok" if rc == 0 else out[-200:], "inadmissible_draws": 0, "model_disagreements": 0, "oracle_failures": []}
    for l in out.splitlines():
        if l.startswith("PROPFAIL"):
            res["inadmissible_draws"] += 1
        elif l.startswith("MISMATCH"):
            res["model_disagreements"] += 1
    try:
        cfgs, seqs, _ = split_seqs("\n".join(lines))
        st = {k: 0 for k in ("o_budget", "o_step_bounds", "o_longest", "o_cancel", "o_fork_clone_start", "o_merge_exact", "o_api", "o_getters", "o_expo", "o_table", "o_call_site", "o_domain", "o_stats", "o_call_site_env_extra")}
        for sq in seqs:
            res["oracle_failures"] += ["%s@%d: %s" % (n, k, d[:160]) for n, k, d, c in oracles(cfgs, sq, st)]
    except Exception as ex:  # replay files of older formats
        res["oracle_failures"].append("unreadable: %r" % ex)
    return res


def main(tier, replay):
    t0 = time.time()
    v = Verdict(PID)
    cov = {"checker_cmd": "coq/mk.sh theories/Backoff/Props.vo (coqc 8.16.1, full .vo build) + Print Assumptions per theorem",
           "trusted_base": vlib.TRUSTED_BASE + [
               "modelled: Go int as unbounded Z (ranges proved by C20_no_overflow), float64 expo as exact integer min(cap, base*2^n) (C20_expo_float_exact: IEEE binary64 model go_expo = integer expo for base, cap < 2^53 and every n; go_expo and expo both compared with the real expo up to n = 2000)",
               "b_hi is a ghost field of the model (no counterpart in the code, not compared)",
               "modelled: the closure state of newBackoffFn (attempts, lastSleep) as a record; math/rand jitter treated relationally (observed sleep checked against sleep_ok)",
               "observation of the pre-cut sleep through the package's own 'backoff' debug log line (zap core installed by the driver)",
               "contract normalisation: a back-offer handed to UpdateUsingForked is not used afterwards (documented in the code), the generator never touches it again"]}
    gate = vlib.coq_gate(PID, AREAS, PROPS)
    cov.update(obligations=gate["obligations"], discharged=gate["discharged"], theorems=gate["theorems"],
               axioms={k: a for k, a in gate["axioms"].items() if a})
    proof_broken = not gate["ok"]
    if tier == "thorough" and not proof_broken:
        okc, outc = vlib.coqchk(["Verif.Backoff.Props"])
        cov["coqchk"] = "ok" if okc else outc[-300:]
        if not okc:
            proof_broken = True; gate["problems"].append("coqchk: " + outc[-300:])
    env = vlib.goenv(); env["VERIF_SEED"] = str(vlib.SEED); env["VERIF_TIER"] = tier
    okm, modelrun = vlib.build_model("Backoff")
    okg, exe = vlib.go_build("backoff", roots=ROOTS)
    stats = {k: 0 for k in ("o_budget", "o_step_bounds", "o_longest", "o_cancel", "o_fork_clone_start", "o_merge_exact", "o_api", "o_getters", "o_expo", "o_table", "o_call_site", "o_domain", "o_stats", "o_call_site_env_extra")}
    mstats, classes, samples, mism, pfails, ofails = {}, {}, [], [], [], []
    distinct = 0
    site_failures = 0
    site_replay = bool(replay and json.load(open(replay)).get("site_case"))
    if site_replay:
        pass          # a call-site replay re-runs the call-site driver only (same seed as recorded)
    elif okg and okm:
        case = json.load(open(replay)).get("case") if replay else None
        if replay:
            cov["replay_recorded_trace"] = recorded_trace_check(json.load(open(replay)), modelrun)
            vlib.log("C20 replay, recorded trace (no code executed):", json.dumps(cov["replay_recorded_trace"]))
        res, err = run_pipeline(exe, modelrun, env, case)
        if err:
            v.violation({"kind": "harness", "correspondence": "Backoff driver", "error": err}, has_input=False)
        else:
            lines, cmp_out = res
            cfgs, seqs, xl = split_seqs(lines)
            byno = {s.no: s for s in seqs}
            for l in cmp_out.splitlines():
                f = l.split("\t")
                if f[0] == "STATS":
                    mstats.update({kv.split("=")[0]: int(kv.split("=")[1]) for kv in f[1:]})
                elif f[0] == "COUNT":
                    classes[f[1]] = int(f[2])
                elif f[0] == "MISMATCH":
                    mism.append(f[1:])
                elif f[0] == "PROPFAIL":
                    pfails.append(f[1:])
            xfails, probes = expo_oracle(xl, stats)
            cov["expo_probes_outside_domain"] = probes
            for name, l, detail in xfails[:1]:
                v.violation({"kind": "property-oracle", "oracle": name, "what": detail, "finding_class": "expo_inexact", "case": [l]})
                ofails.append((None, name, 0, detail, "expo_inexact"))
            if not replay:
                tprobs, tinfo = table_check(cfgs, seqs[0].lf if seqs else set(), stats)
                cov["kinds_table"] = tinfo
                for kind, detail, g in tprobs[:2]:
                    v.violation({"kind": "property-oracle" if g else "table", "oracle": "C20_table_applies", "what": detail,
                                 "theorem_or_file": "C20_table_applies / build/coq_cases/C20Table.v", "case": [g] if g else []}, has_input=bool(g))
                    if g:
                        ofails.append((None, "C20_table_applies", 0, detail, ""))
            seen = set()
            for s in seqs:
                for name, k, detail, cls in oracles(cfgs, s, stats):
                    ofails.append((s, name, k, detail, cls))
                for l in s.lines:
                    if "=>\t-" not in l:
                        seen.add(l[2:])
            distinct = len(seen)
            step = max(1, len(seqs) // 5)
            samples = [" ; ".join(x.split("\t=>")[0].replace("\t", " ") for x in s.lines[:12]) for s in seqs[::step]][:5]
            cfg_lines = [l for l in lines.splitlines() if l.startswith("CFG\t")]
            shown = set()
            for s, name, k, detail, cls in ofails:
                if s is None or name in shown:
                    continue
                shown.add(name)
                v.violation({"kind": "property-oracle", "oracle": name, "what": detail, "finding_class": cls, "class": s.cls,
                             "failing_op_index": k, "failing_line": s.lines[k], "kinds": cfg_lines,
                             "case": [s.head] + s.lines[:k + 1]})
            for pf in pfails[:3]:
                if "C20_step_bounds" in shown:
                    break
                s = byno[int(pf[1])]; k = int(pf[2]) - 1
                v.violation({"kind": "property-oracle", "oracle": "C20_step_bounds", "what": pf[3], "failing_op_index": k,
                             "failing_line": s.lines[k], "kinds": cfg_lines, "case": [s.head] + s.lines[:k + 1]})
                shown.add("C20_step_bounds")
            if mism and not ofails and not pfails:
                for m in mism[:3]:
                    if int(m[0]) < 0:
                        v.violation({"kind": "correspondence", "correspondence": "Backoff model expo vs config/retry expo", "what": m[2], "case": [m[3:]]}, has_input=False)
                        continue
                    s = byno[int(m[0])]; k = int(m[1]) - 1
                    v.violation({"kind": "correspondence", "correspondence": "Backoff model vs config/retry", "what":
                                 "model and implementation disagree (%s); none of the %d oracle evaluations of this run failed" % (m[2], sum(stats.values())),
                                 "failing_op_index": k, "failing_line": s.lines[k], "kinds": cfg_lines, "case": [s.head] + s.lines[:k + 1]}, has_input=False)
    else:
        why = (exe if not okg else modelrun)
        v.violation({"kind": "harness-build", "correspondence": "Backoff driver/model build against the current tree", "error": why}, has_input=False)
    if not replay or site_replay:
        oks, sexe = vlib.go_build("backoffsite", roots=ROOTS)
        if not oks:
            v.violation({"kind": "harness-build", "correspondence": "call-site driver (txnlock.checkAllSecondaries, txnsnapshot.batchGetKeysByRegions) against the current tree",
                         "error": sexe}, has_input=False)
        else:
            rcs, souts = vlib.sh([sexe], env=env, timeout=600)
            sfails, nsite = site_oracle(souts, stats) if rcs == 0 else ([], 0)
            cov["call_site_runs"] = nsite
            if rcs != 0 or nsite == 0:
                v.violation({"kind": "harness", "correspondence": "call-site driver", "error": souts[-600:]}, has_input=False)
            shown_cls = set()
            for name, r, detail, cls in sfails:
                if cls in shown_cls:
                    continue
                shown_cls.add(cls)
                v.violation({"kind": "property-oracle", "oracle": name, "theorem": "C20_worker_pattern / C20_merge_exact at the consumer",
                             "what": detail, "finding_class": cls, "site_case": r, "case": [json.dumps(r)]})
            site_failures = len(sfails)
    if proof_broken:
        v.violation({"kind": "proof", "theorem_or_file": gate["problems"], "what": "Coq obligations no longer check"}, has_input=False)
    by_class = {}
    for kname, n in classes.items():
        by_class[kname] = n
    cov.update(evaluations=mstats.get("ops", 0) + sum(stats.values()),
               distinct_nontrivial=distinct,
               rule="random op sequences per generator class (single, tree depth<=3, directed11 = fork/sleep-in-fork/merge/exhaust-on-parent, excluded, cancelkill, maxsleep, custom jitters/duplicate names) over 17 kinds, budgets, weights, per-call maxima, excluded limits; distinct = distinct (op, observed sleep, result, resulting state) lines with a result",
               samples=samples, traces_validated_against_impl=mstats.get("seqs", 0), input_distribution=by_class,
               states_compared=mstats.get("states", 0), oracle_evaluations=stats,
               model_mismatches=len(mism), oracle_failures=len(ofails) + len(pfails) + site_failures)
    rc = v.finish()
    vlib.write_evidence(PID, cov, t0, violations=len(v.violations), level="proof",
                        assumptions=["kinds are well formed (0 <= cap, caps bounded by C), BackOffWeight <> 0",
                                     "a back-offer passed to UpdateUsingForked is not used afterwards",
                                     "C20_budget_general holds for all sequences relative to the ghost high-water budget; the own-budget form C20_budget needs: ResetMaxSleep and UpdateUsingForked do not both occur", "expo: cap < 2^53 (beyond that float64(cap) rounds; cap > 2^63-513 overflows to MinInt64 — no shipped kind)"])
    return rc
