"""C12 — the mock TiKV implements Percolator MVCC. Proof: coq/theories/Mvcc/Props.v (model = Mvcc/Model.v).
Correspondence: in-package overlay driver (harness/go/ov_mvcc) runs command sequences on a fresh
mocktikv.MVCCLevelDB; the extracted model (ocaml/mvcc) runs the same sequences; canonical response + full
per-key dump are compared after every command and the boolean forms of the theorems' conclusions are
evaluated on what the implementation answered / stored."""
import os, time, json, tempfile
import vlib
from vlib import Verdict

PID = "C12"
PROPS = [("theories/Mvcc/Props.v", "Mvcc.Props")]
AREAS = ["theories/Mvcc"]

def pipe(exe, modelrun, env, args, trace=False, timeout=1700):
    e = dict(env)
    if trace:
        e["MVCC_TRACE"] = "1"
    cmd = "set -o pipefail; '%s' %s | '%s'" % (exe, args, modelrun)
    rc, out = vlib.sh(["bash", "-c", cmd], env=e, timeout=timeout)
    return rc, out


def run_seq(exe, modelrun, env, cmds, trace=False, cls="replay"):
    """execute one command sequence on the implementation and the model (cls "rpc": also through the RPC handlers)"""
    with tempfile.NamedTemporaryFile("w", suffix=".seq", delete=False) as fh:
        fh.write("S\tr0\t%s\n" % cls + "".join("C\t%s\n" % c for c in cmds))
        name = fh.name
    try:
        rc, out = pipe(exe, modelrun, env, "run '%s'" % name, trace=trace, timeout=120)
    finally:
        os.unlink(name)
    return parse(out) if rc == 0 else {"error": out[-800:], "fails": [], "mism": [], "stats": {}, "counts": {}, "samples": [], "trace": []}


def run_many(exe, modelrun, env, seqs):
    """execute many command sequences in one driver / model process pair; returns the oracle failures (each carries its sequence)"""
    with tempfile.NamedTemporaryFile("w", suffix=".seq", delete=False) as fh:
        for i, cmds in enumerate(seqs):
            fh.write("S\tp%d\tprobe\n" % i + "".join("C\t%s\n" % c for c in cmds))
        name = fh.name
    try:
        rc, out = pipe(exe, modelrun, env, "run '%s'" % name, timeout=300)
    finally:
        os.unlink(name)
    return parse(out)["fails"] if rc == 0 else []


def signature(item):
    """kind of disagreement: opcode of the disagreeing command + the two answers with numbers erased"""
    import re
    seq, i = item.get("sequence") or [], item.get("op_index", 0)
    op = seq[i].split(" ")[0] if 0 <= i < len(seq) else "?"
    return (op, item.get("what"), re.sub(r"[0-9a-f]{2,}", "#", item.get("detail", ""))[:120])


def parse(out):
    res = {"fails": [], "mism": [], "stats": {}, "counts": {}, "samples": [], "trace": [], "error": None}
    last = None
    for l in out.splitlines():
        f = l.split("\t")
        if f[0] in ("PROPFAIL", "MISMATCH") and len(f) >= 6:
            last = {"kind": f[0], "seq_id": f[1], "class": f[2], "op_index": int(f[3]), "what": f[4], "detail": " ".join(f[5:]), "sequence": None}
            (res["fails"] if f[0] == "PROPFAIL" else res["mism"]).append(last)
        elif f[0] == "SEQ" and last is not None and last["seq_id"] == f[1]:
            last["sequence"] = f[2:]
        elif f[0] == "STATS":
            res["stats"].update({kv.split("=")[0]: int(kv.split("=")[1]) for kv in f[1:]})
        elif f[0] == "COUNT":
            res["counts"][f[1]] = int(f[2])
        elif f[0] == "SAMPLE":
            res["samples"].append(f[1])
        elif f[0] == "TRACE":
            res["trace"].append(f[1:])
    return res


def ddmin(cmds, still_bad):
    """delta debugging over the command list"""
    n = 2
    while len(cmds) >= 2:
        chunk = max(1, len(cmds) // n)
        reduced = False
        for i in range(0, len(cmds), chunk):
            cand = cmds[:i] + cmds[i + chunk:]
            if cand and still_bad(cand):
                cmds, n, reduced = cand, max(n - 1, 2), True
                break
        if not reduced:
            if chunk == 1:
                break
            n = min(len(cmds), n * 2)
    return cmds


def neighbours(cmds):
    """probe sequences around a disagreeing case, kept inside the discipline (every transaction keeps the commit ts it already
    used in the sequence, fresh pairwise distinct ones otherwise): commit / batch rollback / cleanup / check-txn-status of every
    transaction on every key (each twice), late prewrites, then gets; the last command again; scans; gc + reads"""
    tss, keys = set(), ["1", "2", "3", "4"]
    for c in cmds:
        for tok in c.replace(";", " ").replace(":", " ").replace(",", " ").split(" "):
            try:
                v = int(tok, 16)
                if 0x40000 <= v < 0xffffffffffffffff:
                    tss.add(v)
            except ValueError:
                pass
    top = (max(tss) if tss else 0x40000) + 0x40000
    tss = sorted(tss)[:12] + [0xffffffffffffffff]
    starts, commit_of = [], {}
    for c in cmds:
        f = c.split(" ")
        s = None
        if f[0] in ("pw", "pl", "cm", "cl", "cs", "rb", "hb"):
            s = f[2]
            if f[0] == "cm":
                commit_of.setdefault(s, f[3])
        elif f[0] == "pr":
            s = f[4]
        elif f[0] == "rl":
            s = f[3]
            if int(f[4], 16) > 0:
                commit_of.setdefault(s, f[4])
        elif f[0] == "br" and f[3] != "-":
            for x in f[3].split(","):
                a, b = x.split(":")
                if a not in starts:
                    starts.append(a)
                if int(b, 16) > 0:
                    commit_of.setdefault(a, b)
        if s is not None and s not in starts:
            starts.append(s)
    starts = starts[:4]
    for i, s in enumerate(starts):           # fresh commit ts above everything, distinct per transaction
        commit_of.setdefault(s, "%x" % (top + (i + 1) * 0x40000))
    big = top + 8 * 0x40000                  # current / read ts above every commit ts
    gets = lambda k: ["get %s %x -" % (k, big), "get %s %x -" % (k, 0xffffffffffffffff)]
    out = [cmds + [cmds[-1]], cmds + [cmds[-1], cmds[-1]]]
    for s in starts:
        c = commit_of[s]
        for k in keys:
            cm, rb, cl = "cm %s %s %s" % (k, s, c), "rb %s %s" % (k, s), "cl %s %s 0" % (k, s)
            cs1, cs0 = "cs %s %s %x %x 1 0" % (k, s, big, big), "cs %s %s %x %x 0 0" % (k, s, big, big)
            pw = "pw %s %s 0 1 0 0 P:%s:7:n:0" % (k, s, k)
            for probe in ([cm, cm], [rb, rb], [cl, cl], [cs1, cs1], [cs0, cs0], [pw, pw], [cm, rb], [rb, cm], [cs1, cm], [cl, pw, cm], [pw, cm, cm]):
                out.append(cmds + probe + gets(k))
        out.append(cmds + ["rl 0 0 %s 0" % s, "rl 0 0 %s 0" % s] + [g for k in keys for g in gets(k)])
        out.append(cmds + ["rl 0 0 %s %s" % (s, c), "rl 0 0 %s %s" % (s, c)] + [g for k in keys for g in gets(k)])
        out.append(cmds + ["cm 1,2,3,4 %s %s" % (s, c), "rb 1,2,3,4 %s" % s] + [g for k in keys for g in gets(k)])
    # a fresh directed batch for the branches that look a transaction's own record up (commit / rollback / cleanup / status
    # check without the lock): the nested interleaving start_old < start_T < commit_T < for_update_old < commit_old on one
    # key, built with fresh timestamps above everything in the sequence, then each finishing command of T
    so, st, ct, fo, co = [top + (10 + 2 * i) * 0x40000 for i in range(5)]
    cur = co + 8 * 0x40000
    for k in keys:
        setup_t = ["pw %s %x 0 1 0 0 P:%s:5:n:0" % (k, st, k), "cm %s %x %x" % (k, st, ct)]
        lock_old = ["pl %s %x %x 3 0 0 0 0 0 1 %s:0" % (k, so, fo, k)]
        pw_old = ["pw %s %x %x 1 0 0 P:%s:6:n:1" % (k, so, fo, k)]
        cm_old = ["cm %s %x %x" % (k, so, co)]
        cmT, rbT, clT = "cm %s %x %x" % (k, st, ct), "rb %s %x" % (k, st), "cl %s %x 0" % (k, st)
        for setup in (setup_t + lock_old + cm_old, setup_t + lock_old + pw_old + cm_old):
            for fin in ([cmT, cmT], [rbT], [clT], ["cs %s %x %x %x 1 0" % (k, st, cur, cur)], ["cs %s %x %x %x 0 0" % (k, st, cur, cur)],
                        ["pw %s %x 0 1 0 0 P:%s:5:n:0" % (k, st, k)]):
                out.append(cmds + setup + fin + ["get %s %x -" % (k, cur)])
    reads = ["get %s %x -" % (k, t) for k in keys for t in tss + [big]]
    out.append(cmds + reads)
    out.append(cmds + ["sc 0 0 4 %x -" % big, "rs 0 0 4 %x -" % big, "sc 0 0 1 %x -" % big, "rs 0 0 1 %x -" % big, "bg 1,2,3,4 %x -" % big])
    for t in tss[:-1]:
        out.append(cmds + ["gc 0 0 %x" % t] + ["get %s %x -" % (k, u) for k in keys for u in tss + [big] if u >= t])
    return out


def main(tier, replay):
    t0 = time.time()
    v = Verdict(PID)
    cov = {"checker_cmd": "coq/mk.sh theories/Mvcc/Props.vo (coqc 8.16.1, full .vo build) + Print Assumptions per theorem",
           "trusted_base": vlib.TRUSTED_BASE + [
               "modelled rather than verified: leveldb (ordered map + write batch), binary (un)marshalling of lock/value records (covered by the per-key dumps), txnSize, the deadlock detector (reset before every PessimisticLock call), server-side lock waiting, isolation level RC, raw KV column families",
               "values are non-empty byte strings (the client rejects empty values); keys are the byte strings k1..k4; timestamps rank<<18"]}
    gate = vlib.coq_gate(PID, AREAS, PROPS)
    cov.update(obligations=gate["obligations"], discharged=gate["discharged"], theorems=gate["theorems"],
               axioms={k: a for k, a in gate["axioms"].items() if a})
    env = vlib.goenv(); env["VERIF_SEED"] = str(vlib.SEED); env["VERIF_TIER"] = tier
    okm, modelrun = vlib.build_model("Mvcc")
    okg, exe = vlib.go_build("mvcc", roots=("ov_mvcc",))
    res = {"stats": {}, "counts": {}, "samples": [], "fails": [], "mism": []}
    if not (okg and okm):
        v.violation({"kind": "harness-build", "correspondence": "Mvcc driver/model build against the current tree", "error": (exe if not okg else modelrun)}, has_input=False)
    else:
        if replay:
            case = json.load(open(replay))
            r = run_seq(exe, modelrun, env, case.get("sequence") or [], trace=True, cls=(case.get("class") if str(case.get("class")).startswith("rpc") else "rpc") if case.get("oracle") == "handler_glue" else "replay")
            res = r
            vlib.log("replayed %d commands: %d oracle failures, %d model mismatches" % (len(case.get("sequence") or []), len(r["fails"]), len(r["mism"])))
        else:
            rc, out = pipe(exe, modelrun, env, "gen")
            if rc != 0:
                v.violation({"kind": "harness", "correspondence": "Mvcc driver", "error": out[-1500:]}, has_input=False)
            res = parse(out)

        def describe(item, kind):
            seq = item["sequence"] or []
            tr = run_seq(exe, modelrun, env, seq, trace=True, cls=item["class"] if item["what"] == "handler_glue" and item["class"].startswith("rpc") else "replay")
            obj = {"kind": kind, "oracle" if kind == "property-oracle" else "correspondence": item["what"], "class": item["class"],
                   "sequence": seq, "op_index": item["op_index"], "detail": item["detail"],
                   "trace": [dict(zip(["cmd", "impl", "model", "impl_state", "model_state"], t)) for t in tr["trace"]],
                   "what": "conclusion of C12_%s evaluated on the implementation is false" % item["what"] if kind == "property-oracle"
                           else "model and implementation disagree (%s)" % item["what"]}
            return obj

        # oracle failures on the implementation = concrete failing inputs (minimised)
        shown = 0
        for item in res["fails"]:
            if shown >= 5:
                break
            if item["sequence"]:
                what = item["what"]
                cls = item["class"] if what == "handler_glue" and item["class"].startswith("rpc") else "replay"
                small = ddmin(item["sequence"], lambda c: any(f["what"] == what for f in run_seq(exe, modelrun, env, c, cls=cls)["fails"]))
                r2 = run_seq(exe, modelrun, env, small, cls=cls)
                f2 = [f for f in r2["fails"] if f["what"] == what]
                if f2:
                    item = f2[0]
            v.violation(describe(item, "property-oracle"))
            shown += 1
        if res["mism"] and not shown:
            # correspondence broken: minimise, then extend the disagreeing runs with probe commands on the implementation
            # and evaluate the oracles on the extended runs before falling back to no-failing-input-found
            found = 0
            mism = sorted(res["mism"], key=lambda it: it["class"] == "random-free")   # disciplined classes first
            picked, seen = [], set()
            for it in mism:                                                            # one representative per kind of disagreement
                sg = signature(it)
                if it["sequence"] and sg not in seen:
                    seen.add(sg); picked.append(it)
            picked = picked[:12]
            hit = src = None
            for it in picked:                       # pass 1: probes appended to the disagreeing prefix (one batched run each)
                base = it["sequence"][:it["op_index"] + 1]
                fails = run_many(exe, modelrun, env, [base] + neighbours(base))
                if fails:
                    hit, src = fails[0], it
                    break
            if not hit:
                for it in picked[:3]:               # pass 2: probes appended to the minimised disagreeing sequence
                    small = ddmin(it["sequence"], lambda c: bool(run_seq(exe, modelrun, env, c)["mism"]))
                    it["small"] = small
                    fails = run_many(exe, modelrun, env, [small] + neighbours(small))
                    if fails:
                        hit, src = fails[0], it
                        break
            if hit and hit["sequence"]:
                found += 1
                what = hit["what"]
                s2 = ddmin(hit["sequence"], lambda c: any(f["what"] == what for f in run_seq(exe, modelrun, env, c)["fails"]))
                r3 = [f for f in run_seq(exe, modelrun, env, s2)["fails"] if f["what"] == what]
                obj = describe(r3[0] if r3 else hit, "property-oracle")
                obj["found_from_mismatch"] = {"sequence": src.get("small") or src["sequence"][:src["op_index"] + 1], "detail": src["detail"]}
                v.violation(obj)
            if not found:
                for item in res["mism"][:2]:
                    seq = item["sequence"] or []
                    small = ddmin(seq, lambda c: bool(run_seq(exe, modelrun, env, c)["mism"])) if seq else seq
                    r2 = run_seq(exe, modelrun, env, small)
                    it = (r2["mism"] or [item])[0]
                    obj = describe(it, "correspondence")
                    obj["what"] += "; no property-oracle failure on the minimised case nor on %d neighbouring probe sequences" % len(neighbours(small) if small else [])
                    v.violation(obj, has_input=False)
    if not gate["ok"]:
        v.violation({"kind": "proof", "theorem_or_file": gate["problems"], "what": "Coq obligations no longer check"}, has_input=False)
    elif tier == "thorough" and not replay:
        okc, outc = vlib.coqchk(["Verif.Mvcc.Props"])
        cov["coqchk"] = "ok" if okc else outc[-400:]
        if not okc:
            v.violation({"kind": "proof", "theorem_or_file": "coqchk Verif.Mvcc.Props", "what": "coqchk rejects the compiled proofs: " + outc[-400:]}, has_input=False)
    st, cnt = res["stats"], res["counts"]
    cov.update(evaluations=st.get("ops", 0) + st.get("props", 0), distinct_nontrivial=st.get("nontrivial", 0),
               rule="distinct command sequences in which the implementation gave at least one answer other than plain ok / not-found / empty "
                    "(exhaustive depth-%s sweep over a 2-key 2-transaction alphabet with one random timestamp permutation, directed classes for the 4 repaired defects + repeat + late-prewrite, "
                    "random depth 20-60 sequences over <=4 keys <=4 transactions under the discipline, and with colliding timestamps for the model=code differential only)" % ("3" if tier == "quick" else "3 and 4"),
               samples=res["samples"][:8], traces_validated_against_impl=st.get("seqs", 0),
               input_distribution={"classes": {k[6:]: n for k, n in cnt.items() if k.startswith("class:")},
                                   "ops": {k[3:]: n for k, n in cnt.items() if k.startswith("op:")},
                                   "responses": {k[5:]: n for k, n in cnt.items() if k.startswith("resp:")},
                                   "oracles": {k[7:]: n for k, n in cnt.items() if k.startswith("oracle:")},
                                   "disciplined_sequences": st.get("disciplined_seqs", 0), "disciplined_ops": st.get("disciplined_ops", 0)},
               model_mismatches=st.get("mismatches", 0), oracle_failures=st.get("propfails", 0))
    rc = v.finish()
    vlib.write_evidence(PID, cov, t0, violations=len(v.violations), level="proof",
                        assumptions=["oracle_ts: start < commit per transaction, one commit ts per transaction, commit ts of different transactions differ and are nobody's start ts; no pessimistic lock request reaches a key holding that transaction's commit/rollback record",
                                     "put values non-empty; start ts > 0"])
    return rc
