"""C14 — GC lock resolution, range task partition, delete range, visibility check.
Proof: coq/theories/RangeTask/Props.v.  Correspondence: Go driver `gc` (own overlay root ov_gc, public APIs
over mocktikv behind a wrapping tikv.Client / pd.Client) vs the extracted model (ocaml/rangetask):
  * gc   : random leftover-lock populations; property oracles (no old lock left in the range, every record is
           either untouched or resolved by its transaction's outcome, outcomes unchanged, snapshot reads)
           evaluated on the implementation; final store == model's resolve_all; with concurrency 1 the
           per-iteration scan trace == model's gc_resolve_range fed with the observed regions.
  * part : recorded sub-ranges vs partition oracle (consecutive, exact cover) and vs the model's partition
           fed with the layouts PD returned; injected handler failure => task failure.
  * del  : DeleteRangeTask vs map model; request pieces form an exact cover, clipped to their regions.
  * vis  : CheckVisibility / snapshot Get / BatchGet / Scan below / at / above the cached txn safe point.
  * vist : the txn safe point learned before the send / while the response is in flight / after the call, per access path
           and per batch of forward / reverse scans: refused exactly when cached > ts at a post-response check (run_read)."""
import os, time, json, tempfile, collections, hashlib
import vlib
from vlib import Verdict

PID = "C14"
PROPS = [("theories/RangeTask/Props.v", "RangeTask.Props")]
AREAS = ["theories/RangeTask"]
NORMALISATIONS = [
    "N1 ScanLock window/limit: VERIF_C14_N1=off|auto|on, default off since fix F42 (auto = only when the start-up probe finds that the store ignores StartKey/EndKey/Limit (mock_probe.scan_lock_honours_start_key / _limit, n1_active of this run): the wrapping client keeps keys >= start, < end, in key order, first `limit`); with the default a store that ignores the window again is reported from the probe. Class rawscan always runs on the store's own answers (property oracles only). VERIF_C14_STRICT=1 switches every normalisation off",
    "N1T ScanLock lock_type: only when VERIF_C14_N1T=auto|on (default off; see mock_probe.scan_lock_returns_lock_type / n1t_active of this run): fill lock_type from the MVCC debugger. Until fix F41 mocktikv's ScanLock returned no lock_type and the harness filled it unconditionally, which masked that BatchResolveLocks then treats a stale-primary pessimistic lock as a prewrite lock and rolls back a committed transaction's secondary",
    "N2 ResolveLock{TxnInfos}: only when VERIF_C14_N2=auto|on (default off since the mock honours TxnInfos, fix 448a517; see mock_probe.n2_mode / n2_active of this run): the wrapping client issues one single-transaction ResolveLock per TxnInfo with the same region context. With the default, a mock that ignores TxnInfos again is reported by the lock audit (and by the probe case) as a violation",
    "N3 DeleteRange{NotifyOnly}: VERIF_C14_N3=off|auto|on, default off since fix F43 (auto = only when the probe finds that the store deletes on notify-only (mock_probe.delete_range_notify_only_honoured, n3_active): the wrapping client answers notify-only requests itself after an epoch check); with the default the notify class of C14_delete_range_exact runs against the store itself",
    "N3u (unistore tier): unistore's DeleteRange panics on an unbounded end key; the wrapping client forwards ff ff ff ff; delete-range audit by snapshot reads (unistore's MvccGetByKey panics on a removed key)",
    "N1u (unistore tier): unistore's ScanLock ignores StartKey/EndKey and counts the limit from the region start; the wrapping client requests everything and applies TiKV's contract; lock values are taken from the script (ScanLock reports none)",
    "populations are written and audited directly through the mock's MVCCStore interface (Prewrite/PessimisticLock/Commit/Rollback/MvccGetByKey), not through region-routed RPCs",
]


def kb(h):
    return b"" if h in ("-", "") else bytes.fromhex(h)


def in_range(k, s, e):
    k, s, e = kb(k), kb(s), kb(e)
    return s <= k and (e == b"" or k < e)


def empty_range(s, e):
    return kb(e) != b"" and kb(s) >= kb(e)


def hexn(n):
    return "%x" % n


# ------------------------------------------------------------------ projections to the model's vocabulary
def data_writes(rec):
    return [w for w in rec["writes"] if w["kind"] in ("put", "del")]


def m_val(w):
    return "D" if w["kind"] == "del" else "V" + ("" if w["val"] == "-" else w["val"])


def m_rec(rec):
    l = rec["lock"]
    ls = "-" if not l else ",".join([hexn(l["start"]), l["primary"], l["kind"], l["val"] if l["kind"] == "put" else "-",
                                     "1" if l.get("async") else "0", hexn(l.get("min_commit", 0)), "+".join(l.get("secs") or []) or "."])
    ws = "/".join(",".join([hexn(w["start"]), hexn(w["commit"]), m_val(w)]) for w in data_writes(rec)) or "-"
    return "|".join([rec["key"], ls, ws])


def m_store(recs):
    return ";".join(m_rec(r) for r in recs) or "."


def canon_rec_str(s):
    """canonical form of a model record string: writes sorted"""
    k, l, w = s.split("|")
    ws = sorted(w.split("/")) if w != "-" else []
    return (k, l, tuple(ws))


def canon_store(s):
    return [] if s == "." else [canon_rec_str(r) for r in s.split(";")]


def committed_at(pre_by_key, p, t):
    r = pre_by_key.get(p)
    if not r:
        return None
    l = r["lock"]
    if l and l["start"] == t and l.get("async") and l["kind"] != "pess":
        # async-commit primary still locked: the secondaries decide
        mc = l.get("min_commit", 0)
        nonasync = False
        for k in l.get("secs") or []:
            rk = pre_by_key.get(k)
            lk = rk and rk["lock"]
            if lk and lk["start"] == t and lk["kind"] != "pess":
                mc = max(mc, lk.get("min_commit", 0))
                nonasync = nonasync or not lk.get("async")
            else:
                for w in (data_writes(rk) if rk else []):
                    if w["start"] == t:
                        return w["commit"]
                return None
        return None if nonasync else mc      # nonAsyncCommitLock fallback: forced status check rolls the primary back
    for w in data_writes(r):
        if w["start"] == t:
            return w["commit"]
    return None


def resolved(pre_by_key, rec, sp):
    """python rendering of resolve_by_outcome, used by the property oracle (independent of the model)"""
    l = rec["lock"]
    if not l or l["start"] > sp:
        return canon_rec_str(m_rec(rec))
    c = committed_at(pre_by_key, l["primary"], l["start"])
    r2 = {"key": rec["key"], "lock": None, "writes": list(data_writes(rec))}
    if c is not None and l["kind"] in ("put", "del"):
        r2["writes"].append({"start": l["start"], "commit": c, "kind": l["kind"], "val": l["val"]})
    return canon_rec_str(m_rec(r2))


def logical_read(rec_canon, ts):
    """latest data write with commit <= ts of a canonical record without blocking lock"""
    best = None
    for w in rec_canon[2]:
        st, c, v = w.split(",")
        c = int(c, 16)
        if c <= ts and (best is None or c > best[0]):
            best = (c, v)
    if best is None or best[1] == "D":
        return "N"
    return best[1]


# ------------------------------------------------------------------ per-kind processing
class Ctx:
    def __init__(self):
        self.queries = []      # (qid, line)
        self.after = {}        # qid -> callback(answer fields)
        self.viol = []         # (replay_obj, has_input)
        self.stats = collections.Counter()
        self.sigs = set()
        self.samples = {}
        self.oracle_evals = 0
        self.mismatches = 0
        self.mock = {}

    def ask(self, qid, line, cb):
        self.queries.append(line)
        self.after[qid] = cb

    def oracle(self, ok, res, name, detail, model=None):
        self.oracle_evals += 1
        if not ok:
            self.viol.append(({"kind": "property-oracle", "oracle": name, "case": res["case"], "violated": detail,
                               "impl": {k: res.get(k) for k in ("err", "subs", "locks_after", "post", "events", "vis", "reads") if res.get(k)},
                               "model": model, "what": "property oracle failed on the implementation"}, True))
        return ok

    def mismatch(self, res, name, impl, model):
        self.mismatches += 1
        self.viol.append(({"kind": "correspondence", "correspondence": name, "case": res["case"], "impl": impl, "model": model,
                           "what": "model and implementation disagree; the property oracles passed on this case"}, False))


def sig(case):
    c = dict(case); c.pop("id", None)
    return hashlib.sha1(json.dumps(c, sort_keys=True).encode()).hexdigest()


def do_part(cx, res):
    c = res["case"]; qid = "p%d" % c["id"]
    s, e = c["s"], c["e"]
    subs = sorted(res.get("subs") or [], key=lambda x: kb(x[0]))
    err = res["err"]
    failed_call = c.get("failat", 0) > 0 and len(res.get("subs") or []) >= c["failat"]
    cx.stats["part:" + c.get("class", "")] += 1
    if failed_call:
        cx.oracle(err != "", res, "C14_partition(handler failure => task failure)", "a handler returned an error but RunOnRange returned nil")
        cx.stats["part:failure-propagated"] += 1
    else:
        cx.oracle(err == "", res, "C14_partition(no failure => success)", "RunOnRange failed: " + err)
    if err == "" and not failed_call:
        if empty_range(s, e):
            cx.oracle(subs == [], res, "C14_partition(empty range)", "sub-ranges handed out for an empty range")
        else:
            ok = len(subs) > 0 and subs[0][0] == s and subs[-1][1] == e
            for i, (a, b) in enumerate(subs):
                last = i == len(subs) - 1
                if not last and (b == "-" or not kb(a) < kb(b) or subs[i + 1][0] != b):
                    ok = False
                if last and b != "-" and not kb(a) < kb(b):
                    ok = False
            cx.oracle(ok, res, "C14_partition(consecutive, non-overlapping, exact cover)", "sub-ranges %s do not tile [%s,%s)" % (subs, s, e))
        if len(subs) >= 2:
            cx.sigs.add(sig(c))
    lays = [ev.get("layout") or [] for ev in res.get("events") or [] if ev["t"] == "pdscan"] or [res.get("layout0") or []]
    line = "\t".join(["part", qid, "64", str(c.get("rpt") or 128), s, e, "|".join(",".join(l) or "." for l in lays)])

    def cb(f):
        if f[0] != "ok":
            cx.mismatch(res, "partition model returned " + f[0], subs, f)
            return
        msubs = [] if f[1] == "." else [x.split(":") for x in f[1].split(",")]
        if err == "" and not failed_call:
            if [list(x) for x in subs] != msubs:
                cx.mismatch(res, "RunOnRange sub-ranges vs RangeTask.partition", subs, msubs)
        else:
            if not all(list(x) in msubs for x in subs):
                cx.mismatch(res, "RunOnRange sub-ranges (failed task) not among RangeTask.partition", subs, msubs)
    cx.ask(qid, line, cb)
    cx.samples.setdefault("part", {"case": c, "subs": subs, "err": err})


def gc_oracles_from_events(events):
    """per handler call: (s, e, [oracle strings], [(scan start, scan end, keys)])"""
    calls, cur = [], None
    for ev in events:
        t = ev["t"]
        if t == "begin":
            cur = {"s": ev.get("s", "-"), "e": ev.get("e", "-"), "iters": []}
        elif t == "end":
            calls.append(cur); cur = None
        elif cur is None:
            continue
        elif t == "scan":
            cur["iters"].append({"loc": (ev["rs"], ev["re"]), "scan": (ev.get("s", "-"), ev.get("e", "-"), ev.get("keys") or []), "res": None})
        elif t == "resolve" and cur["iters"]:
            cur["iters"][-1]["res"] = (ev["rs"], ev["re"])
    out = []
    for c in calls:
        os_, tr = [], []
        for it in c["iters"]:
            o = "%s:%s:" % it["loc"] + ("N" if it["res"] is None else "%s:%s" % it["res"])
            os_.append(o); tr.append(it["scan"])
        out.append((c["s"], c["e"], os_, tr))
    return out


def layouts_from_events(evs, layout0):
    """per handler call: the layout (sorted split keys) at every served scan and at every ResolveLock attempt after it"""
    cur = set(layout0 or [])
    calls, cc = [], None
    lay = lambda: ",".join(sorted(cur, key=kb)) or "."
    for ev in evs:
        t = ev["t"]
        if t == "split":
            cur.add(ev["s"])
        elif t == "merge":
            cur.discard(ev["s"])
        elif t == "begin":
            cc = {"s": ev.get("s", "-"), "e": ev.get("e", "-"), "iters": []}
        elif t == "end":
            calls.append(cc); cc = None
        elif cc is None:
            continue
        elif t == "scan":
            cc["iters"].append([lay()])
        elif t in ("resolve", "resolveerr") and cc["iters"]:
            cc["iters"][-1].append(lay())
    return calls


def do_gc(cx, res):
    c = res["case"]
    uni = c.get("backend") == "unistore"
    qid = ("u%d" if uni else "g%d") % c["id"]
    sp, s, e = c["sp"], c.get("s", "-"), c.get("e", "-")
    if c.get("expect") == "primary_mismatch":
        # stale pessimistic primary pointer onto a secondary prewrite lock of the same transaction: TiKV / unistore answer
        # PrimaryMismatch, getTxnStatus returns it, BatchResolveLocks fails: the model's collect_v = None (C14_primary_check)
        cx.stats["uni:primary-mismatch"] += 1
        cx.oracle("primary mismatch" in res["err"], res, "C14_primary_check(PrimaryMismatch fails the pass, as modelled)", "err = %r" % res["err"])
        cx.oracle([canon_rec_str(m_rec(r)) for r in res["pre"] if r["lock"] and r["lock"]["kind"] != "pess"] ==
                  [canon_rec_str(m_rec(r)) for r in res["post"] if r["lock"] and r["lock"]["kind"] != "pess"], res,
                  "C14_primary_check(no prewrite lock is touched by the failed pass)", "prewrite locks changed")
        cx.ask(qid + "p", "\t".join(["pok", qid + "p", m_store(res["pre"])]),
               lambda f: None if f[0] == "0" else cx.mismatch(res, "primaries_okb should be false on the PrimaryMismatch population", res["pre"], f))
        cx.sigs.add(sig(c))
        return
    if c.get("barrier"):
        sp = min(sp, c["barrier"])     # a GC barrier blocks the txn safe point: GC must run with the lower value
        cx.stats["gc-feature:blocked-safe-point"] += 1
    pre, post = res["pre"], res["post"]
    pre_by_key = {r["key"]: r for r in pre}
    cx.stats[("uni:" if uni else "gc:") + c.get("class", "")] += 1
    fired = [ev for ev in res.get("events") or [] if ev["t"] == "fault"]
    if fired:
        # C14_failed_pass_harmless: an RPC answered with an error / a cancelled context fails the pass (failure is propagated) and
        # leaves every key untouched or resolved by its transaction's outcome; the retry pass (result class pass2) completes the job
        cx.stats["gc-feature:fault:" + fired[0].get("s", "")] += 1
        cx.oracle(res["err"] != "", res, "C14_partition(an RPC error / cancellation fails the pass)", "fault %s fired but the pass reported success" % fired)
        pre_by_key = {r["key"]: r for r in res["pre"]}
        post_by_key = {r["key"]: r for r in res["post"]}
        bad = []
        for r0, r1 in zip(res["pre"], res["post"]):
            c0, c1, cr = canon_rec_str(m_rec(r0)), canon_rec_str(m_rec(r1)), resolved(pre_by_key, r0, sp)
            if c1 != c0 and c1 != cr:
                bad.append({"pre": r0, "post": r1, "expected_resolved": cr})
        cx.oracle(not bad, res, "C14_failed_pass_harmless(each key untouched or resolved by its transaction's outcome)", json.dumps(bad[:3]))
        bad_out = []
        for r0 in res["pre"]:
            l0 = r0["lock"]
            if l0 and l0["kind"] != "pess":
                a, b = committed_at(pre_by_key, l0["primary"], l0["start"]), committed_at(post_by_key, l0["primary"], l0["start"])
                if a != b:
                    bad_out.append({"txn": l0["start"], "primary": l0["primary"], "before": a, "after": b})
        cx.oracle(not bad_out, res, "C14_failed_pass_harmless(per-transaction outcome)", json.dumps(bad_out[:3]))
        cx.sigs.add(sig(c))
        return
    cx.oracle(res["err"] == "", res, "C14_no_old_lock(pass succeeds)", "GC lock resolution failed: " + res["err"])
    if res["err"] != "":
        return
    if c.get("mode") == "full":
        cx.oracle(res.get("new_sp") == sp, res, "C14_gc_clamped(GC resolves up to and returns min(expected, granted))", "GC returned %s for safe point %s" % (res.get("new_sp"), sp))
        cx.ask(qid + "s", "\t".join(["gcsp", qid + "s", hexn(c["sp"]), hexn(c.get("barrier") or c["sp"])]),
               lambda f: None if int(f[0], 16) == res.get("new_sp") else cx.mismatch(res, "KVStore.GC safe point vs RangeTask.gc_safe_point", res.get("new_sp"), f))
    n_old = 0
    bad_old, bad_rel, bad_new = [], [], []
    for r0, r1 in zip(pre, post):
        l0 = r0["lock"]
        old = bool(l0) and l0["start"] <= sp
        inr = in_range(r0["key"], s, e)
        c0, c1, cr = canon_rec_str(m_rec(r0)), canon_rec_str(m_rec(r1)), resolved(pre_by_key, r0, sp)
        if old and inr:
            n_old += 1
            if r1["lock"] and r1["lock"]["start"] <= sp:
                bad_old.append(r1)
        # every record is either untouched or resolved by its transaction's outcome
        if c1 != c0 and c1 != cr:
            bad_rel.append({"pre": r0, "post": r1, "expected_resolved": cr})
        if old and inr and c1 != cr:
            bad_rel.append({"pre": r0, "post": r1, "expected_resolved": cr})
        if not old and c1 != c0:
            bad_new.append({"pre": r0, "post": r1})
    cx.oracle(not bad_old, res, "C14_no_old_lock", "locks with start <= %d remain in [%s,%s): %s" % (sp, s, e, bad_old))
    for la in res.get("locks_after") or []:
        k, t = la.split("@")
        if la.startswith("err:") or (in_range(k, s, e) and int(t) <= sp):
            cx.oracle(False, res, "C14_no_old_lock(ScanLocks probe)", "ScanLocks after the pass still returns %s" % la)
    cx.oracle(not bad_rel, res, "C14_outcomes_kept(each key untouched or resolved by its transaction's outcome)", json.dumps(bad_rel[:3]))
    cx.oracle(not bad_new, res, "C14_outcomes_kept(locks above the safe point and lock-free keys untouched)", json.dumps(bad_new[:3]))
    post_by_key = {r["key"]: r for r in post}
    bad_out = []
    for r0 in pre:
        l0 = r0["lock"]
        if l0 and l0["kind"] != "pess":
            a, b = committed_at(pre_by_key, l0["primary"], l0["start"]), committed_at(post_by_key, l0["primary"], l0["start"])
            if a != b:
                bad_out.append({"txn": l0["start"], "primary": l0["primary"], "before": a, "after": b})
    cx.oracle(not bad_out, res, "C14_outcomes_kept(per-transaction outcome)", json.dumps(bad_out[:3]))
    # snapshot reads at ts >= sp
    bad_reads = []
    for rd in res.get("reads") or []:
        r0 = pre_by_key[rd["key"]]
        exp = logical_read(resolved(pre_by_key, r0, sp) if in_range(rd["key"], s, e) or canon_rec_str(m_rec(post_by_key[rd["key"]])) != canon_rec_str(m_rec(r0)) else canon_rec_str(m_rec(r0)), rd["ts"])
        if rd["res"] != exp:
            bad_reads.append({"read": rd, "expected": exp})
    cx.oracle(not bad_reads, res, "C14_outcomes_kept(snapshot reads at ts >= safe point)", json.dumps(bad_reads[:3]))
    # rollback markers (oracle only; C12 owns the store-side theorem): late prewrites of rolled-back (key, start) are refused; the model's markers are on disk (mock tier)
    late_bad = [rd for rd in res.get("late") or [] if rd["res"] != "refused"]
    cx.oracle(not late_bad, res, "rollback markers (oracle only, the theorem is C12's): a late prewrite of a rolled-back (key, start ts) is refused", json.dumps(late_bad[:3]))
    cx.stats["late-prewrite-probes"] += len(res.get("late") or [])
    if not uni:
        def cb_mark(f):
            miss = []
            for item in (f[0].split(",") if f and f[0] else []):
                k, t = item.split("@"); t = int(t, 16)
                if not in_range(k, s, e):
                    continue
                r1 = post_by_key.get(k)
                if r1 is not None and not any(w["kind"] == "rollback" and w["start"] == t for w in r1["writes"]):
                    miss.append({"key": k, "start": t, "post": r1})
            if miss:
                cx.mismatch(res, "rollback records after the pass vs RangeTask.markers", miss[:3], f)
        cx.ask(qid + "m", "\t".join(["markers", qid + "m", hexn(sp), m_store(pre)]), cb_mark)
    # C14_reads_kept_pass: keys that held no lock read the same before and after the pass (real reads on both sides)
    after = {(rd["key"], rd["ts"]): rd["res"] for rd in res.get("reads") or []}
    changed = [{"before": rb, "after": after[(rb["key"], rb["ts"])]} for rb in res.get("reads_before") or []
               if (rb["key"], rb["ts"]) in after and after[(rb["key"], rb["ts"])] != rb["res"]]
    n_cmp = sum(1 for rb in res.get("reads_before") or [] if (rb["key"], rb["ts"]) in after)
    cx.oracle(not changed, res, "C14_reads_kept_pass(snapshot reads at/above the safe point unchanged by the pass)", json.dumps(changed[:3]))
    cx.stats["reads-before-after-compared"] += n_cmp
    # measured features
    evs = res.get("events") or []
    limit = c.get("limit") or 1024
    feats = []
    if any(ev["t"] == "scan" and len(ev.get("keys") or []) >= limit for ev in evs):
        feats.append("limit-hit")
    if any(ev["t"] in ("scanerr", "resolveerr") for ev in evs):
        feats.append("region-error")
    if any(r["lock"] and r["lock"]["kind"] == "pess" and r["lock"]["start"] <= sp for r in pre):
        feats.append("pessimistic")
    if any(r["lock"] and r["lock"]["start"] <= sp and r["lock"]["kind"] != "pess" and committed_at(pre_by_key, r["lock"]["primary"], r["lock"]["start"]) for r in pre):
        feats.append("commit-secondary")
    if any(r["lock"] and r["lock"]["start"] > sp for r in pre):
        feats.append("lock-above-sp")
    for r in pre:
        l = r["lock"]
        if l and l.get("async") and l.get("secs") and l["start"] <= sp:
            oc = committed_at(pre_by_key, r["key"], l["start"])
            feats.append("async-primary-locked:" + ("commit" if oc else "rollback"))
    if uni:
        cx.ask(qid + "p", "\t".join(["pok", qid + "p", m_store(pre)]), lambda f: cx.stats.update({"uni:primaries-ok" if f[0] == "1" else "uni:primaries-not-ok": 1}))
    for f in set(feats):
        cx.stats["gc-feature:" + f] += 1
    if n_old > 0:
        cx.sigs.add(sig(c))
    cx.samples.setdefault("gc", {"case": {k: v for k, v in c.items() if k != "script"}, "script_ops": len(c.get("script") or []),
                                 "old_locks_in_range": n_old, "features": feats, "events": evs[:12]})
    # model: final store
    store = m_store(pre)

    def cb_final(f):
        mfin = canon_store(f[0])
        bad = []
        for mr, r0, r1 in zip(mfin, pre, post):
            c0, c1 = canon_rec_str(m_rec(r0)), canon_rec_str(m_rec(r1))
            if in_range(r0["key"], s, e):
                if c1 != mr:
                    bad.append({"key": r0["key"], "impl": c1, "model": mr})
            elif c1 != c0 and c1 != mr:
                bad.append({"key": r0["key"], "impl": c1, "model": mr, "pre": c0})
        if bad:
            cx.mismatch(res, "store after the pass vs RangeTask.resolve_all", bad[:4], None)
    cx.ask(qid + "f", "\t".join(["final", qid + "f", hexn(sp), store]), cb_final)
    # every TxnInfo of every ResolveLock request (any number of workers: a multiset, not a sequence) carries the
    # transaction's outcome per the model, and every old prewrite lock of the range is covered by such a request
    resolves = [ev for ev in evs if ev["t"] == "resolve"]
    if c.get("mode", "custom") == "custom":
        def cb_out(f):
            outc = {}
            for item in (f[0].split(",") if f and f[0] else []):
                kt, oc = item.split("=")
                k, t = kt.split("@")
                outc[(k, int(t, 16))] = 0 if oc == "N" else int(oc, 16)
            by_t = {}
            for (k, t), oc in outc.items():
                r0 = pre_by_key[k]
                if r0["lock"]["kind"] != "pess":
                    by_t.setdefault(t, set()).add(oc)
            bad = []
            for ev in resolves:
                for t, cts in ev.get("infos") or []:
                    if t in by_t and by_t[t] != {cts}:
                        bad.append({"resolve": ev, "txn": t, "sent": cts, "model_outcome": sorted(by_t[t])})
            for (k, t), oc in outc.items():
                r0 = pre_by_key[k]
                if t <= sp and in_range(k, s, e) and r0["lock"]["kind"] != "pess":
                    by_check = any(ev["t"] == "check" and ev.get("s") == k and ev.get("ts") == t for ev in evs)   # a primary rolled back by CheckTxnStatus
                    # with several workers and injected splits the logged region range (looked up after serving) may already be split again
                    exact = c.get("conc", 1) == 1 or not c.get("inj")
                    if not by_check and not any((not exact or in_range(k, ev["rs"], ev["re"])) and any(ti[0] == t for ti in ev.get("infos") or []) for ev in resolves):
                        bad.append({"uncovered_lock": k, "txn": t})
            if bad:
                cx.mismatch(res, "ResolveLock requests (multiset) vs RangeTask.committed_at", bad[:4], None)
            else:
                cx.stats["gc:resolve-requests-validated"] += 1
        cx.ask(qid + "o", "\t".join(["outcomes", qid + "o", store]), cb_out)
    # async commit: the per-region CheckSecondaryLocks answers in delivery order vs Model.check_all_secondaries
    if c.get("conc", 1) == 1:
        i, n_groups = 0, 0
        while i < len(evs):
            ev = evs[i]
            if ev["t"] == "check" and ev.get("async"):
                t, mc0 = ev["ts"], (ev.get("mincs") or [0])[0]
                answers, j = [], i + 1
                while j < len(evs) and evs[j]["t"] == "checksec":
                    a = evs[j]
                    if a["ts"] != t:
                        # a late answer for an earlier transaction: checkAllSecondaries returns on the first error (nonAsyncCommitLock)
                        # without waiting for the other regions' requests, whose answers are then logged later
                        j += 1
                        continue
                    answers.append("M" + hexn(a.get("commit", 0)) if a.get("err") == "missing" else
                                   "L" + "+".join(hexn(x) for x in a.get("mincs") or []) + ("!" if a.get("nonasync") else ""))
                    j += 1
                forced = evs[j] if j < len(evs) and evs[j]["t"] == "check" and evs[j].get("force") and evs[j]["ts"] == t else None
                nxt = next((x for x in evs[j:] if x["t"] in ("resolve", "resolveerr")), None)
                sent = None
                if nxt:
                    for ti in nxt.get("infos") or []:
                        if ti[0] == t:
                            sent = ti[1]
                if sent is not None:
                    n_groups += 1
                    aq = "%sa%d" % (qid, i)

                    def cb_ak(f, sent=sent, answers=answers, t=t, forced=forced):
                        if f[0] == "fallback":
                            cx.stats["gc-feature:nonasync-fallback"] += 1
                            exp = forced.get("commit", 0) if forced else None      # force-sync CheckTxnStatus decides
                        else:
                            exp = int(f[1], 16) if f[0] == "ok" else None
                            if forced:
                                exp = None                                          # a forced check without the model's fallback
                        if exp != sent:
                            cx.mismatch(res, "checkAllSecondaries decision vs RangeTask.check_all_secondaries (answers in delivery order)",
                                        {"txn": t, "answers": answers, "commit_ts_sent": sent}, f)
                    cx.ask(aq, "\t".join(["addkeys", aq, hexn(mc0), ";".join(answers) or "L"]), cb_ak)
                i = j
            else:
                i += 1
        if n_groups:
            cx.stats["gc-feature:async-decisions-validated"] += n_groups
    cx.ask(qid + "w", "\t".join(["wf", qid + "w", hexn(sp), store]), lambda f: cx.stats.update({"gc:wf-hypotheses-hold" if f[0] == "1" else "gc:wf-hypotheses-fail": 1}))
    # model: iteration trace (sequential runs only)
    ambiguous = False
    for r in pre:
        l = r["lock"]
        if l and l.get("async") and l.get("secs"):
            ks = [pre_by_key.get(k) for k in l["secs"]]
            locked = [x["lock"] for x in ks if x and x["lock"] and x["lock"]["start"] == l["start"] and x["lock"]["kind"] != "pess"]
            if len(locked) < len(ks) and any(not x.get("async") for x in locked):
                ambiguous = True    # missing + plain lock: whether the fallback fires depends on the region grouping; the outcome is a rollback either way
    if ambiguous:
        cx.stats["gc:trace-skipped-fallback-ambiguous"] += 1
    store_contract = bool(cx.mock.get("scan_lock_honours_start_key")) and bool(cx.mock.get("scan_lock_honours_limit"))
    raw_scan = (not uni) and (not store_contract) and (bool(c.get("raw")) or not cx.mock.get("n1_active", True))
    if raw_scan:
        cx.stats["gc:raw-scan-answers(no trace comparison)"] += 1
    if c.get("mode", "custom") == "custom" and c.get("conc", 1) == 1 and not ambiguous and not raw_scan:
        calls = gc_oracles_from_events(evs)
        if any(o.endswith(":N") and tr[i][2] for _, _, os_, tr in calls for i, o in enumerate(os_)):
            cx.stats["gc-feature:rescan-after-region-change"] += 1
        if any(o.count(":") == 3 and o.split(":")[:2] != o.split(":")[2:] for _, _, os_, _ in calls for o in os_):
            cx.stats["gc-feature:resolved-in-relocated-region"] += 1
        # progress: iterations <= region ends seen + old locks + rescans + 1 (the fuel bound, measured not proven)
        n_old_all = sum(1 for r in pre if r["lock"] and r["lock"]["start"] <= sp)
        for cs, ce, os_, tr in calls:
            ends = len(set(o.split(":")[1] for o in os_))
            resc = sum(1 for i, o in enumerate(os_) if o.endswith(":N") and tr[i][2])
            cx.oracle(len(os_) <= ends + n_old_all + resc + 1, res, "C14_no_old_lock(progress bound)", "%d iterations for %d region ends, %d old locks, %d rescans" % (len(os_), ends, n_old_all, resc))
        if calls:
            subs = " ".join("%s~%s~%s" % (cs, ce, ";".join(os_)) for cs, ce, os_, _ in calls)
            impl_tr = " # ".join(";".join("%s:%s:%s" % (a, b, ",".join(ks) or ".") for a, b, ks in tr) or "." for _, _, _, tr in calls)

            def cb_gc(f):
                if f[0] != "ok":
                    cx.mismatch(res, "gc_resolve_range on the observed regions returned " + " ".join(f), impl_tr, f)
                    return
                if f[1] != impl_tr:
                    cx.mismatch(res, "ScanLock trace vs RangeTask.gc_resolve_range", impl_tr, f[1])
                    return
                mfin = canon_store(f[2])
                pfin = [canon_rec_str(m_rec(r)) for r in post]
                if mfin != pfin:
                    cx.mismatch(res, "store after the pass vs RangeTask.gc_resolve_range", [x for x, y in zip(pfin, mfin) if x != y][:4], [y for x, y in zip(pfin, mfin) if x != y][:4])
                cx.stats["gc:trace-validated"] += 1
            cx.ask(qid + "t", "\t".join(["gc", qid + "t", "400", hexn(sp), str(limit), store, subs]), cb_gc)
            # (d) the regions are PREDICTED by the model from the layouts in force (ModelLayout) and compared with the observed ones
            lcalls = layouts_from_events(evs, res.get("layout0"))
            if len(lcalls) == len(calls) and all(len(lc["iters"]) == len(os_) for lc, (_, _, os_, _) in zip(lcalls, calls)):
                lsubs = " ".join("%s~%s~%s" % (lc["s"], lc["e"], ";".join("/".join(it) for it in lc["iters"])) for lc in lcalls)
                obs = " # ".join(";".join(os_) for _, _, os_, _ in calls)

                def cb_gcl(f):
                    if f[0] != "ok":
                        cx.mismatch(res, "gc_resolve_range_l on the observed layouts returned " + " ".join(f)[:300], obs, f)
                        return
                    if f[3] != obs:
                        cx.mismatch(res, "regions serving ScanLock / ResolveLock vs the regions RangeTask.ModelLayout predicts from the layouts", obs, f[3])
                        return
                    if f[1] != impl_tr:
                        cx.mismatch(res, "ScanLock trace vs RangeTask.gc_resolve_range_l", impl_tr, f[1])
                        return
                    cx.stats["gc:regions-predicted-from-layouts"] += 1
                cx.ask(qid + "l", "\t".join(["gcl", qid + "l", "400", hexn(sp), str(limit), store, lsubs]), cb_gcl)


def do_del(cx, res):
    c = res["case"]; qid = ("ud%d" if c.get("backend") == "unistore" else "d%d") % c["id"]
    s, e = c["s"], c["e"]
    cx.stats[("uni:" if c.get("backend") == "unistore" else "del:") + c.get("class", "")] += 1
    cx.oracle(res["err"] == "", res, "C14_delete_range_exact(task succeeds)", "DeleteRangeTask failed: " + res["err"])
    if res["err"] != "":
        return
    bad = []
    ndel = 0
    for r0, r1 in zip(res["pre"], res["post"]):
        gone = r1["lock"] is None and not r1["writes"]
        if in_range(r0["key"], s, e) and not empty_range(s, e) and not c.get("notify"):
            ndel += 1
            if not gone:
                bad.append({"key": r0["key"], "post": r1, "why": "key in range survives"})
        elif r0 != r1:
            bad.append({"key": r0["key"], "pre": r0, "post": r1, "why": "key outside the range (or notify-only) changed"})
    cx.oracle(not bad, res, "C14_delete_range_exact", json.dumps(bad[:3]))
    pieces = sorted([(ev.get("s", "-"), ev.get("e", "-")) for ev in res.get("events") or [] if ev["t"] == "delrange"], key=lambda x: kb(x[0]))
    evs = [ev for ev in res.get("events") or [] if ev["t"] == "delrange"]
    if empty_range(s, e):
        cx.oracle(pieces == [], res, "C14_delete_range_exact(empty range sends nothing)", str(pieces))
    else:
        ok = len(pieces) > 0 and pieces[0][0] == s and pieces[-1][1] == e
        for i, (a, b) in enumerate(pieces):
            if i < len(pieces) - 1 and (b == "-" or pieces[i + 1][0] != b or not kb(a) < kb(b)):
                ok = False
        cx.oracle(ok, res, "C14_delete_range_exact(requests tile the range)", "%s vs [%s,%s)" % (pieces, s, e))
        clip = all(in_range(ev.get("s", "-"), ev["rs"], ev["re"]) and (ev["re"] == "-" or (ev.get("e", "-") != "-" and kb(ev.get("e", "-")) <= kb(ev["re"]))) for ev in evs)
        cx.oracle(clip, res, "C14_delete_range_exact(each request clipped to its region)", json.dumps(evs[:4]))
        cx.oracle(all(bool(ev.get("notify")) == bool(c.get("notify")) for ev in evs), res, "notify flag", json.dumps(evs[:3]))
        cx.oracle(res.get("completed_regions", 0) == len(pieces), res, "completed regions = requests served", "%s vs %d" % (res.get("completed_regions"), len(pieces)))
    if ndel > 0 or len(pieces) >= 2:
        cx.sigs.add(sig(c))
    cx.samples.setdefault("del", {"case": {k: v for k, v in c.items() if k != "script"}, "pieces": pieces, "deleted_keys": ndel})
    line = "\t".join(["del", qid, "64", "128", "1" if c.get("notify") else "0", s, e, ",".join(res.get("layout0") or []) or ".", m_store(res["pre"])])

    def cb(f):
        if f[0] != "ok":
            cx.mismatch(res, "delete_range_task model returned " + f[0], None, f); return
        mkeys = [r[0] for r in canon_store(f[1])]
        ikeys = [r1["key"] for r1 in res["post"] if r1["lock"] is not None or r1["writes"]]
        # the model keeps empty records of keys that never held anything
        mkeys = [k for k in mkeys if any(r["key"] == k and (r["lock"] or r["writes"]) for r in res["pre"])]
        if mkeys != ikeys:
            cx.mismatch(res, "keys after DeleteRangeTask vs RangeTask.delete_range_task", ikeys, mkeys)
        if not c.get("inj") and not empty_range(s, e):
            mp = [] if f[2] == "." else [tuple(x.split(":")) for x in f[2].split(",")]
            if mp != pieces:
                cx.mismatch(res, "DeleteRange requests vs RangeTask.delete_range_task pieces", pieces, mp)
    cx.ask(qid, line, cb)


def do_vis(cx, res):
    c = res["case"]
    cx.stats["vis"] += 1
    cached, stale = c.get("cached", 0), bool(c.get("stale"))
    commits = {o["key"]: (o["commit"], None) for o in c["script"] if o["op"] == "commit"}
    vals = {o["key"]: o["val"] for o in c["script"] if o["op"] == "prewrite"}
    for i, rd in enumerate(res.get("vis") or []):
        qid = "v%d_%d" % (c["id"], i)
        ts = rd["ts"]
        # oracle: the theorem's conclusion, directly
        if not stale:
            if ts < cached:
                cx.oracle(rd["res"] == "gc", res, "C14_visibility_schedule(read below the cached safe point is refused)", json.dumps(rd))
            else:
                cx.oracle(rd["res"] not in ("gc", "pdtimeout") and not rd["res"].startswith("err:"), res, "C14_visibility_schedule(read at/above the cached safe point is served)", json.dumps(rd))
                if rd["key"].startswith("get:"):
                    k = rd["key"][4:]
                    exp = "V" + vals[k] if commits[k][0] <= ts else "N"
                    cx.oracle(rd["res"] == exp, res, "C14_visibility_schedule(served read returns the data)", "%s expected %s" % (json.dumps(rd), exp))
        cx.sigs.add(("vis", cached, stale, ts < cached, ts == cached, rd["key"].split(":")[0]))

        def cb(f, rd=rd):
            exp = f[0]
            got = rd["res"] if rd["res"] in ("gc", "pdtimeout") else ("ok" if not rd["res"].startswith("err:") else rd["res"])
            if exp != got:
                cx.mismatch(res, "CheckVisibility / snapshot read vs RangeTask.check_visibility", rd, exp)
        cx.ask(qid, "\t".join(["vis", qid, "1" if stale else "0", hexn(cached), hexn(ts)]), cb)
    cx.samples.setdefault("vis", {"cached": cached, "stale": stale, "reads": (res.get("vis") or [])[:6]})


def do_vist(cx, res):
    """safe point learned at a chosen instant of a read: the code must check AFTER the response (C14_visibility_schedule)"""
    c = res["case"]; qid = "t%d" % c["id"]
    path, ts, cached = c["path"], c["ts"], c.get("cached", 0)
    cx.stats["vist:" + path] += 1
    evs = res.get("events") or []
    mev, cur, refused_at, served, pairs_served = [], cached, None, 0, 0
    per_batch = path in ("scan", "rscan")

    def check():
        nonlocal refused_at, served
        mev.append("C")
        if refused_at is None:
            if ts < cur:
                refused_at = len(mev)
            else:
                served += 1
    for ev in evs:
        if ev["t"] == "update" and ev.get("s") != "after_call":
            cur = ev["sp"]; mev.append("U" + hexn(cur))
        elif ev["t"] == "send":
            mev.append("S")
        elif ev["t"] == "response" and not ev.get("err") and per_batch:
            was = refused_at
            check()
            if was is None and refused_at is None:
                pairs_served += ev.get("pairs", 0)
    if not per_batch:
        check()
    for ev in evs:
        if ev["t"] == "update" and ev.get("s") == "after_call":
            cur = ev["sp"]; mev.append("U" + hexn(cur))
    got = res["vis"][0]["res"]
    exp = "gc" if refused_at is not None else "ok"
    inst = sorted(set(ev.get("s") for ev in evs if ev["t"] == "update"))
    cx.oracle(got == exp, res, "C14_visibility_schedule(refused exactly when the cached safe point exceeds ts at response time)",
              "%s read at ts %d: got %s, expected %s; schedule %s" % (path, ts, got, exp, ",".join(mev)))
    entries = res.get("locks_after") or []
    vals = {o["key"]: o["val"] for o in c["script"] if o["op"] == "prewrite"}
    allk = sorted(vals, key=kb)
    if per_batch:
        want = [k + "=" + vals[k] for k in (allk if path == "scan" else allk[::-1])]
        if exp == "ok":
            cx.oracle(entries == want, res, "C14_visibility_schedule(served read returns the data)", "%s vs %s" % (entries, want))
        else:
            cx.oracle(entries == want[:pairs_served] or got != "gc", res, "C14_visibility_schedule(batches before the refused one are served, nothing after)",
                      "%d entries returned, %d pairs in the batches served" % (len(entries), pairs_served))
    elif exp == "ok" and got == "ok":
        want = sorted(k + "=" + vals[k] for k in c["keys"])
        cx.oracle(sorted(entries) == want, res, "C14_visibility_schedule(served read returns the data)", "%s vs %s" % (entries, want))
    # re-reads of a refused key on the same snapshot object must not be served from the snapshot cache (seed C14-8; the cache model is C05's)
    cur_inner = cached
    for ev in evs:
        if ev["t"] == "update" and ev.get("s") != "after_call":
            cur_inner = ev["sp"]
    if got == "gc" and ts < cur_inner:
        bad_re = [rd for rd in res.get("late") or [] if rd["res"] != "gc"]
        cx.oracle(not bad_re, res, "C14_visibility_schedule(a refused read leaves nothing in the snapshot cache: re-reads stay refused)", json.dumps(bad_re))
        cx.stats["vist-reread-after-refused"] += len(res.get("late") or [])
    later = res["vis"][1]["res"] if len(res["vis"]) > 1 else None
    cx.oracle((later == "gc") == (ts < cur), res, "C14_visibility_schedule(a later read sees the safe point learned after the call)", "later get: %s, cached %d, ts %d" % (later, cur, ts))
    cx.sigs.add(("vist", path, tuple(inst), exp, served if per_batch else 0, c.get("batch_size") if per_batch else 0))
    cx.samples.setdefault("vist-" + path, {"case": {k: v for k, v in c.items() if k != "script"}, "schedule": mev, "verdict": got, "entries": len(entries)})
    for i in inst:
        cx.stats["vist-instant:%s:%s" % (i, exp)] += 1

    def cb(f):
        if f[0] != got or (per_batch and got == "gc" and int(f[1]) != served):
            cx.mismatch(res, "snapshot %s under a safe-point schedule vs RangeTask.run_read" % path, {"verdict": got, "batches_served": served, "schedule": mev}, f)
    cx.ask(qid, "\t".join(["visrun", qid, hexn(cached), hexn(ts), ",".join(mev)]), cb)


def main(tier, replay):
    t0 = time.time()
    v = Verdict(PID)
    cov = {"checker_cmd": "coq/mk.sh theories/RangeTask/Props.vo (coqc 8.16.1, full .vo build) + Print Assumptions per theorem",
           "trusted_base": vlib.TRUSTED_BASE + [
               "modelled, not verified: mocktikv as the storage side (with the harness-side normalisations listed under `normalisations`); rollback markers, TTLs, min_commit_ts, async commit, shared locks and txn-file locks are outside the abstract store",
               "worker concurrency is covered by the theorems through arbitrary legitimate interference (env actions) around every scan/resolve, and by runs with 1-8 workers; goroutine-level scheduling of RunOnRange itself is exercised, not modelled"]}
    gate = vlib.coq_gate(PID, AREAS, PROPS)
    cov.update(obligations=gate["obligations"], discharged=gate["discharged"], theorems=gate["theorems"],
               axioms={k: a for k, a in gate["axioms"].items() if a})
    env = vlib.goenv(); env["VERIF_SEED"] = str(vlib.SEED); env["VERIF_TIER"] = tier
    okm, modelrun = vlib.build_model("RangeTask")
    okg, exe = vlib.go_build("gc", roots=("ov_gc",))
    oku, exeu = vlib.go_build("gcuni", pkg="./zz_verif_gc", module_dir=os.path.join(vlib.REPO, "integration_tests"), roots=("ov_gc",), timeout=1500)
    cx = Ctx()
    mock = {}
    results = []
    if not oku:
        v.violation({"kind": "harness-build", "correspondence": "gcuni (unistore) driver build against the current tree", "error": exeu}, has_input=False)
    if okg and okm:
        if replay:
            rc_obj = json.load(open(replay))
            case = rc_obj.get("case")
            if not case:
                print("replay file holds no case (no-failing-input-found replay)"); case = None
            tf = tempfile.NamedTemporaryFile("w", suffix=".jsonl", delete=False)
            if case:
                tf.write(json.dumps(case) + "\n")
            tf.close()
            use = exeu if (case and case.get("backend") == "unistore" and oku) else exe
            rc, out = vlib.sh([use, "replay", tf.name], env=env, timeout=600)
        else:
            rc, out = vlib.sh([exe], env=env, timeout=1500)
            if rc == 0 and oku:
                rc, out2 = vlib.sh([exeu], env=env, timeout=1500)
                out = out + "\n" + out2
        if rc != 0:
            v.violation({"kind": "harness", "correspondence": "gc driver run", "error": out[-1500:]}, has_input=False)
        else:
            for line in out.splitlines():
                if line.startswith("MOCK\t"):
                    mock = json.loads(line[5:]); cx.mock = mock
                elif line.startswith("RES\t"):
                    results.append(json.loads(line[4:]))
            setup_errs = [r for r in results if r.get("setup_err")]
            for r in results:
                if r.get("setup_err"):
                    continue
                {"gc": do_gc, "part": do_part, "del": do_del, "vis": do_vis, "vist": do_vist}[r["case"]["kind"]](cx, r)
            if len(setup_errs) > len(results) // 20:
                v.violation({"kind": "harness", "correspondence": "population scripts rejected by the mock", "error": [r["setup_err"] for r in setup_errs[:3]]}, has_input=False)
            cx.stats["setup-errors"] = len(setup_errs)
            rc, mout = vlib.sh([modelrun], inp="\n".join(cx.queries) + "\n", timeout=1500)
            if rc != 0:
                v.violation({"kind": "harness", "correspondence": "modelrun", "error": mout[-800:]}, has_input=False)
            else:
                for line in mout.splitlines():
                    f = line.split("\t")
                    cb = cx.after.pop(f[0], None)
                    if cb:
                        if len(f) > 1 and f[1].startswith("model-exception"):
                            cx.mismatches += 1
                            v.violation({"kind": "harness", "correspondence": "modelrun query " + f[0], "error": f[1]}, has_input=False)
                        else:
                            cb(f[1:])
                if cx.after:
                    v.violation({"kind": "harness", "correspondence": "modelrun", "error": "unanswered queries: %s" % list(cx.after)[:5]}, has_input=False)
    else:
        v.violation({"kind": "harness-build", "correspondence": "gc driver / RangeTask model build against the current tree",
                     "error": exe if not okg else modelrun}, has_input=False)
    if mock and mock.get("raw_mock_gc_locks_left", 0) > 0 and not mock.get("n2_active"):
        cx.viol.insert(0, ({"kind": "property-oracle", "oracle": "C14_no_old_lock(GC on the un-normalised mock store)",
                            "case": {"kind": "probe", "script": mock.get("raw_probe_script")}, "impl": mock,
                            "violated": "GCResolveLockPhase(safe point 100) left %d locks of the committed transaction 5: the storage side ignores ResolveLock{TxnInfos}" % mock["raw_mock_gc_locks_left"],
                            "what": "property oracle failed on the implementation (mock store + client)"}, True))
    if mock and not mock.get("n1_active") and not (mock.get("scan_lock_honours_start_key") and mock.get("scan_lock_honours_limit")):
        cx.viol.insert(0, ({"kind": "property-oracle", "oracle": "ScanLock contract probe (start_key / end_key / limit)",
                            "case": {"kind": "probe", "script": "locks on s (and x1, x2); ScanLock{start_key: t, limit: 1} must return nothing below t; ScanLock{limit: 1} must return one lock"},
                            "impl": mock, "violated": "the store ignores ScanLock's window or limit: the client's limit / continue-from-the-last-lock path is not exercised and the per-iteration trace cannot be compared",
                            "what": "store contract probe failed (no normalisation active)"}, True))
    if mock and not mock.get("n3_active") and mock.get("delete_range_notify_only_honoured") is False:
        cx.viol.insert(0, ({"kind": "property-oracle", "oracle": "C14_delete_range_exact(notify-only deletes nothing) probe",
                            "case": {"kind": "probe", "script": "committed put on p; DeleteRange{[p,pz), notify_only}; the data must still be there"},
                            "impl": mock, "violated": "notify-only DeleteRange removed the data", "what": "store contract probe failed (no normalisation active)"}, True))
    oracle_fail = [x for x in cx.viol if x[1]]
    seen = set()
    for obj, has_input in (oracle_fail or cx.viol):
        key = (obj.get("oracle") or obj.get("correspondence"))
        if key in seen:
            continue
        seen.add(key)
        v.violation(obj, has_input=has_input)
    if not gate["ok"]:
        v.violation({"kind": "proof", "theorem_or_file": gate["problems"], "what": "Coq obligations no longer check"}, has_input=False)
    elif tier == "thorough" and not replay:
        okc, outc = vlib.coqchk(["Verif.RangeTask.Props"])
        cov["coqchk"] = "ok" if okc else outc[-400:]
        if not okc:
            v.violation({"kind": "proof", "theorem_or_file": "coqchk Verif.RangeTask.Props", "what": outc[-600:]}, has_input=False)
    if not replay and okg and okm and results:
        if cx.stats.get("gc:wf-hypotheses-fail"):
            v.violation({"kind": "harness", "correspondence": "generated lock populations violate the theorems' well-formedness hypotheses", "error": cx.stats["gc:wf-hypotheses-fail"]}, has_input=False)
    cov.update(evaluations=len(results) + cx.oracle_evals, distinct_nontrivial=len(cx.sigs),
               rule="seeded generators (see docs/C14.md): unistore tier (driver gcuni): async-commit leftovers (primary locked; secondaries in 1-5 regions all locked / never prewritten / rolled back / already committed; primary gone), 2PC and pessimistic leftovers, forced order of CheckSecondaryLocks answers, splits during the scan, 2-7 workers, PrimaryMismatch population; mocktikv tier: gc populations over keys of 1-3 bytes from {a..h} with 0-5 initial splits (boundaries on data keys included), 2-14 transactions in states committed/rolled-back/pending/pending-without-primary/pessimistic(pending, mixed, committed) + finished history, safe point around the start timestamps, scan limit 1-4 (1024 for the GCResolveLockPhase/GC modes), 1-8 workers, 1-3 regions per task, sub-ranges, splits injected before the i-th ScanLock/ResolveLock; partition cases with PD-level splits and injected handler failures; delete-range cases incl. notify-only and splits before the i-th DeleteRange; visibility cases below/at/above the cached safe point incl. a stale cache; vist: safe-point updates injected before the send / after the inner call returned / after the API call at the i-th Get/BatchGet/Scan RPC (scan batch size 1-3, forward and reverse). distinct_nontrivial = distinct case specs that are non-trivial: gc with >=1 old lock in the range, partition with >=2 sub-ranges, delete with >=1 deleted key or >=2 requests, visibility (cached, stale, below/at/above, api) classes",
               samples=list(cx.samples.values()), traces_validated_against_impl=cx.stats.get("gc:trace-validated", 0),
               input_distribution=dict(cx.stats), model_queries=len(cx.queries), model_mismatches=cx.mismatches,
               oracle_evaluations=cx.oracle_evals, oracle_failures=len(oracle_fail),
               normalisations=NORMALISATIONS, mock_probe=mock)
    rc = v.finish()
    vlib.write_evidence(PID, cov, t0, violations=len(v.violations), level="proof",
                        assumptions=["keys are non-empty byte strings compared with bytes.Compare = lex_cmp",
                                     "the storage side honours TiKV's ScanLock / ResolveLock / CheckTxnStatus(current_ts = max) contracts (mocktikv after normalisations N1-N3)",
                                     "lock populations are well-formed: one primary per start ts among prewrite locks, no key holds a lock and a commit record of the same start ts (checked on every generated case with the extracted wf_storeb)"])
    return rc
