"""C06 — no lock of a finished transaction is left behind on failure-free paths.
Proof: coq/theories/Locks/Props.v (C06_*: bookkeeping invariant of the lock-keys / aggressive-locking / commit / rollback
state machine). Correspondence/search: random well-formed programs of set/delete/insert/lock-keys(options)/aggressive
locking/commit/rollback with a contending transaction (driver `txn`, program mode, unistore, no faults, no clock advance);
after the clients' background work drained, MvccGetByKey of every key must show no lock of a finished transaction."""
import os, time, json, random
import vlib, txnlab
from vlib import Verdict

PID = "C06"
PROPS = [("theories/Locks/Props.v", "Locks.Props")]
AREAS = ["theories/Locks"]
BACKEND = os.environ.get("C06_BACKEND", "mock")
KEYS = ["k1", "k2", "k3", "k4", "k5"]


def gen_program(rng, idx):
    pess1 = rng.random() < 0.8
    mode1 = rng.choice(["2pc", "2pc", "async", "1pc"])
    splits = rng.sample(KEYS[1:], rng.choice([0, 1, 2]))
    preload = [{"k": k, "v": "old-" + k} for k in KEYS if rng.random() < 0.6]
    txns = {"t1": {"mode": mode1, "pessimistic": pess1, "causal": False, "ops": []},
            "t2": {"mode": "2pc", "pessimistic": True, "causal": False, "ops": []}}
    prog = [{"t": "t2", "op": "begin"}, {"t": "t1", "op": "begin"}]
    agg = False
    t2_done = False
    n = rng.randrange(4, 13)
    for _ in range(n):
        x = rng.random()
        k = rng.choice(KEYS)
        if x < 0.30 and pess1:
            ks = rng.sample(KEYS, 1 if agg or rng.random() < 0.5 else rng.choice([2, 3]))
            st = {"t": "t1", "op": "lock", "ks": ks, "wait": rng.choice([-1, -1, 30])}
            y = rng.random()
            if y < 0.3:
                st["rv"] = True
                if len(ks) == 1 and rng.random() < 0.5:
                    st["loie"] = True
            elif y < 0.5:
                st["ce"] = True
            if rng.random() < 0.2:
                st["v"] = "fu_saved"
            prog.append(st)
        elif x < 0.42 and not agg:
            prog.append({"t": "t1", "op": rng.choice(["set", "del"]), "k": k, "v": "n-" + k})
        elif x < 0.50 and not agg:
            # (buffer writes are kept out of aggressive-locking attempts: a caller that cancels an attempt also
            # discards the statement's buffered writes, which this driver cannot do)
            prog.append({"t": "t1", "op": "insert", "k": k, "v": "i-" + k})
            if pess1:
                prog.append({"t": "t1", "op": "lock", "ks": [k], "wait": -1})
        elif x < 0.62 and not t2_done:
            prog.append({"t": "t2", "op": "lock", "ks": [k], "wait": -1})
        elif x < 0.70 and not t2_done:
            prog.append({"t": "t2", "op": "set", "k": k, "v": "c-" + k})
        elif x < 0.76 and not t2_done:
            prog.append({"t": "t2", "op": rng.choice(["commit", "rollback"])})
            t2_done = True
        elif x < 0.84 and pess1:
            if not agg:
                prog.append({"t": "t1", "op": "agg_start"}); agg = True
            else:
                op = rng.choice(["agg_retry", "agg_done", "agg_cancel"])
                prog.append({"t": "t1", "op": op})
                if op != "agg_retry":
                    agg = False
        elif x < 0.90:
            prog.append({"t": "t1", "op": "split", "k": k})
        elif x < 0.95 and pess1:
            prog.append({"t": "t1", "op": "fu_take"})
        else:
            prog.append({"t": "t1", "op": "get", "k": k})
    if agg:
        prog.append({"t": "t1", "op": rng.choice(["agg_done", "agg_cancel"])})
    prog.append({"t": "t1", "op": rng.choice(["commit", "commit", "rollback"])})
    if not t2_done:
        prog.append({"t": "t2", "op": rng.choice(["commit", "rollback"])})
    return {"id": f"g{idx}", "backend": BACKEND, "splits": splits, "preload": preload, "batch_size": rng.choice([0, 0, 24]),
            "txn": {"mode": "2pc", "ops": []}, "txns": txns, "program": prog, "keys": KEYS, "black_from": -1}


def directed():
    """hand-written classes: partial LockKeys failure, key exists, write conflict, aggressive retry dropping a lock"""
    out = []
    T = lambda m="2pc": {"t1": {"mode": m, "pessimistic": True, "ops": []}, "t2": {"mode": "2pc", "pessimistic": True, "ops": []}}
    def sc(i, prog, pre=("k1", "k2", "k3"), splits=(), mode="2pc"):
        return {"id": f"d{i}", "backend": BACKEND, "splits": list(splits), "preload": [{"k": k, "v": "old-" + k} for k in pre], "batch_size": 0,
                "txn": {"mode": "2pc", "ops": []}, "txns": T(mode), "program": prog, "keys": KEYS, "black_from": -1}
    B = [{"t": "t2", "op": "begin"}, {"t": "t1", "op": "begin"}]
    out.append(sc(0, B + [{"t": "t2", "op": "lock", "ks": ["k3"], "wait": -1}, {"t": "t1", "op": "lock", "ks": ["k1", "k2", "k3"], "wait": -1}, {"t": "t1", "op": "rollback"}, {"t": "t2", "op": "rollback"}], splits=("k2", "k3")))
    out.append(sc(1, B + [{"t": "t1", "op": "lock", "ks": ["k1"], "wait": -1}, {"t": "t2", "op": "lock", "ks": ["k3"], "wait": -1}, {"t": "t1", "op": "lock", "ks": ["k2", "k3"], "wait": -1}, {"t": "t1", "op": "commit"}, {"t": "t2", "op": "rollback"}], splits=("k3",)))
    out.append(sc(2, B + [{"t": "t1", "op": "insert", "k": "k1", "v": "x"}, {"t": "t1", "op": "lock", "ks": ["k1"], "wait": -1}, {"t": "t1", "op": "set", "k": "k4", "v": "y"}, {"t": "t1", "op": "commit"}, {"t": "t2", "op": "rollback"}]))
    out.append(sc(3, B + [{"t": "t1", "op": "lock", "ks": ["k2"], "wait": -1}, {"t": "t1", "op": "fu_take"}, {"t": "t2", "op": "set", "k": "k1", "v": "c"}, {"t": "t2", "op": "commit"}, {"t": "t1", "op": "lock", "ks": ["k3", "k1"], "wait": -1, "v": "fu_saved"}, {"t": "t1", "op": "rollback"}], splits=("k3",)))
    out.append(sc(4, B + [{"t": "t1", "op": "agg_start"}, {"t": "t1", "op": "lock", "ks": ["k1"], "wait": -1}, {"t": "t1", "op": "lock", "ks": ["k2"], "wait": -1}, {"t": "t1", "op": "agg_retry"}, {"t": "t1", "op": "lock", "ks": ["k1"], "wait": -1}, {"t": "t1", "op": "agg_done"}, {"t": "t1", "op": "commit"}, {"t": "t2", "op": "rollback"}], splits=("k2",)))
    out.append(sc(5, B + [{"t": "t1", "op": "agg_start"}, {"t": "t1", "op": "lock", "ks": ["k1"], "wait": -1}, {"t": "t1", "op": "lock", "ks": ["k3"], "wait": -1}, {"t": "t1", "op": "agg_cancel"}, {"t": "t1", "op": "set", "k": "k5", "v": "z"}, {"t": "t1", "op": "commit"}, {"t": "t2", "op": "rollback"}]))
    out.append(sc(6, B + [{"t": "t1", "op": "lock", "ks": ["k4"], "wait": -1, "rv": True, "loie": True}, {"t": "t1", "op": "lock", "ks": ["k1"], "wait": -1, "rv": True, "loie": True}, {"t": "t1", "op": "commit"}, {"t": "t2", "op": "rollback"}]))
    out.append(sc(7, B + [{"t": "t1", "op": "set", "k": "k1", "v": "a"}, {"t": "t1", "op": "set", "k": "k3", "v": "b"}, {"t": "t2", "op": "set", "k": "k3", "v": "c"}, {"t": "t2", "op": "commit"}, {"t": "t1", "op": "commit"}], splits=("k2",), mode="2pc"))
    out[-1]["txns"]["t1"]["pessimistic"] = False
    return out


def leftovers(r):
    fin = {v["start"]: t for t, v in (r.get("txns") or {}).items()}
    bad = []
    for k, a in (r.get("audit_pre") or {}).items():
        lk = (a or {}).get("lock")
        if lk and lk.get("start") in fin:
            bad.append({"key": k, "txn": fin[lk["start"]], "lock_type": lk.get("type"), "result": r["txns"][fin[lk["start"]]]["result"]})
    return bad


def main(tier, replay):
    t0 = time.time()
    v = Verdict(PID)
    rng = random.Random(vlib.SEED)
    cov = {"checker_cmd": "coq/mk.sh theories/Locks/Props.vo + Print Assumptions", "trusted_base": vlib.TRUSTED_BASE}
    gate_ok = True
    if os.path.exists(os.path.join(vlib.COQ, PROPS[0][0])):
        g = vlib.coq_gate(PID, AREAS, PROPS)
        cov.update(obligations=g["obligations"], discharged=g["discharged"], theorems=g["theorems"], axioms={k: a for k, a in g["axioms"].items() if a})
        gate_ok = g["ok"]
        if not g["ok"]:
            v.violation({"kind": "proof", "theorem_or_file": g["problems"], "what": "Coq obligations no longer check"}, has_input=False)
    else:
        cov.update(obligations=0, discharged=0)
        v.violation({"kind": "proof", "theorem_or_file": ["coq/theories/Locks/Props.v missing"], "what": "no theorem yet"}, has_input=False)
    okd, exe = txnlab.build_driver()
    if not okd:
        v.violation({"kind": "harness-build", "correspondence": "txn driver build against the current tree", "error": exe}, has_input=False)
        rc = v.finish(); vlib.write_evidence(PID, dict(cov, evaluations=0, distinct_nontrivial=0, rule="driver did not build", samples=[]), t0, 1); return rc
    if replay:
        sc = json.load(open(replay))["scenario"]
        r = txnlab.run_scenarios(exe, [sc], jobs=1)[0]
        bad = leftovers(r)
        print("replay:", sc["id"], "leftover locks:", bad, "notes:", r.get("notes"))
        if bad:
            v.violation({"kind": "property-oracle", "scenario": sc, "violated": bad})
        return v.finish()
    n = 500 if tier == "quick" else 6000
    scs = directed() + [gen_program(rng, i) for i in range(n)]
    res = txnlab.run_scenarios(exe, scs)
    nviol, dist, distinct = 0, {}, set()
    for sc, r in zip(scs, res):
        if r.get("fatal"):
            nviol += 1
            if nviol <= 3:
                v.violation({"kind": "harness", "correspondence": "txn driver program run", "error": r["fatal"], "scenario": sc}, has_input=False)
            continue
        errs = [s.get("err") for s in r.get("steps", []) if s.get("err")]
        panics = [s for s in r.get("steps", []) if s.get("panic")]
        for e in errs:
            dist["step-error:" + str(e)[:24]] = dist.get("step-error:" + str(e)[:24], 0) + 1
        for t, tv in (r.get("txns") or {}).items():
            dk = f"{t}:{tv['result'][:16]}"
            dist[dk] = dist.get(dk, 0) + 1
        if errs:
            distinct.add(json.dumps(sc["program"]))
        bad = leftovers(r)
        undrained = [x for x in (r.get("notes") or []) if "did not drain" in x]
        if bad:
            nviol += 1
            if nviol <= 5:
                v.violation({"kind": "property-oracle", "scenario": sc, "violated": ["lock of a finished transaction left behind: %s" % bad],
                             "steps": r.get("steps"), "txns": r.get("txns")})
    cov.update(evaluations=len(scs), distinct_nontrivial=len(distinct),
               rule="8 directed + random well-formed programs (4-13 steps) of set/delete/insert/lock-keys(return-values, check-existence, lock-only-if-exists, no-wait / 30 ms wait, for-update ts taken before a concurrent commit)/aggressive start-retry-cancel-done/commit/rollback for t1 with a contending pessimistic t2, splits in between, modes {2pc, async, 1pc}; no fault, no clock advance; oracle: after the gates are quiet no key holds a lock whose start ts belongs to a finished transaction; distinct non-trivial = distinct programs in which at least one step failed",
               samples=[{"program": scs[i]["program"], "txns": res[i].get("txns")} for i in (0, 8, 9) if i < len(scs)], input_distribution=dist)
    rc = v.finish()
    vlib.write_evidence(PID, cov, t0, violations=len(v.violations), level="proof",
                        assumptions=["store = tidb unistore (environment)", "quiescence = no transactional RPC of the client in flight or issued for 40 ms"])
    return rc
