"""C06 — no lock of a finished transaction is left behind on failure-free paths.
Proof: coq/theories/Locks/Props.v (C06_*: bookkeeping invariant of the lock-keys / aggressive-locking / commit / rollback
state machine, for all well-formed event sequences and per-key store outcomes). Correspondence/search: random well-formed
programs of set/delete/insert/lock-keys(options)/aggressive locking/commit/rollback with a contending transaction (driver
`txn`, program mode, in-repo mock store, no faults, no clock advance). The extracted model (ocaml/locks) replays every
program of t1 with the store outcomes observed in the trace and its bookkeeping (flagged keys, lockedCnt, aggressive mode,
current / previous keys, keys sent to the store) is compared with TxnProbe after every call, its final lock set with the
MVCC audit. Oracle: after the clients' background work drained no key holds a lock of a finished transaction.
The replays of the fixed findings F19 / F19b (a previous-attempt key dropped by a failing / skipped re-lock) and F31 (a
filtered Delete on a locked key) stay in the directed set and in the random classes as regression cases."""
import os, time, json, random, subprocess
import vlib, txnlab
from vlib import Verdict

PID = "C06"
PROPS = [("theories/Locks/Props.v", "Locks.Props"), ("theories/Locks/PropsKill.v", "Locks.PropsKill")]
AREAS = ["theories/Locks"]
BACKEND = os.environ.get("C06_BACKEND", "mock")
KEYS = ["k1", "k2", "k3", "k4", "k5"]


def conflict_pattern(rng, prog, txns, k):
    """t1 takes a for-update ts, a fresh transaction commits a write of k, t1's next lock of k uses the older ts:
    write conflict (or locked-with-conflict for a single key in aggressive mode)"""
    name = "t%d" % (len(txns) + 1)
    if len(txns) >= 4:
        return False
    txns[name] = {"mode": "2pc", "pessimistic": False, "causal": False, "ops": []}
    prog += [{"t": "t1", "op": "fu_take"}, {"t": name, "op": "begin"}, {"t": name, "op": "set", "k": k, "v": "w-" + k}, {"t": name, "op": "commit"}]
    return True


SPLIT_CMDS = ["Commit", "Commit", "Prewrite", "PessimisticLock", "PessimisticRollback", "PessimisticRollback", "BatchRollback", "ResolveLock"]
RE_KINDS = ["EpochNotMatch", "EpochNotMatch", "RegionNotFound", "NotLeader", "StaleCommand"]


def decorate(rng, sc):
    """environment classes on top of a program: fabricated region errors on requests of t1's client (the request is not
    delivered, the client re-locates / re-batches and retries; never a loss) and a KVFilter on t1"""
    if rng.random() < 0.3:
        sc["faults"] = [{"at": a, "kind": "regionerr:" + rng.choice(RE_KINDS)} for a in sorted(rng.sample(range(0, 30), rng.choice([1, 2, 4, 6])))]
    if rng.random() < 0.12:
        sc["txns"]["t1"]["filter_keys"] = rng.sample(KEYS, rng.choice([1, 2, 3]))
    for st in sc["program"]:
        # the caller's context is cancelled right after the call returned (the release of locks by Done / Cancel / Commit is detached)
        if st.get("t") == "t1" and st["op"] in ("agg_done", "agg_cancel", "commit") and rng.random() < 0.5:
            st["cancel_after"] = True
    if rng.random() < 0.03:
        return with_lost_release(sc, rng, kind=rng.choice([None, None, "release_req", "release_resp"]), frm=rng.choice([0, 1, 2, 4]),
                                 once=[(a, rng.choice(["dropreq", "dropresp"])) for a in sorted(rng.sample(range(0, 8), rng.choice([0, 1, 2, 3])))])
    if rng.random() < 0.35:
        # topology changes inside a request's window: 1-3 split keys right before the n-th request of a command type of t1's
        # client (the request was built for the old layout and is re-grouped into several batches)
        sc["extras"] = [{"at": rng.choice([0, 0, 0, 1, 2]), "what": "split", "cmd": cmd, "ks": rng.sample(KEYS[1:], rng.choice([1, 2, 2, 3]))}
                        for cmd in rng.sample(SPLIT_CMDS, rng.choice([1, 2, 3]))]
        if rng.random() < 0.6:
            sc["splits"] = []      # one region at first: the splits land inside one batch's key range
    return sc


def gen_expiry_program(rng, idx):
    """aggressive-locking retries after a pause longer than the managed lock TTL (25 ms): keys of the previous attempt must
    be requested again although nothing else would force it; t1 alone (a contender would legitimately resolve expired locks)"""
    prog = [{"t": "t1", "op": "begin"}]
    L = lambda k, **kw: dict({"t": "t1", "op": "lock", "ks": [k], "wait": -1}, **kw)
    if rng.random() < 0.3:
        prog.append(L(rng.choice(KEYS)))
    prog.append({"t": "t1", "op": "agg_start"})
    ks = rng.sample(KEYS, rng.choice([1, 2, 3]))
    opts = lambda: rng.choice([{}, {}, {"rv": True}, {"ce": True}])
    for k in ks:
        prog.append(L(k, **opts()))
    for a in range(rng.choice([1, 2])):
        prog.append({"t": "t1", "op": "agg_retry"})
        pause = rng.random() < 0.7
        if pause:
            prog.append({"t": "t1", "op": "sleep", "wait": 45})
        for k in rng.sample(ks, rng.randrange(1, len(ks) + 1)):
            prog.append(L(k, **opts()))
            if rng.random() < 0.2:
                prog.append({"t": "t1", "op": "split", "k": rng.choice(KEYS)})
    prog.append({"t": "t1", "op": rng.choice(["agg_done", "agg_done", "agg_cancel"])})
    prog.append({"t": "t1", "op": rng.choice(["commit", "rollback"])})
    return {"id": f"x{idx}", "backend": BACKEND, "splits": rng.sample(KEYS[1:], rng.choice([0, 1])), "preload": [{"k": k, "v": "old-" + k} for k in KEYS if rng.random() < 0.6],
            "batch_size": 0, "txn": {"mode": "2pc", "ops": []}, "txns": {"t1": {"mode": rng.choice(["2pc", "async"]), "pessimistic": True, "causal": False, "ops": []}},
            "program": prog, "keys": KEYS, "black_from": -1, "managed_ttl": 25}


FP_ROLLBACK = "tikvclient/beforeAsyncPessimisticRollback"


def gen_schedule_program(rng, idx):
    """schedule classes (requests only delayed / reordered, never lost): a lock request of one region held back until the
    rollback of its key; the background rollback of a failed call paused until the call was retried; a transaction kept open
    beyond its managed TTL (keep-alive); a first lock that fails outright (no primary may stay)"""
    kind = rng.choice(["hold", "hold", "late_rollback", "late_rollback", "keepalive", "first_fails", "stale_resolve"])
    L = lambda ks, **kw: dict({"t": "t1", "op": "lock", "ks": ks, "wait": -1}, **kw)
    prog = [{"t": "t2", "op": "begin"}, {"t": "t1", "op": "begin"}]
    sc = {"id": f"s{idx}", "backend": BACKEND, "splits": [], "preload": [{"k": k, "v": "old-" + k} for k in KEYS if rng.random() < 0.6], "batch_size": 0,
          "txn": {"mode": "2pc", "ops": []}, "txns": {"t1": {"mode": rng.choice(["2pc", "2pc", "async"]), "pessimistic": True, "causal": False, "ops": []},
                                                       "t2": {"mode": "2pc", "pessimistic": True, "causal": False, "ops": []}},
          "program": prog, "keys": KEYS, "black_from": -1}
    fin = lambda: prog.extend([{"t": "t1", "op": rng.choice(["commit", "commit", "rollback"])}, {"t": "t2", "op": "rollback"}])
    if kind in ("hold", "late_rollback"):
        ks = rng.sample(KEYS, rng.choice([3, 4]))
        kp, kx, rest = ks[0], ks[1], ks[2:]                       # primary, the key t2 holds, the other keys of the call
        sc["splits"] = sorted(k for k in ks if k != "k1")          # every key of the call in its own region
        if kind == "hold" or rng.random() < 0.5:
            prog.append(L([kp]))
        prog.append({"t": "t2", "op": "lock", "ks": [kx], "wait": -1})
        if kind == "hold":
            prog.append(L([kx] + rest, wait=rng.choice([-1, -1, 30])))
            sc["extras"] = [{"what": "hold", "cmd": "PessimisticLock", "k": rng.choice(rest), "until": "PessimisticRollback", "max_ms": 250}]
            if rng.random() < 0.5:
                prog.append(L(rng.sample(KEYS, 2)))
        else:
            prog.append({"t": "t1", "op": "failpoint", "k": FP_ROLLBACK, "v": "pause"})
            prog.append(L(rest + [kx]))
            prog.append({"t": "t2", "op": "rollback"})
            prog.append(L(rng.sample(rest + [kx], rng.randrange(1, len(rest) + 2))))
            prog.append({"t": "t1", "op": "failpoint", "k": FP_ROLLBACK, "v": ""})
            prog.append({"t": "t1", "op": "audit"})
            if rng.random() < 0.5:
                prog.append({"t": "t1", "op": "set", "k": rng.choice(ks), "v": "z"})
        fin()
    elif kind == "stale_resolve":
        # half-failed first statement (primary given up, rollback delayed) -> leftover lock expires -> resolved by another
        # transaction on the same client -> the victim continues under a new primary and commits while a reader on that
        # client meets one of its prewrite locks (primary commit held back)
        ks = rng.sample(KEYS, 5)
        kp, ka2, kx, kn, ks2 = ks               # old primary, leftover, key t2 holds, new primary, secondary
        sc["splits"] = ["k2", "k3", "k4", "k5"]
        sc["preload"] = [{"k": k, "v": "old-" + k} for k in KEYS]
        sc["managed_ttl"] = 60
        sc["txns"]["t6"] = {"mode": "2pc", "pessimistic": True, "ops": [], "client": "c1"}
        sc["txns"]["t7"] = {"mode": "2pc", "pessimistic": rng.random() < 0.5, "ops": [], "client": "c1"}
        prog += [{"t": "t2", "op": "lock", "ks": [kx], "wait": -1}, {"t": "t1", "op": "failpoint", "k": FP_ROLLBACK, "v": "pause"},
                 L(sorted([kp, ka2]) + [kx]), {"t": "t2", "op": "rollback"}, {"t": "t1", "op": "sleep", "wait": 150},
                 {"t": "t6", "op": "begin"}, {"t": "t6", "op": "lock", "ks": [rng.choice([kp, ka2])], "wait": 30}, {"t": "t6", "op": "rollback"},
                 L([kn]), {"t": "t1", "op": "set", "k": kn, "v": "n1"}, {"t": "t1", "op": "set", "k": ks2, "v": "n2"},
                 {"t": "t1", "op": "commit", "async": True}, {"t": "t7", "op": "begin"},
                 {"t": "t7", "op": rng.choice(["get", "get", "lock"]), "k": ks2, "ks": [ks2], "wait": 30}, {"t": "t1", "op": "join"},
                 {"t": "t1", "op": "failpoint", "k": FP_ROLLBACK, "v": ""}, {"t": "t7", "op": "rollback"}]
        sc["extras"] = [{"what": "hold", "cmd": "Commit", "k": kn, "until": "ResolveLock", "max_ms": 250}]
    elif kind == "keepalive":
        sc["managed_ttl"] = 300
        if rng.random() < 0.7:
            prog.append(L([rng.choice(KEYS)], rv=True, loie=True))
        prog.append(L(rng.sample(KEYS, rng.choice([1, 2]))))
        if rng.random() < 0.3:
            prog += [{"t": "t1", "op": "agg_start"}, L([rng.choice(KEYS)]), {"t": "t1", "op": "agg_done"}]
        prog.append({"t": "t1", "op": "sleep", "wait": 500})
        if rng.random() < 0.5:
            prog.append(L([rng.choice(KEYS)]))
        fin()
    else:
        k = rng.choice(KEYS)
        if rng.random() < 0.5:
            sc["preload"] = [p for p in sc["preload"] if p["k"] != k] + [{"k": k, "v": "old-" + k}]
            prog.append({"t": "t1", "op": "insert", "k": k, "v": "i"})            # key exists
        else:
            st = L([k])
            if conflict_pattern(rng, prog, sc["txns"], k):
                st["v"] = "fu_saved"                                                # write conflict
            prog.append(st)
        for _ in range(rng.randrange(1, 3)):
            prog.append(L(rng.sample(KEYS, rng.choice([1, 2]))))
        prog.append({"t": "t1", "op": "set", "k": rng.choice(KEYS), "v": "x"})
        fin()
    return sc


def add_kill(rng, prog, p=0.15):
    """the session's kill flag is set at a random point of t1's program (in 15 % of the programs) and cleared again later or not:
    LockKeys / reads / prewrite may be interrupted, every release request must still go out"""
    if rng.random() >= p:
        return
    first = next(i for i, st in enumerate(prog) if st["t"] == "t1" and st["op"] == "begin") + 1
    at = rng.randrange(first, len(prog) + 1)
    prog.insert(at, {"t": "t1", "op": "kill", "v": "1"})
    if at + 1 <= len(prog) and rng.random() < 0.4:
        prog.insert(rng.randrange(at + 1, len(prog) + 1), {"t": "t1", "op": "kill", "v": "0"})


def gen_program(rng, idx):
    pess1 = rng.random() < 0.8
    mode1 = rng.choice(["2pc", "2pc", "async", "1pc"])
    splits = rng.sample(KEYS[1:], rng.choice([0, 1, 2]))
    preload = [{"k": k, "v": "old-" + k} for k in KEYS if rng.random() < 0.6]
    txns = {"t1": {"mode": mode1, "pessimistic": pess1, "causal": False, "ops": []},
            "t2": {"mode": "2pc", "pessimistic": True, "causal": False, "ops": []}}
    prog = [{"t": "t2", "op": "begin"}, {"t": "t1", "op": "begin"}]
    agg = False
    t2_done = False
    n = rng.randrange(4, 13)
    for _ in range(n):
        x = rng.random()
        k = rng.choice(KEYS)
        if x < 0.30 and pess1:
            ks = rng.sample(KEYS, 1 if agg or rng.random() < 0.5 else rng.choice([2, 3]))
            st = {"t": "t1", "op": "lock", "ks": ks, "wait": rng.choice([-1, -1, 30])}
            if rng.random() < 0.12 and conflict_pattern(rng, prog, txns, rng.choice(ks)):
                st["v"] = "fu_saved"
            y = rng.random()
            if y < 0.3:
                st["rv"] = True
                if len(ks) == 1 and rng.random() < 0.5:
                    st["loie"] = True
            elif y < 0.5:
                st["ce"] = True
            if rng.random() < 0.2:
                st["v"] = "fu_saved"
            prog.append(st)
        elif x < 0.42 and not agg:
            prog.append({"t": "t1", "op": rng.choice(["set", "del"]), "k": k, "v": "n-" + k})
        elif x < 0.50 and not agg:
            # (buffer writes are kept out of aggressive-locking attempts: a caller that cancels an attempt also
            # discards the statement's buffered writes, which this driver cannot do)
            prog.append({"t": "t1", "op": "insert", "k": k, "v": "i-" + k})
            if pess1:
                prog.append({"t": "t1", "op": "lock", "ks": [k], "wait": -1})
        elif x < 0.62 and not t2_done:
            prog.append({"t": "t2", "op": "lock", "ks": [k], "wait": -1})
        elif x < 0.70 and not t2_done:
            prog.append({"t": "t2", "op": "set", "k": k, "v": "c-" + k})
        elif x < 0.76 and not t2_done:
            prog.append({"t": "t2", "op": rng.choice(["commit", "rollback"])})
            t2_done = True
        elif x < 0.84 and pess1:
            if not agg:
                prog.append({"t": "t1", "op": "agg_start"}); agg = True
            else:
                op = rng.choice(["agg_retry", "agg_done", "agg_cancel"])
                prog.append({"t": "t1", "op": op})
                if op != "agg_retry":
                    agg = False
        elif x < 0.90:
            prog.append({"t": "t1", "op": "split", "k": k})
        elif x < 0.95 and pess1:
            prog.append({"t": "t1", "op": "fu_take"})
        elif x < 0.975 or not pess1:
            prog.append({"t": "t1", "op": "get", "k": k})
        else:
            # quiescent point: the store's locks of t1 are compared with the model's lock set after its pending tasks ran
            prog.append({"t": "t1", "op": "audit"})
    if agg:
        prog.append({"t": "t1", "op": rng.choice(["agg_done", "agg_cancel"])})
    if pess1 and rng.random() < 0.3:
        prog.append({"t": "t1", "op": "audit"})
    add_kill(rng, prog)
    prog.append({"t": "t1", "op": rng.choice(["commit", "commit", "rollback"])})
    if not t2_done:
        prog.append({"t": "t2", "op": rng.choice(["commit", "rollback"])})
    return decorate(rng, {"id": f"g{idx}", "backend": BACKEND, "splits": splits, "preload": preload, "batch_size": rng.choice([0, 0, 24, 2, 3, 5]),
            "txn": {"mode": "2pc", "ops": []}, "txns": txns, "program": prog, "keys": KEYS, "black_from": -1})


def directed():
    """hand-written classes: partial LockKeys failure, key exists, write conflict, aggressive retry dropping a lock"""
    out = []
    T = lambda m="2pc": {"t1": {"mode": m, "pessimistic": True, "ops": []}, "t2": {"mode": "2pc", "pessimistic": True, "ops": []}}
    def sc(i, prog, pre=("k1", "k2", "k3"), splits=(), mode="2pc"):
        return {"id": f"d{i}", "backend": BACKEND, "splits": list(splits), "preload": [{"k": k, "v": "old-" + k} for k in pre], "batch_size": 0,
                "txn": {"mode": "2pc", "ops": []}, "txns": T(mode), "program": prog, "keys": KEYS, "black_from": -1}
    B = [{"t": "t2", "op": "begin"}, {"t": "t1", "op": "begin"}]
    out.append(sc(0, B + [{"t": "t2", "op": "lock", "ks": ["k3"], "wait": -1}, {"t": "t1", "op": "lock", "ks": ["k1", "k2", "k3"], "wait": -1}, {"t": "t1", "op": "rollback"}, {"t": "t2", "op": "rollback"}], splits=("k2", "k3")))
    out.append(sc(1, B + [{"t": "t1", "op": "lock", "ks": ["k1"], "wait": -1}, {"t": "t2", "op": "lock", "ks": ["k3"], "wait": -1}, {"t": "t1", "op": "lock", "ks": ["k2", "k3"], "wait": -1}, {"t": "t1", "op": "commit"}, {"t": "t2", "op": "rollback"}], splits=("k3",)))
    out.append(sc(2, B + [{"t": "t1", "op": "insert", "k": "k1", "v": "x"}, {"t": "t1", "op": "lock", "ks": ["k1"], "wait": -1}, {"t": "t1", "op": "set", "k": "k4", "v": "y"}, {"t": "t1", "op": "commit"}, {"t": "t2", "op": "rollback"}]))
    out.append(sc(3, B + [{"t": "t1", "op": "lock", "ks": ["k2"], "wait": -1}, {"t": "t1", "op": "fu_take"}, {"t": "t2", "op": "set", "k": "k1", "v": "c"}, {"t": "t2", "op": "commit"}, {"t": "t1", "op": "lock", "ks": ["k3", "k1"], "wait": -1, "v": "fu_saved"}, {"t": "t1", "op": "rollback"}], splits=("k3",)))
    out.append(sc(4, B + [{"t": "t1", "op": "agg_start"}, {"t": "t1", "op": "lock", "ks": ["k1"], "wait": -1}, {"t": "t1", "op": "lock", "ks": ["k2"], "wait": -1}, {"t": "t1", "op": "agg_retry"}, {"t": "t1", "op": "lock", "ks": ["k1"], "wait": -1}, {"t": "t1", "op": "agg_done"}, {"t": "t1", "op": "commit"}, {"t": "t2", "op": "rollback"}], splits=("k2",)))
    out.append(sc(5, B + [{"t": "t1", "op": "agg_start"}, {"t": "t1", "op": "lock", "ks": ["k1"], "wait": -1}, {"t": "t1", "op": "lock", "ks": ["k3"], "wait": -1}, {"t": "t1", "op": "agg_cancel"}, {"t": "t1", "op": "set", "k": "k5", "v": "z"}, {"t": "t1", "op": "commit"}, {"t": "t2", "op": "rollback"}]))
    out.append(sc(6, B + [{"t": "t1", "op": "lock", "ks": ["k4"], "wait": -1, "rv": True, "loie": True}, {"t": "t1", "op": "lock", "ks": ["k1"], "wait": -1, "rv": True, "loie": True}, {"t": "t1", "op": "commit"}, {"t": "t2", "op": "rollback"}]))
    out.append(sc(7, B + [{"t": "t1", "op": "set", "k": "k1", "v": "a"}, {"t": "t1", "op": "set", "k": "k3", "v": "b"}, {"t": "t2", "op": "set", "k": "k3", "v": "c"}, {"t": "t2", "op": "commit"}, {"t": "t1", "op": "commit"}], splits=("k2",), mode="2pc"))
    out[-1]["txns"]["t1"]["pessimistic"] = False
    A = lambda op: {"t": "t1", "op": op}
    L = lambda ks, **kw: dict({"t": "t1", "op": "lock", "ks": ks, "wait": -1}, **kw)
    # F19 (fixed): the re-lock of a previous-attempt key fails with key-exists (the insert in between sets PresumeKeyNotExists)
    out.append(sc(8, B + [A("agg_start"), L(["k1"]), {"t": "t1", "op": "insert", "k": "k1", "v": "x"}, A("agg_retry"), L(["k1"], rv=True), A("agg_done"), A("rollback"), {"t": "t2", "op": "rollback"}]))
    # F19b (fixed): the re-lock of a previous-attempt key with lock-only-if-exists finds the key absent
    out.append(sc(9, B + [A("agg_start"), L(["k4"]), A("agg_retry"), L(["k4"], rv=True, loie=True), A("agg_done"), A("rollback"), {"t": "t2", "op": "rollback"}]))
    out.append(sc(10, B + [A("agg_start"), L(["k4"]), L(["k2"]), A("agg_retry"), L(["k4"], rv=True, loie=True), L(["k2"], rv=True), A("agg_done"), A("commit"), {"t": "t2", "op": "rollback"}]))
    # neighbours that must stay clean: same shapes with the key present / without the presume flag / cancel instead of done
    out.append(sc(11, B + [A("agg_start"), L(["k1"]), A("agg_retry"), L(["k1"], rv=True, loie=True), A("agg_done"), A("rollback"), {"t": "t2", "op": "rollback"}]))
    out.append(sc(12, B + [A("agg_start"), L(["k1"]), L(["k2"]), A("agg_retry"), L(["k1"], rv=True), A("agg_cancel"), A("rollback"), {"t": "t2", "op": "rollback"}]))
    # KVFilter: a filtered Delete on a locked key (finding), and its clean neighbours (filtered Set; Rollback; no lock)
    for j, (ops, fin) in enumerate(((["lock", "del"], "commit"), (["lock", "del", "set2"], "commit"), (["lock", "set"], "commit"),
                                    (["lock", "del", "set2"], "rollback"), (["del", "set2"], "commit"))):
        pr = list(B)
        for o in ops:
            pr.append({"lock": L(["k1"]), "del": {"t": "t1", "op": "del", "k": "k1"}, "set": {"t": "t1", "op": "set", "k": "k1", "v": "y"},
                       "set2": {"t": "t1", "op": "set", "k": "k2", "v": "x"}}[o])
        out.append(sc(20 + j, pr + [A(fin), {"t": "t2", "op": "rollback"}]))
        out[-1]["txns"]["t1"]["filter_keys"] = ["k1"]
    # region errors on the lock / rollback / clean-up requests of t1 (fabricated, never a loss), splits between attempts
    out.append(sc(30, B + [{"t": "t2", "op": "lock", "ks": ["k3"], "wait": -1}, L(["k1", "k2", "k3"]), A("rollback"), {"t": "t2", "op": "rollback"}], splits=("k2", "k3")))
    out[-1]["faults"] = [{"at": i, "kind": "regionerr:" + k} for i, k in ((0, "EpochNotMatch"), (2, "NotLeader"), (4, "RegionNotFound"), (5, "StaleCommand"), (7, "EpochNotMatch"))]
    out.append(sc(31, B + [A("agg_start"), L(["k1"]), {"t": "t1", "op": "split", "k": "k2"}, L(["k2"]), L(["k3"]), {"t": "t1", "op": "split", "k": "k3"}, A("agg_retry"), L(["k1"]), {"t": "t1", "op": "split", "k": "k1"}, A("agg_done"), A("commit"), {"t": "t2", "op": "rollback"}]))
    out[-1]["faults"] = [{"at": i, "kind": "regionerr:" + k} for i, k in ((1, "EpochNotMatch"), (3, "NotLeader"), (4, "EpochNotMatch"), (6, "StaleCommand"), (8, "RegionNotFound"))]
    # a failed optimistic commit whose clean-up (BatchRollback) meets region errors and must be retried
    out.append(sc(35, B + [{"t": "t1", "op": "set", "k": "k1", "v": "a"}, {"t": "t1", "op": "set", "k": "k3", "v": "b"}, {"t": "t1", "op": "set", "k": "k5", "v": "e"}, {"t": "t2", "op": "set", "k": "k5", "v": "c"}, {"t": "t2", "op": "commit"}, {"t": "t1", "op": "commit"}], splits=("k2", "k4")))
    out[-1]["txns"]["t1"]["pessimistic"] = False
    # (EpochNotMatch reaches the action's own region-error handling; NotLeader / StaleCommand are retried inside the sender)
    out[-1]["faults"] = [{"at": i, "kind": "regionerr:EpochNotMatch"} for i in (3, 4, 5, 6, 8)]
    # the region holding a batch is split into 3 pieces right before the request is delivered: the batch comes back with
    # EpochNotMatch, is re-grouped into several batches, ALL of which must be processed (retried commit of the primary
    # batch; pessimistic rollback; clean-up of a failed commit; prewrite; async commit; lock request)
    S4 = [{"t": "t1", "op": "set", "k": k, "v": "v-" + k} for k in ("k1", "k2", "k3", "k4")]
    def xs(cmd, ks, at=0):
        return {"at": at, "what": "split", "cmd": cmd, "ks": list(ks)}
    out.append(sc(40, B + S4 + [A("commit"), {"t": "t2", "op": "rollback"}]))
    out[-1]["txns"]["t1"]["pessimistic"] = False
    out[-1]["extras"] = [xs("Commit", ("k2", "k3"))]
    out.append(sc(41, B + [L(["k1", "k2", "k3", "k4"])] + S4 + [A("commit"), {"t": "t2", "op": "rollback"}]))
    out[-1]["extras"] = [xs("Prewrite", ("k3",)), xs("Commit", ("k2", "k4"))]
    out.append(sc(42, B + [L(["k1", "k2", "k3", "k4", "k5"]), A("rollback"), {"t": "t2", "op": "rollback"}]))
    out[-1]["extras"] = [xs("PessimisticRollback", ("k2", "k4"))]
    out.append(sc(43, B + S4 + [{"t": "t2", "op": "set", "k": "k5", "v": "c"}, {"t": "t1", "op": "set", "k": "k5", "v": "e"}, {"t": "t2", "op": "commit"}, A("commit")], splits=("k5",)))
    out[-1]["txns"]["t1"]["pessimistic"] = False
    out[-1]["extras"] = [xs("BatchRollback", ("k2", "k3")), xs("BatchRollback", ("k4",), at=1)]
    out.append(sc(44, B + S4 + [A("commit"), {"t": "t2", "op": "rollback"}], mode="async"))
    out[-1]["txns"]["t1"]["pessimistic"] = False
    out[-1]["extras"] = [xs("Commit", ("k2", "k3", "k4"))]
    out.append(sc(45, B + [{"t": "t2", "op": "lock", "ks": ["k5"], "wait": -1}, L(["k1", "k2", "k3", "k4", "k5"]), A("agg_start"), L(["k1"]), L(["k3"]), A("agg_cancel"), A("commit"), {"t": "t2", "op": "rollback"}]))
    out[-1]["extras"] = [xs("PessimisticLock", ("k2", "k4")), xs("PessimisticRollback", ("k3",)), xs("PessimisticRollback", ("k2",), at=1)]
    # schedules (no request lost, only reordered / delayed):
    # the lock request of one region is held back until the rollback of its key was answered (at most 300 ms): a LockKeys
    # call must not return (and spawn the rollback of all its keys) while requests of other regions are still in flight
    out.append(sc(50, B + [L(["k1"]), {"t": "t2", "op": "lock", "ks": ["k3"], "wait": -1}, L(["k2", "k3"]), A("rollback"), {"t": "t2", "op": "rollback"}], splits=("k2", "k3")))
    out[-1]["extras"] = [{"what": "hold", "cmd": "PessimisticLock", "k": "k2", "until": "PessimisticRollback", "max_ms": 300}]
    out.append(sc(51, B + [L(["k5"]), {"t": "t2", "op": "lock", "ks": ["k1"], "wait": -1}, L(["k1", "k2", "k4"]), L(["k3"]), A("commit"), {"t": "t2", "op": "rollback"}], splits=("k2", "k4")))
    out[-1]["extras"] = [{"what": "hold", "cmd": "PessimisticLock", "k": "k4", "until": "PessimisticRollback", "max_ms": 300}]
    # the caller cancels its context as soon as Done / Cancel / Commit returned: the release of the locks is detached
    out.append(sc(52, B + [A("agg_start"), L(["k1"]), L(["k2"]), A("agg_retry"), L(["k1"]), dict(A("agg_done"), cancel_after=True), A("rollback"), {"t": "t2", "op": "rollback"}], splits=("k2",)))
    out.append(sc(53, B + [A("agg_start"), L(["k1"]), A("agg_retry"), L(["k2"]), L(["k3"]), dict(A("agg_cancel"), cancel_after=True), dict(A("commit"), cancel_after=True), {"t": "t2", "op": "rollback"}], splits=("k3",)))
    out.append(sc(54, B + [L(["k1", "k2"]), {"t": "t1", "op": "set", "k": "k1", "v": "a"}, {"t": "t1", "op": "set", "k": "k3", "v": "b"}, A("agg_start"), L(["k4"]), A("agg_retry"), dict(A("commit"), cancel_after=True), {"t": "t2", "op": "rollback"}], splits=("k2", "k3")))
    # the background rollback of a failed call is scheduled late (product failpoint pause), after the call was retried
    # with a fresh for-update ts: it must release with the ts of the FAILED call and leave the retried call's locks alone
    FP = "tikvclient/beforeAsyncPessimisticRollback"
    out.append(sc(55, B + [{"t": "t2", "op": "lock", "ks": ["k2"], "wait": -1}, {"t": "t1", "op": "failpoint", "k": FP, "v": "pause"}, L(["k1", "k2"]), {"t": "t2", "op": "rollback"}, L(["k1", "k2"]),
                           {"t": "t1", "op": "failpoint", "k": FP, "v": ""}, A("audit"), A("commit")], splits=("k2",)))
    out.append(sc(56, B + [{"t": "t2", "op": "lock", "ks": ["k4"], "wait": -1}, L(["k5"]), {"t": "t1", "op": "failpoint", "k": FP, "v": "pause"}, L(["k1", "k3", "k4"]), {"t": "t2", "op": "rollback"}, L(["k1", "k4"]),
                           {"t": "t1", "op": "failpoint", "k": FP, "v": ""}, A("audit"), {"t": "t1", "op": "set", "k": "k1", "v": "z"}, A("commit")], splits=("k3", "k4")))
    # keep-alive: the first lock is a lock-only-if-exists miss (tentative primary dropped), the real primary comes later and
    # the transaction stays open for more than a managed TTL (300 ms)
    out.append(sc(57, B + [L(["k4"], rv=True, loie=True), L(["k1"]), {"t": "t1", "op": "sleep", "wait": 500}, L(["k2"]), A("commit"), {"t": "t2", "op": "rollback"}]))
    out[-1]["managed_ttl"] = 300
    out.append(sc(58, B + [L(["k1"], rv=True, loie=True), L(["k2"]), {"t": "t1", "op": "sleep", "wait": 500}, A("rollback"), {"t": "t2", "op": "rollback"}]))
    out[-1]["managed_ttl"] = 300
    # the first lock of the transaction is a single-key call failing with write conflict / key exists: no primary may stay
    out.append(sc(59, B + [A("fu_take"), {"t": "t2", "op": "set", "k": "k1", "v": "c"}, {"t": "t2", "op": "commit"}, L(["k1"], v="fu_saved"), L(["k2"]), {"t": "t1", "op": "set", "k": "k2", "v": "x"}, A("commit")]))
    out.append(sc(60, B + [{"t": "t1", "op": "insert", "k": "k1", "v": "i"}, L(["k3"]), {"t": "t1", "op": "set", "k": "k3", "v": "x"}, A("commit"), {"t": "t2", "op": "rollback"}]))
    # a half-failed first statement gives its primary up while the background rollback of the locks it did take is delayed;
    # the transaction continues under a new primary; after the leftover lock expired another transaction ON THE SAME CLIENT
    # resolves it (CheckTxnStatus on the old primary only says "that pessimistic lock is gone"); a reader on that client then
    # meets a prewrite lock of the still living transaction while its primary commit is held back: it must ask the real
    # primary, not conclude "rolled back" (oracle W: an acknowledged commit has all its keys committed)
    prog70 = B + [{"t": "t2", "op": "lock", "ks": ["k3"], "wait": -1}, {"t": "t1", "op": "failpoint", "k": FP, "v": "pause"}, L(["k1", "k2", "k3"]),
                  {"t": "t2", "op": "rollback"}, {"t": "t1", "op": "sleep", "wait": 150},
                  {"t": "t6", "op": "begin"}, {"t": "t6", "op": "lock", "ks": ["k2"], "wait": 30}, {"t": "t6", "op": "rollback"},
                  L(["k4"]), {"t": "t1", "op": "set", "k": "k4", "v": "n4"}, {"t": "t1", "op": "set", "k": "k5", "v": "n5"},
                  dict(A("commit"), **{"async": True}), {"t": "t7", "op": "begin"}, {"t": "t7", "op": "get", "k": "k5"}, {"t": "t1", "op": "join"},
                  {"t": "t1", "op": "failpoint", "k": FP, "v": ""}, {"t": "t7", "op": "rollback"}]
    out.append(sc(70, prog70, pre=("k1", "k2", "k3", "k4", "k5"), splits=("k2", "k3", "k4", "k5")))
    out[-1]["txns"]["t6"] = {"mode": "2pc", "pessimistic": True, "ops": [], "client": "c1"}
    out[-1]["txns"]["t7"] = {"mode": "2pc", "pessimistic": False, "ops": [], "client": "c1"}
    out[-1]["managed_ttl"] = 60
    out[-1]["extras"] = [{"what": "hold", "cmd": "Commit", "k": "k4", "until": "ResolveLock", "max_ms": 250}]
    # lost release requests (store kept reachable so that the sender retries): lost once -> retried and released;
    # response lost -> released; lost for good from the n-th release request on -> exactly those locks stay
    base80 = lambda fin: B + [{"t": "t2", "op": "lock", "ks": ["k4"], "wait": -1}, L(["k1", "k2", "k3"]), L(["k5", "k4"]), A(fin), {"t": "t2", "op": "rollback"}]
    out.append(with_lost_release(sc(80, base80("rollback"), splits=("k2", "k3", "k5")), once=((0, "dropreq"), (2, "dropresp"), (3, "dropreq"))))
    out.append(with_lost_release(sc(81, base80("rollback"), splits=("k2", "k3", "k5")), kind="release_req", frm=3))
    out.append(with_lost_release(sc(82, base80("commit"), splits=("k2", "k3", "k5")), kind="release_resp", frm=0))
    out.append(with_lost_release(sc(83, B + [A("agg_start"), L(["k1"]), L(["k2"]), L(["k3"]), A("agg_retry"), L(["k2"]), A("agg_done"), A("commit"), {"t": "t2", "op": "rollback"}], splits=("k2", "k3")), kind="release_req", frm=1))
    out.append(with_lost_release(sc(84, B + S4 + [{"t": "t2", "op": "set", "k": "k5", "v": "c"}, {"t": "t1", "op": "set", "k": "k5", "v": "e"}, {"t": "t2", "op": "commit"}, A("commit")], splits=("k2", "k3", "k5")), kind="release_req", frm=2))
    out[-1]["txns"]["t1"]["pessimistic"] = False
    # several pessimistic-lock batches inside ONE region (batch limit of 2 key bytes = one key per batch; batches != regions):
    # a later batch fails with write conflict / key exists after earlier ones locked their keys -> all keys are rolled back
    out.append(sc(61, B + [A("fu_take"), {"t": "t2", "op": "set", "k": "k3", "v": "c"}, {"t": "t2", "op": "commit"}, L(["k1", "k2", "k3"], v="fu_saved"), A("rollback")]))
    out[-1]["batch_size"] = 2
    out.append(sc(62, B + [L(["k5"]), A("fu_take"), {"t": "t2", "op": "set", "k": "k4", "v": "c"}, {"t": "t2", "op": "commit"}, L(["k1", "k2", "k3", "k4"], v="fu_saved"), {"t": "t1", "op": "set", "k": "k5", "v": "x"}, A("commit")]))
    out[-1]["batch_size"] = 3
    # deadlock: t2 holds k2 and has asked for k1 (held by t1); t1 asking for k2 closes the cycle
    out.append(sc(32, B + [L(["k1"]), {"t": "t2", "op": "lock", "ks": ["k2"], "wait": -1}, {"t": "t2", "op": "lock", "ks": ["k1"], "wait": 30}, L(["k3", "k2"], wait=30), A("commit"), {"t": "t2", "op": "rollback"}], splits=("k2", "k3")))
    # expiry of the previous attempt's locks (managed TTL 25 ms, 45 ms pause): the re-lock must be requested again
    out.append(sc(33, [{"t": "t1", "op": "begin"}, A("agg_start"), L(["k1"]), L(["k4"]), A("agg_retry"), {"t": "t1", "op": "sleep", "wait": 45}, L(["k1"]), A("agg_done"), A("rollback")]))
    out[-1]["managed_ttl"] = 25
    out.append(sc(34, [{"t": "t1", "op": "begin"}, A("agg_start"), L(["k1"]), A("agg_retry"), L(["k1"]), A("agg_retry"), {"t": "t1", "op": "sleep", "wait": 45}, L(["k1"], rv=True), A("agg_cancel"), A("commit")]))
    out[-1]["managed_ttl"] = 25
    out.append(sc(13, B + [{"t": "t2", "op": "set", "k": "k1", "v": "c"}, A("agg_start"), A("fu_take"), {"t": "t2", "op": "commit"}, L(["k1"], v="fu_saved"), L(["k2"]), A("agg_retry"), L(["k2"], ce=True), A("agg_done"), A("rollback")]))
    # the key-exists error of LockKeys' pre-loop (no request at all) is PREDICTED by the model (early_exists): an insert on a
    # key this transaction already locked fails early iff the recorded existence says "exists" (k1..k3 exist, k4/k5 do not)
    I = lambda k: {"t": "t1", "op": "insert", "k": k, "v": "i-" + k}
    R2 = {"t": "t2", "op": "rollback"}
    out.append(sc(90, B + [L(["k1"]), I("k1"), L(["k4"]), I("k4"), A("commit"), R2]))                       # plain lock: flag says exists (default) for both
    out.append(sc(91, B + [L(["k1", "k4"], ce=True), I("k4"), I("k1"), L(["k1"]), A("commit"), R2]))          # existence checked: absent key inserts fine
    out.append(sc(92, B + [A("agg_start"), L(["k1"]), I("k1"), A("agg_done"), I("k1"), A("rollback"), R2]))   # entry without values reads "not exists"; after Done the flag says exists
    out.append(sc(93, B + [A("agg_start"), L(["k1"], rv=True), L(["k4"], rv=True), I("k4"), I("k1"), A("agg_done"), I("k4"), A("commit"), R2]))
    out.append(sc(94, B + [A("agg_start"), L(["k2"], ce=True), A("agg_retry"), I("k2"), L(["k2"]), A("agg_done"), I("k2"), A("rollback"), R2]))  # previous-attempt entry consulted
    # the session's kill flag (KILL QUERY / max execution time): interruptible requests (PessimisticLock, Prewrite, reads) fail in
    # the sender without being sent; release requests (PessimisticRollback, BatchRollback, Commit) must still go out
    K = lambda v: {"t": "t1", "op": "kill", "v": v}
    out.append(sc(100, B + [L(["k1", "k2", "k4"]), K("1"), A("rollback"), R2], splits=("k2",)))                 # Rollback of a killed session
    out.append(sc(101, B + [{"t": "t2", "op": "lock", "ks": ["k3"], "wait": -1}, {"t": "t1", "op": "failpoint", "k": FP, "v": "pause"}, L(["k1", "k2", "k3"]),
                            K("1"), {"t": "t1", "op": "failpoint", "k": FP, "v": ""}, A("audit"), A("rollback"), R2], splits=("k2", "k3")))  # the background rollback of a failed call runs killed
    out.append(sc(102, B + [L(["k5"]), K("1"), L(["k1", "k2"]), K("0"), L(["k1"]), A("audit"), A("commit"), R2], splits=("k2",)))  # interrupted LockKeys = a failed call; cleared; goes on
    out.append(sc(103, B + [L(["k1", "k3"]), {"t": "t1", "op": "set", "k": "k1", "v": "x"}, {"t": "t1", "op": "set", "k": "k3", "v": "y"}, K("1"), A("commit"), R2], splits=("k2",)))  # killed Commit: prewrite interrupted, clean-up must go out
    out.append(sc(104, B + [A("agg_start"), L(["k1"]), L(["k2"]), A("agg_retry"), L(["k1"]), K("1"), A("agg_done"), A("audit"), K("0"), A("commit"), R2], splits=("k2",)))  # Done's redundant-lock release runs killed
    out.append(sc(105, B + [A("agg_start"), L(["k1"]), L(["k2"]), K("1"), A("agg_cancel"), A("audit"), A("rollback"), R2]))
    # a release request of a killed session meets a region error: the retry must still happen (finding: Backoffer.Backoff
    # checked the kill flag whatever the request type and abandoned the retry)
    out.append(sc(106, B + [L(["k1", "k2"]), {"t": "t1", "op": "split", "k": "k2"}, K("1"), A("rollback"), R2]))
    out.append(sc(107, B + [L(["k1"]), {"t": "t1", "op": "set", "k": "k1", "v": "x"}, {"t": "t1", "op": "set", "k": "k3", "v": "y"}, {"t": "t1", "op": "split", "k": "k2"}, K("1"), A("commit"), R2]))
    out.append(sc(108, B + [A("agg_start"), L(["k1"]), L(["k3"]), A("agg_retry"), L(["k3"]), {"t": "t1", "op": "split", "k": "k2"}, K("1"), A("agg_done"), A("audit"), A("rollback"), R2]))
    out.append(sc(95, B + [I("k1"), L(["k1"]), I("k1"), {"t": "t1", "op": "set", "k": "k2", "v": "w"}, L(["k2"]), I("k2"), L(["k2"]), I("k2"), A("rollback"), R2]))  # failed insert reverted: flags survive only over an older buffered value
    return out


def gen_agg_program(rng, idx):
    """programs centred on aggressive locking: attempts of single-key calls with options, retries that re-lock some of the
    previous keys with other options, contention by t2, a multi-key call that leaves the mode, inserts inside an attempt"""
    mode1 = rng.choice(["2pc", "2pc", "async", "1pc"])
    splits = rng.sample(KEYS[1:], rng.choice([0, 1, 2]))
    preload = [{"k": k, "v": "old-" + k} for k in KEYS if rng.random() < 0.6]
    txns = {"t1": {"mode": mode1, "pessimistic": True, "causal": False, "ops": []},
            "t2": {"mode": "2pc", "pessimistic": True, "causal": False, "ops": []}}
    prog = [{"t": "t2", "op": "begin"}, {"t": "t1", "op": "begin"}]
    t2_done = False
    def t2_step():
        nonlocal t2_done
        if t2_done:
            return
        x = rng.random()
        k = rng.choice(KEYS)
        if x < 0.45:
            prog.append({"t": "t2", "op": "lock", "ks": [k], "wait": -1})
        elif x < 0.75:
            prog.append({"t": "t2", "op": "set", "k": k, "v": "c-" + k})
        else:
            prog.append({"t": "t2", "op": rng.choice(["commit", "commit", "rollback"])})
            t2_done = True
    def lock_step(ks):
        st = {"t": "t1", "op": "lock", "ks": ks, "wait": rng.choice([-1, -1, 30])}
        y = rng.random()
        if y < 0.4:
            st["rv"] = True
            if len(ks) == 1 and rng.random() < 0.5:
                st["loie"] = True
        elif y < 0.6:
            st["ce"] = True
        if rng.random() < 0.15:
            st["v"] = "fu_saved"
        return st
    if rng.random() < 0.3:
        prog.append(lock_step(rng.sample(KEYS, rng.choice([1, 2]))))
    if rng.random() < 0.3:
        prog.append({"t": "t1", "op": "fu_take"})
    prog.append({"t": "t1", "op": "agg_start"})
    agg = True
    used = []
    for a in range(rng.randrange(1, 4)):
        for _ in range(rng.randrange(1, 4)):
            if rng.random() < 0.35:
                t2_step()
            if rng.random() < 0.1:
                prog.append({"t": "t1", "op": "fu_take"})
            k = rng.choice(used) if used and rng.random() < 0.6 else rng.choice(KEYS)
            x = rng.random()
            if x < 0.08:
                prog.append({"t": "t1", "op": "insert", "k": k, "v": "i-" + k})
            elif x < 0.14:
                prog.append(lock_step(rng.sample(KEYS, rng.choice([2, 3]))))
                agg = False
            else:
                st = lock_step([k])
                if rng.random() < 0.15 and conflict_pattern(rng, prog, txns, k):
                    st["v"] = "fu_saved"
                prog.append(st)
            used.append(k)
            if rng.random() < 0.12:
                prog.append({"t": "t1", "op": "split", "k": rng.choice(KEYS)})
            if not agg:
                break
        if not agg:
            break
        if rng.random() < 0.15:
            prog.append({"t": "t1", "op": "split", "k": rng.choice(KEYS)})
        last = a == 2 or rng.random() < 0.3
        if last:
            prog.append({"t": "t1", "op": rng.choice(["agg_done", "agg_done", "agg_cancel"])})
            agg = False
            break
        prog.append({"t": "t1", "op": "agg_retry"})
        if rng.random() < 0.2:
            prog.append({"t": "t1", "op": "audit"})      # quiescent point inside the mode: store vs model lock set
    if agg:
        prog.append({"t": "t1", "op": rng.choice(["agg_done", "agg_cancel"])})
    if rng.random() < 0.3:
        prog.append({"t": "t1", "op": "audit"})
    if rng.random() < 0.3:
        prog.append(lock_step(rng.sample(KEYS, rng.choice([1, 2]))))
    if rng.random() < 0.3:
        prog.append({"t": "t1", "op": rng.choice(["set", "del"]), "k": rng.choice(KEYS), "v": "n"})
    add_kill(rng, prog)
    prog.append({"t": "t1", "op": rng.choice(["commit", "commit", "rollback"])})
    if not t2_done:
        prog.append({"t": "t2", "op": rng.choice(["commit", "rollback"])})
    return decorate(rng, {"id": f"a{idx}", "backend": BACKEND, "splits": splits, "preload": preload, "batch_size": rng.choice([0, 0, 24, 2, 3, 5]),
            "txn": {"mode": "2pc", "ops": []}, "txns": txns, "program": prog, "keys": KEYS, "black_from": -1})


def leftovers(r):
    fin = {v["start"]: t for t, v in (r.get("txns") or {}).items()}
    bad = []
    for k, a in (r.get("audit_pre") or {}).items():
        lk = (a or {}).get("lock")
        if lk and lk.get("start") in fin:
            bad.append({"key": k, "txn": fin[lk["start"]], "lock_type": lk.get("type"), "result": r["txns"][fin[lk["start"]]]["result"]})
    return bad


def filtered_locked_deletes(sc, exp):
    """coverage counter for the KVFilter regression class (finding F31, fixed): keys that, when Commit was called,
    were flagged locked (client bookkeeping), held an empty value (their last buffered write was a Delete) and are
    declared unnecessary by the transaction's KVFilter"""
    fk = set(sc["txns"]["t1"].get("filter_keys") or [])
    last, out, prev_bk = {}, set(), None
    for x in exp:
        st = sc["program"][x["i"]]
        if x["op"] in ("set", "del") and not x["err"]:
            last[st["k"]] = x["op"]
        elif x["op"] == "insert" and not x["err"]:
            last[st["k"]] = "set"
        elif x["op"] == "commit" and prev_bk is not None:
            out = {k for k in prev_bk["locked"] if k in fk and last.get(k) == "del"}
        prev_bk = x["bk"]
    return out


def run_model(mr, scs, res):
    """one modelrun process for all programs; returns {id: (disagreements, model leftover keys, expectations)}"""
    blocks, exps = [], {}
    for sc, r in zip(scs, res):
        if r.get("fatal"):
            continue
        if lost_release(sc):
            sc["_lost_keys"] = txnlab.locks_lost_keys(sc, r)
        lines, exp = txnlab.locks_replay_lines(sc, r)
        if not lines:
            continue
        vals = {s["i"]: s.get("vals") for s in r.get("steps", [])}
        for x in exp:
            x["vals"] = vals.get(x["i"])
        exps[sc["id"]] = exp
        blocks.append("\n".join(lines))
    p = subprocess.run([mr], input="\n".join(blocks) + "\n", capture_output=True, text=True, timeout=900)
    by = {}
    for ln in p.stdout.splitlines():
        f = ln.split("\t")
        if len(f) > 1:
            by.setdefault(f[1], []).append(ln)
    out = {}
    for sc, r in zip(scs, res):
        if sc["id"] in exps:
            bad, left = txnlab.locks_compare(sc, r, by.get(sc["id"], []), exps[sc["id"]])
            out[sc["id"]] = (bad, left, exps[sc["id"]])
    return out


def model_kill_table(mr):
    """the table [interruptible] of Locks/Kill.v, read from the extracted model: {client command-type name: bool}"""
    p = subprocess.run([mr], input="T\n", capture_output=True, text=True, timeout=60)
    for ln in p.stdout.splitlines():
        f = ln.split("\t")
        if f[:2] == ["T", "table"]:
            return {x.split("=")[0]: x.split("=")[1] == "1" for x in f[2:]}
    return None


def kill_table_differential(v, mr, scs, res, cov):
    """every driver run reports tikvrpc.Request.IsInterruptible for every command type of the client; it has to be the
    table the theorems of PropsKill.v speak about: the modelled types agree one by one, every other type is interruptible"""
    mt = model_kill_table(mr) if mr else None
    if mt is None:
        return
    moff = sorted(k for k, b in mt.items() if not b)
    seen, nrep = None, 0
    for sc, r in zip(scs, res):
        kt = r.get("kill_table")
        if r.get("fatal") or kt is None:
            continue
        nrep += 1
        if sorted(kt["not_interruptible"]) != moff:
            v.violation({"kind": "correspondence", "correspondence": "kill table: tikvrpc.Request.IsInterruptible of the client vs [interruptible] of coq/theories/Locks/Kill.v",
                         "client_not_interruptible": kt["not_interruptible"], "model_not_interruptible": moff, "model_table": mt, "scenario": sc,
                         "theorem": "C06_release_requests_ignore_kill / C06_no_leftover_under_any_kill_schedule speak about the model's table"})
            break
        seen = kt
    cov["kill_table"] = {"model": mt, "client": seen, "runs_compared": nrep}


def side_oracles(sc, r, exp=None):
    """oracles on the client's own state of t1 that a leftover-lock scan cannot see (all evaluated on the implementation):
    (P) while a pessimistic transaction is open, its primary key is a key the client tracks as locked (flagged, current or
        previous aggressive-locking key) — a never-locked "ghost" primary makes later locks and prewrites name a key that holds
        no lock and leaves the commit without a primary batch;
    (H) every TxnHeartBeat of the transaction names a key that was its primary or a tracked key around the time it was sent
        (tolerance: the call during which it was sent and the two calls before), and a pause of >= 1.5 managed TTL with a
        primary set and nothing else going on sees at least one heart-beat naming that primary;
    (A) at an `audit` step (background work quiet) every key the client has flagged as locked holds a lock of the
        transaction in the store (a late background rollback must not remove the locks of a retried call)."""
    info = (r.get("txns") or {}).get("t1")
    if not info or not info.get("pessimistic"):
        return []
    out = []
    S = info["start"]
    steps = [s for s in r.get("steps", []) if s.get("t") == "t1" and "bk" in s and not s.get("skipped")]
    tracked = lambda bk: set(bk["locked"]) | set(bk["agg_cur"]) | set(bk["agg_prev"])
    inside = {x["i"]: x.get("inside") for x in (exp or [])}
    done = False
    for s in steps:
        if s["op"] in ("commit", "rollback"):
            done = True
        bk = s["bk"]
        if "less than previous LockedWithConflictTS" in str(s.get("err") or ""):
            done = True     # the caller broke the contract (for-update ts below a conflict ts it was told): the code's "unreachable" path
        if not done and bk.get("primary") and bk["primary"] not in tracked(bk):
            out.append(f"(P) after step {s['i']} ({s['op']}{' ' + s['err'] if s.get('err') else ''}) the primary {bk['primary']!r} is not a key the client holds (locked {sorted(tracked(bk))})")
            break
        if not done and s["op"] == "audit" and inside.get(s["i"]) is not False:
            # (judged inside the contract of C06_tracked_keys_hold_locks only — the model driver evaluates it along the replay;
            #  e.g. a retry with the SAME for-update ts legitimately loses its lock to the late rollback of the failed call)
            miss = [k for k in bk["locked"] if (s.get("locks") or {}).get(k) != S]
            if miss:
                out.append(f"(A) at step {s['i']} the client has {sorted(bk['locked'])} flagged as locked but the store holds no lock of the transaction on {miss}")
    # (W) an acknowledged commit has every key it wrote committed at its commit ts (nobody may resolve a living
    #     transaction's prewrite locks as rolled back)
    broke_ts_contract = any("less than previous LockedWithConflictTS" in str(s.get("err") or "") for s in steps)
    if str(info.get("result")) == "ok" and info.get("commit_ts") and not broke_ts_contract:
        # (not judged after the caller used a for-update ts below a conflict ts it was told: the code's "unreachable" path
        #  keeps a tentative primary that is never locked, and the commit then has no primary batch)
        last, inserted = {}, set()
        for s in steps:
            st = sc["program"][s["i"]]
            if s["op"] in ("set", "del") and not s.get("err"):
                last[st["k"]] = s["op"]
            elif s["op"] == "insert":
                inserted.add(st["k"])
                if not s.get("err"):
                    last[st["k"]] = "set"
        fk = set(sc["txns"]["t1"].get("filter_keys") or [])
        lost = []
        for k, op in sorted(last.items()):
            # not judged: filtered keys; keys touched by an insert that failed or was deleted again (the NewlyInserted flag
            # outlives the discarded insert and makes a later Delete a legitimate "delete-your-writes" no-op)
            if k in fk or (k in inserted and (op == "del" or any(s["op"] == "insert" and s.get("err") and sc["program"][s["i"]]["k"] == k for s in steps))):
                continue
            ws = ((r.get("audit_pre") or {}).get(k) or {}).get("writes") or []
            if not any(w.get("start") == S and w.get("commit") == info["commit_ts"] and w.get("type") != "Rollback" for w in ws):
                lost.append(k)
        if lost:
            out.append(f"(W) Commit was acknowledged (commit ts {info['commit_ts']}) but the writes of {lost} are not committed: " +
                       str({k: [w for w in (((r.get('audit_pre') or {}).get(k) or {}).get('writes') or []) if w.get('start') == S] for k in lost})[:300])
    # heart-beats by window
    unhex = lambda h: bytes.fromhex(h).decode()
    by_i = {s["i"]: s for s in steps}
    order = [s["i"] for s in steps]
    hb, cur_hb = {}, []
    for e in r.get("trace", []):
        if e["kind"] == "api":
            hb[e["f"].get("i")] = cur_hb
            cur_hb = []
        elif e["kind"] == "send" and e.get("cmd") == "TxnHeartBeat" and (e.get("f") or {}).get("start") == S:
            cur_hb.append(unhex(e["f"]["primary"]))
    ttl = sc.get("managed_ttl") or 20000
    mka = {x["i"]: x.get("ka") for x in (exp or []) if "ka" in x}
    done = False
    for pos, i in enumerate(order):
        s = by_i[i]
        if s["op"] in ("commit", "rollback"):
            done = True
        near = [by_i[j]["bk"] for j in order[max(0, pos - 3):pos + 1]]
        ok = set()
        if mka:
            # model-compared: the key the Locks model's keep-alive is bound to after this call or one of the three before
            ok = {mka[j] for j in order[max(0, pos - 3):pos + 1] if mka.get(j)}
        else:
            for bk in near:
                ok |= tracked(bk) | ({bk["primary"]} if bk.get("primary") else set())
        for name in hb.get(i, []):
            if not done and name not in ok:
                out.append(f"(H) a heart-beat sent during step {i} ({s['op']}) names {name!r}, not the key the keep-alive is bound to (model; allowed {sorted(ok)})")
                break
        if not done and s["op"] == "sleep" and pos > 0:
            before = by_i[order[pos - 1]]["bk"]
            w = sc["program"][i].get("wait", 0)
            if before.get("primary") and w >= 1.5 * ttl and before["primary"] not in hb.get(i, []):
                out.append(f"(H) no heart-beat named the primary {before['primary']!r} during a pause of {w} ms (managed TTL {ttl} ms); heart-beats sent: {hb.get(i, [])}")
    return out[:3]


def lost_release(sc):
    return str(sc.get("black_kind") or "").startswith("release_") or any(str(f.get("kind", "")).startswith("release:") for f in sc.get("faults") or [])


LIVE = {"t": "t1", "op": "failpoint", "k": "tikvclient/injectLiveness", "v": 'return("reachable")'}
LIVE_OFF = {"t": "t1", "op": "failpoint", "k": "tikvclient/injectLiveness", "v": ""}


def with_lost_release(sc, rng=None, kind=None, frm=0, once=()):
    """turns a program into a lost-release scenario: the store stays reachable for the sender (so that it really retries),
    and release requests of t1's client are lost once (`once`: indices among release requests) or for good from `frm` on"""
    # (the failpoint stays on until the driver resets it before the next scenario: background retries may still be running)
    sc["program"] = sc["program"][:2] + [dict(LIVE)] + sc["program"][2:]
    sc.pop("extras", None)
    sc["faults"] = [{"at": a, "kind": "release:" + k} for a, k in once]
    if kind:
        sc["black_from"], sc["black_kind"] = frm, kind
    return sc


def judge(v, sc, r, mres, counts):
    """oracle + correspondence verdict of one program; returns number of violations reported"""
    bad = leftovers(r)
    mbad, mleft, exp = mres if mres else ([], None, [])
    n = 0
    if lost_release(sc) and mres is not None:
        # release requests of t1 are lost (once: retried by the sender; for good: the retry budget runs out): a lock may stay
        # exactly where the model says so — under a release that never completed (C06_leftover_only_under_unfinished_release);
        # the model is told which keys' releases never reached the store and predicts the leftover set
        counts["lost-release:programs"] = counts.get("lost-release:programs", 0) + 1
        counts["lost-release:keys-lost-for-good"] = counts.get("lost-release:keys-lost-for-good", 0) + len(sc.get("_lost_keys") or [])
        got = sorted(x["key"] for x in bad if x["txn"] == "t1")
        others = [x for x in bad if x["txn"] != "t1"]
        if not str(sc.get("black_kind") or "").startswith("release_") and sc.get("_lost_keys"):
            # requests lost only once: the sender has to retry them (budget 20 s), nothing may count as lost for good
            n += 1
            v.violation({"kind": "property-oracle", "scenario": {k: w for k, w in sc.items() if k != "_lost_keys"}, "txns": r.get("txns"),
                         "violated": [f"release requests naming {sc['_lost_keys']} were lost once and never sent again (locks left: {got})"]})
        elif (not set(got) <= set(sc.get("_lost_keys") or []) if str(sc.get("black_kind") or "").startswith("release_") else got != (mleft or [])) or others:
            # lost for good: a lock may stay only on a key whose release never reached the store after it was last locked (the
            # action that met the loss gives up and does not send its remaining batches); lost once: nothing may stay
            n += 1
            v.violation({"kind": "property-oracle", "scenario": {k: w for k, w in sc.items() if k != "_lost_keys"}, "steps": [{k: w for k, w in s.items() if k != "bk"} for s in r.get("steps", [])],
                         "txns": r.get("txns"), "model_vs_client": mbad[:5], "lost_keys": sc.get("_lost_keys"),
                         "violated": [f"with lost release requests the locks left by t1 are {got}; the model (locks under releases that never completed) predicts {mleft}; other transactions: {others}"]})
        bad = []
    if bad:
        n += 1
        v.violation({"kind": "property-oracle", "scenario": sc, "steps": [{k: w for k, w in s.items() if k != "bk"} for s in r.get("steps", [])],
                     "txns": r.get("txns"), "model_leftover": mleft, "model_vs_client": mbad[:5],
                     "violated": ["lock of a finished transaction left behind: %s" % bad]})
    so = side_oracles(sc, r, exp)
    if so:
        n += 1
        counts["side_oracle_failures"] = counts.get("side_oracle_failures", 0) + 1
        v.violation({"kind": "property-oracle", "scenario": sc, "steps": [{k: w for k, w in s.items() if k != "bk"} for s in r.get("steps", [])],
                     "txns": r.get("txns"), "violated": so, "model_vs_client": mbad[:5]})
    if mres is not None:
        lo1 = sorted(x["key"] for x in bad if x["txn"] == "t1")
        allbad = list(mbad) + ([f"final lock set of t1: model={mleft} audit={lo1}"] if mleft != lo1 and not lost_release(sc) else [])
        if allbad:
            counts["model_disagree"] = counts.get("model_disagree", 0) + 1
            if not bad and not so and counts["model_disagree"] <= 3:
                n += 1
                v.violation({"kind": "correspondence", "correspondence": "Locks model (coq/theories/Locks/Model.v, ocaml/locks) vs client bookkeeping (TxnProbe) / MVCC audit",
                             "disagreements": allbad[:8], "scenario": sc, "theorem": "C06_bookkeeping_inv / C06_no_leftover speak about this model"}, has_input=False)
    return n


def main(tier, replay):
    t0 = time.time()
    v = Verdict(PID)
    rng = random.Random(vlib.SEED)
    cov = {"checker_cmd": "coq/mk.sh theories/Locks/Props.vo theories/Locks/PropsKill.vo + Print Assumptions per theorem; thorough tier: coqchk -o", "trusted_base": vlib.TRUSTED_BASE}
    g = vlib.coq_gate(PID, AREAS, PROPS)
    cov.update(obligations=g["obligations"], discharged=g["discharged"], theorems=g["theorems"], axioms={k: a for k, a in g["axioms"].items() if a})
    if tier == "thorough" and g["ok"]:
        okc, outc = vlib.coqchk(["Verif." + m for _, m in PROPS])
        cov["coqchk"] = "ok" if okc else outc[-300:]
        if not okc:
            g["ok"] = False; g["problems"].append("coqchk failed: " + outc[-300:])
    if not g["ok"]:
        v.violation({"kind": "proof", "theorem_or_file": g["problems"], "what": "Coq obligations no longer check"}, has_input=False)
    okd, exe = txnlab.build_driver()
    if not okd:
        v.violation({"kind": "harness-build", "correspondence": "txn driver build against the current tree", "error": exe}, has_input=False)
        rc = v.finish(); vlib.write_evidence(PID, dict(cov, evaluations=0, distinct_nontrivial=0, rule="driver did not build", samples=[]), t0, 1); return rc
    okm, mr = vlib.build_model("Locks")
    if not okm:
        v.violation({"kind": "model-build", "correspondence": "extraction of coq/extract/Locks.v + ocaml/locks/driver.ml", "error": mr}, has_input=False)
        mr = None
    counts = {}
    if replay:
        sc = json.load(open(replay))["scenario"]
        r = txnlab.run_scenarios(exe, [sc], jobs=1)[0]
        if r.get("fatal"):
            print("replay: driver failed:", r["fatal"])
            v.violation({"kind": "harness", "correspondence": "txn driver program run", "error": r["fatal"], "scenario": sc}, has_input=False)
            return v.finish()
        mres = run_model(mr, [sc], [r]).get(sc["id"]) if mr else None
        print("replay:", sc["id"], "leftover locks:", leftovers(r), "model leftover:", mres and mres[1], "model vs client:", mres and mres[0], "notes:", r.get("notes"))
        judge(v, sc, r, mres, counts)
        kill_table_differential(v, mr, [sc], [r], {})
        return v.finish()
    n = 700 if tier == "quick" else 6000
    scs = directed() + [gen_program(rng, i) for i in range(n)] + [gen_agg_program(rng, i) for i in range(n // 2)] + [gen_expiry_program(rng, i) for i in range(n // 12)] + [gen_schedule_program(rng, i) for i in range(n // 25)]
    res = txnlab.run_scenarios(exe, scs)
    mall = run_model(mr, scs, res) if mr else {}
    kill_table_differential(v, mr, scs, res, cov)
    nviol, dist, distinct, steps_cmp = 0, {}, set(), 0
    for sc, r in zip(scs, res):
        if r.get("fatal"):
            nviol += 1
            if nviol <= 3:
                v.violation({"kind": "harness", "correspondence": "txn driver program run", "error": r["fatal"], "scenario": sc}, has_input=False)
            continue
        errs = [s.get("err") for s in r.get("steps", []) if s.get("err")]
        for e in errs:
            dist["step-error:" + str(e)[:24]] = dist.get("step-error:" + str(e)[:24], 0) + 1
        for t, tv in (r.get("txns") or {}).items():
            dk = f"{t}:{tv['result'][:16]}"
            dist[dk] = dist.get(dk, 0) + 1
        if errs:
            distinct.add(json.dumps(sc["program"]))
        mres = mall.get(sc["id"])
        for e in r.get("trace", []):
            f = e.get("f") or {}
            if e["kind"] == "deliver" and e.get("client") == "c1" and "regionerr" in f:
                kk = "regionerr:" + str(e.get("cmd")) + (":fabricated" if f.get("fabricated") else "")
                counts[kk] = counts.get(kk, 0) + 1
        for e in r.get("trace", []):
            f = e.get("f") or {}
            if e["kind"] == "note" and f.get("helper") == "hold":
                kk = "hold:released-by-rollback" if f.get("released_by_until") else "hold:timed-out"
                counts[kk] = counts.get(kk, 0) + 1
            if e["kind"] == "note" and f.get("helper") == "split" and f.get("cmd"):
                counts["split-before:" + f["cmd"]] = counts.get("split-before:" + f["cmd"], 0) + 1
        if sc["txns"]["t1"].get("filter_keys"):
            counts["programs:kvfilter"] = counts.get("programs:kvfilter", 0) + 1
            if filtered_locked_deletes(sc, mres[2] if mres else []):
                counts["programs:kvfilter:locked-delete-filtered"] = counts.get("programs:kvfilter:locked-delete-filtered", 0) + 1
        if mres:
            steps_cmp += len(mres[2])
            for x in mres[2]:
                if x["op"] == "audit":
                    kk = ("audit:" + ("lock-set-compared-with-model" if x.get("audit_locks") is not None else "not-compared")
                          + (":inside-held-contract" if x.get("inside") else ":outside-held-contract"))
                    counts[kk] = counts.get(kk, 0) + 1
                if x["op"] in ("lock", "insert") and x["rpc_keys"] is not None:
                    p = x["line"].split("\t")
                    exflag, p = p[-1], p[:-1]
                    if x.get("X"):
                        counts["lock:agg:expiry-decided-the-request"] = counts.get("lock:agg:expiry-decided-the-request", 0) + 1
                    cls = "lock:" + ("agg:" if x["bk"]["agg"] else "") + ("no-request" if not x["rpc_keys"] else "request") + (":" + p[-1] if p[-1] != "ok" else "")
                    counts[cls] = counts.get(cls, 0) + 1
                    if x.get("early") is not None:      # the model's prediction was compared with the client on this call
                        kk = "lock:early-key-exists:" + ("predicted-and-seen" if x["early"] else "predicted-none-and-none-seen")
                        counts[kk] = counts.get(kk, 0) + 1
                    if exflag == "1":
                        counts["lock:agg:expiry-fed"] = counts.get("lock:agg:expiry-fed", 0) + 1
                    if p[-2] != "0":
                        counts["lock:locked-with-conflict"] = counts.get("lock:locked-with-conflict", 0) + 1
                    if p[-3] != "-" and p[6] == "1":
                        counts["lock:loie-absent"] = counts.get("lock:loie-absent", 0) + 1
        if nviol < 8:
            nviol += judge(v, sc, r, mres, counts)
        elif leftovers(r):
            nviol += 1
    cov.update(evaluations=len(scs), distinct_nontrivial=len(distinct), model_programs_compared=len(mall), model_steps_compared=steps_cmp,
               model_disagreements=counts.get("model_disagree", 0), lock_call_classes=counts,
               rule="14 directed + random well-formed programs (4-13 steps) of set/delete/insert/lock-keys(return-values, check-existence, lock-only-if-exists, no-wait / 30 ms wait, for-update ts taken before a concurrent commit)/aggressive start-retry-cancel-done/commit/rollback for t1 with a contending pessimistic t2, splits in between, modes {2pc, async, 1pc}, plus programs centred on aggressive-locking attempts (re-locks of previous-attempt keys with other options, inserts inside an attempt, a multi-key call leaving the mode); no fault, no clock advance; oracle: after the gates are quiet no key holds a lock whose start ts belongs to a finished transaction; kill table differential: tikvrpc.Request.IsInterruptible read for every command type of the client on every driver run = the extracted table [interruptible] of Locks/Kill.v; correspondence: extracted Locks model replays t1 with the observed store outcomes, bookkeeping compared after every call, final lock set with the audit; distinct non-trivial = distinct programs in which at least one step failed",
               samples=[{"program": scs[i]["program"], "txns": res[i].get("txns")} for i in (0, 8, 9, 20) if i < len(scs)], input_distribution=dist)
    rc = v.finish()
    vlib.write_evidence(PID, cov, t0, violations=len(v.violations), level="proof",
                        assumptions=["store = in-repo mock store (environment)", "quiescence = no transactional RPC of the client in flight or issued for 40 ms",
                                     "theorems assume the documented API contract wf_run only (valid transaction, non-decreasing for-update ts, no commit/rollback while an attempt holds current keys)"])
    return rc
