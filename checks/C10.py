"""C10 — a request send ends within its retry budget and never mislabels the read mode.
Proof: coq/theories/SendReq/Props.v (C10_bounded / C10_bounded_general / C10_bounded_by_hints / C10_unbounded_before_fix /
C10_flags / C10_no_fabrication).  Correspondence: in-package Go driver (overlay root ov_sendreq, internal/locate +
internal/zz_verif/sendreq) runs RegionRequestSender.SendReqCtx against a scripted client on a 3-peer region; the extracted
model (ocaml/sendreq) is run on the same configuration, fault script and observed oracle inputs (random tie-breaks,
sleep lengths) and must produce the same attempts / flags / back-offs / result.  The property oracles (attempt bound,
flag discipline, validation, no fabrication, error only when the budget is spent) are evaluated by the driver on the
implementation itself."""
import os, time, json, subprocess, re, shutil, fcntl
import vlib
from vlib import Verdict

PID = "C10"
PROPS = [("theories/SendReq/Props.v", "SendReq.Props")]
AREAS = ["theories/SendReq"]
ROOTS = ("ov_sendreq",)
MAXATT = 10
NREP = 3
ALPHA = ["Er", "Eu", "Ek", "Dr", "Du", "NL", "N0", "N1", "N2", "N3", "EN", "EB", "EW", "RF", "B0", "B1", "BD", "SC", "SM", "DN", "MT", "DF", "UK",
         "UR", "RP", "IW", "FP", "FN", "KN", "BV", "MP", "RL", "NI", "RN", "PM", "IM", "DM"]


def parse_line(l):
    f = l.rstrip("\n").split("\t")
    return dict(cfg=f[1], script=f[2], rands=f[3], events=f[4], result=f[5], total=int(f[6]), excl=int(f[7]), errs=int(f[8]), oracle=f[9])


def batch(exe, env, mode, cases):
    inp = "".join("%s\t%s\n" % (c, s) for c, s in cases)
    rc, out = vlib.sh([exe, mode], env=env, timeout=900, inp=inp)
    if rc != 0:
        return None, out[-800:]
    return [parse_line(l) for l in out.splitlines() if l.startswith("C\t")], None


def model_on(modelrun, lines):
    """run the model on driver lines; returns (stats, mismatches)"""
    rc, out = vlib.sh([modelrun], inp="".join(lines), timeout=1800)
    return rc, out


def classify_bound(case_min):
    """a failure of the attempt-bound oracle (C10_bounded) is always a violation; the class only describes the
    minimised failing script: pure NotLeader-with-hint alternation without back-off (the shape of the repaired
    finding F10) or anything else."""
    syms = [] if case_min["script"] == "-" else case_min["script"].split(",")
    m = re.search(r"bound:attempts=(\d+)>(\d+)\+(\d+),sleep=(\d+)", case_min["oracle"])
    if m and syms and all(s in ("N0", "N1", "N2") for s in syms) and int(m.group(4)) == 0:
        return "unbounded-retry/not-leader-hint-cycle-no-backoff"
    return "unbounded-retry/other"


def main(tier, replay):
    t0 = time.time()
    v = Verdict(PID)
    cov = {"checker_cmd": "coq/mk.sh theories/SendReq/Props.vo (coqc 8.16.1, full .vo build) + Print Assumptions per theorem",
           "trusted_base": vlib.TRUSTED_BASE + [
               "modelled, not verified: wall-clock effects (replica.attemptedTime / maxReplicaAttemptTime, region cache TTL, decay of Store.EstimatedWaitTime), health-check and store re-resolve goroutines, slow-score statistics beyond markAlreadySlow / first-sample reset, TiFlash; forwarding is modelled for a freshly loaded region (proxyTiKVIdx = -1)",
               "sleep lengths and random tie-breaks are oracle inputs of the model (observed values are fed back; the model only assumes sleep >= base/2 resp. base)",
               "scripted client.Client + mocktikv cluster + failpoints fastBackoffBySkipSleep/skipStoreCheckUntilHealth; back-off observations through the exported prometheus.Observer variables of package metrics"]}
    # builds (Coq, extraction + OCaml, Go) write into shared directories: serialise them among concurrent ./check C10 runs
    os.makedirs(vlib.BUILD, exist_ok=True)
    lock = open(os.path.join(vlib.BUILD, "c10.lock"), "w")
    fcntl.flock(lock, fcntl.LOCK_EX)
    gate = vlib.coq_gate(PID, AREAS, PROPS)
    cov.update(obligations=gate["obligations"], discharged=gate["discharged"], theorems=gate["theorems"],
               axioms={k: a for k, a in gate["axioms"].items() if a})
    proof_broken = not gate["ok"]
    env = vlib.goenv(); env["VERIF_SEED"] = str(vlib.SEED); env["VERIF_TIER"] = tier
    okm, modelrun = vlib.build_model("SendReq")
    okg, exe = vlib.go_build("sendreq", roots=ROOTS)
    stats, counts, samples, mism, ofails = {}, {}, [], [], []
    nruns = 0
    if okg and okm:
        pid = os.getpid()
        priv = []
        for src in (exe, modelrun):
            dst = "%s.%d" % (src, pid)
            shutil.copy2(src, dst)
            priv.append(dst)
    fcntl.flock(lock, fcntl.LOCK_UN)
    lock.close()
    if not (okg and okm):
        why = (exe if not okg else modelrun)
        v.violation({"kind": "harness-build", "correspondence": "SendReq driver/model build against the current tree", "error": why}, has_input=False)
    else:
        # private copies / private output file: another ./check C10 may run at the same time in the same build directory
        # (it would truncate a shared output file and rebuild the shared binaries while they are in use)
        exe, modelrun = priv
        outf = os.path.join(vlib.BUILD, "c10-%s-%d-%d.out" % (tier, vlib.SEED, pid))
        priv.append(outf)
        if replay:
            case = json.load(open(replay)).get("case", {})
            lines, err = batch(exe, env, "batch", [(case.get("cfg", "rt=L"), case.get("script", "-"))])
            if lines is None:
                v.violation({"kind": "harness", "correspondence": "SendReq driver", "error": err}, has_input=False)
                lines = []
            with open(outf, "w") as fh:
                for c in lines:
                    fh.write("C\t%s\t%s\t%s\t%s\t%s\t%d\t%d\t%d\t%s\n" % (c["cfg"], c["script"], c["rands"], c["events"], c["result"], c["total"], c["excl"], c["errs"], c["oracle"]))
        else:
            with open(outf, "w") as fh:
                try:
                    p = subprocess.run([exe], env=env, stdout=fh, stderr=subprocess.PIPE, timeout=3000)
                    rc, errtxt = p.returncode, p.stderr.decode(errors="replace")
                except subprocess.TimeoutExpired:
                    rc, errtxt = 124, "timeout"
            if rc != 0:
                v.violation({"kind": "harness", "correspondence": "SendReq driver", "error": "driver failed rc=%d: %s" % (rc, errtxt[-1500:])}, has_input=False)
        # model comparison (streams the file)
        with open(outf) as fh:
            p = subprocess.run([modelrun], stdin=fh, stdout=subprocess.PIPE, stderr=subprocess.STDOUT, text=True, timeout=3000)
        if p.returncode != 0:
            v.violation({"kind": "harness", "correspondence": "SendReq modelrun", "error": p.stdout[-800:]}, has_input=False)
        for l in p.stdout.splitlines():
            f = l.split("\t")
            if f[0] == "STATS":
                stats.update({kv.split("=")[0]: int(kv.split("=")[1]) for kv in f[1:]})
            elif f[0] == "COUNT":
                counts[f[1]] = int(f[2])
            elif f[0] == "MISMATCH":
                mism.append(f[1:])
        # oracle failures on the implementation
        with open(outf) as fh:
            for i, l in enumerate(fh):
                if not l.startswith("C\t"):
                    continue
                nruns += 1
                if "\tfail:" in l:
                    ofails.append(parse_line(l))
                elif len(samples) < 6 and (nruns % 9973 == 1):
                    samples.append(l.rstrip("\n")[:300])
        # the driver ends its output with a "T" line: anything else means the enumeration was cut short
        if not replay:
            with open(outf, "rb") as fh:
                fh.seek(max(0, os.path.getsize(outf) - 400))
                tail = fh.read().decode(errors="replace")
            if "\nT\truns=" not in tail:
                v.violation({"kind": "harness", "correspondence": "SendReq driver", "error": "driver output incomplete (no terminating T line): " + tail[-200:]}, has_input=False)
        # ---- classify oracle failures
        bound_only, other = [], []
        for c in ofails:
            kinds = set(k.split(":")[0].split("@")[0] for k in c["oracle"][5:].split(";"))
            (bound_only if kinds <= {"bound", "cap"} else other).append(c)
        for c in other[:5]:
            v.violation({"kind": "property-oracle", "oracle": c["oracle"], "case": {"cfg": c["cfg"], "script": c["script"]},
                         "implementation": {"events": c["events"], "result": c["result"], "total_sleep": c["total"], "errors_num": c["errs"]},
                         "finding_class": "flag-or-result-oracle/" + c["oracle"][5:].split(";")[0].split("@")[0],
                         "command_type": (re.search(r"cmd=([A-Za-z]+)", c["oracle"]) or [None, "Cop" if ("tp=F" in c["cfg"] or "tp=D" in c["cfg"]) else "Get/Prewrite"])[1],
                         "what": "property oracle failed on the implementation (C10_flags / C10_no_fabrication / error only when the budget is spent)"})
        if bound_only:
            uniq = sorted(set((c["cfg"], c["script"]) for c in bound_only))
            mins, err = batch(exe, env, "minbatch", uniq)
            if mins is None or len(mins) != len(uniq):
                v.violation({"kind": "harness", "correspondence": "SendReq driver (minimise)", "error": str(err)}, has_input=False)
                mins = []
            ncls = {}
            for (cfg, script), m in zip(uniq, mins):
                cls = classify_bound(m)
                ncls[cls] = ncls.get(cls, 0) + 1
                if ncls[cls] > 3:
                    continue
                v.violation({"kind": "property-oracle", "oracle": m["oracle"], "finding_class": cls,
                             "case": {"cfg": cfg, "script": script}, "minimised": {"cfg": m["cfg"], "script": m["script"]},
                             "implementation": {"events": m["events"][:2000], "result": m["result"], "total_sleep": m["total"], "errors_num": m["errs"]},
                             "model": "C10_bounded: attempts <= 10*replicas + replicas*(replicas-1); C10_bounded_general: attempts <= 10*replicas + re-arms",
                             "what": "attempt bound maxReplicaAttempt*replicas + re-arms (each replica re-armed at most replicas-1 times) exceeded by one SendReq call (C10_bounded)"})
            stats["bound_fail_classes"] = ncls
        # ---- model mismatches: correspondence broken; search neighbours for an oracle failure
        if mism and not other and not bound_only:
            m0 = mism[0]
            cfg, script = m0[0], m0[1]
            syms = [] if script == "-" else script.split(",")
            neigh = [(cfg, ",".join(syms[:k]) or "-") for k in range(len(syms))]
            for k in range(min(len(syms), 8)):
                for a in ALPHA:
                    neigh.append((cfg, ",".join(syms[:k] + [a] + syms[k + 1:])))
            nres, _ = batch(exe, env, "batch", neigh)
            bad = [c for c in (nres or []) if c["oracle"] != "pass" and not (set(k.split(":")[0] for k in c["oracle"][5:].split(";")) <= {"bound", "cap"})]
            if bad:
                c = bad[0]
                v.violation({"kind": "property-oracle", "oracle": c["oracle"], "case": {"cfg": c["cfg"], "script": c["script"]},
                             "implementation": {"events": c["events"], "result": c["result"]}, "finding_class": "flag-or-result-oracle/neighbour",
                             "what": "oracle failure found next to a model/implementation disagreement"})
            else:
                for m in mism[:3]:
                    v.violation({"kind": "correspondence", "correspondence": "SendReq model vs RegionRequestSender.SendReqCtx (theorems C10_bounded_general, C10_flags, C10_no_fabrication rest on this model)",
                                 "case": {"cfg": m[0], "script": m[1], "rands": m[2]}, "implementation": m[3], "model": m[4],
                                 "what": "model and implementation disagree on attempts/flags/back-offs/result; %d neighbours evaluated, no property-oracle failure" % len(neigh)}, has_input=False)
    for f in (priv if (okg and okm) else []):
        try:
            os.remove(f)
        except OSError:
            pass
    if tier == "thorough" and not proof_broken:
        okc, outc = vlib.coqchk(["Verif.SendReq.Props"])
        cov["coqchk"] = "ok" if okc else outc[-400:]
        if not okc:
            proof_broken = True
            gate["problems"].append("coqchk failed: " + outc[-400:])
    if proof_broken:
        v.violation({"kind": "proof", "theorem_or_file": gate["problems"], "what": "Coq obligations no longer check"}, has_input=False)
    LA = "4" if tier == "quick" else "5"
    cov.update(evaluations=nruns, distinct_nontrivial=stats.get("distinct", 0),
               rule="per run one SendReqCtx call; classes: A = 11 base configurations (5 read types, stale read, 5 write) x ALL scripts up to length %s over 18 outcomes (DFS, extended only while the run asks for more); B = 15 single-option deviations (labels, liveness, slow stores, busy threshold, short timeout, budgets 1/120 ms, leader-only, learner, failed validation) x ALL scripts up to length %s over 23 outcomes; D = 20 directed long scripts (hint ping-pong, outcome repeated 40x, mixed lassos) x base x budgets x threshold; E = every command type sent through SendReq (36 tikvrpc.CmdType values: txn, raw, cop, mvcc debug; request/response built by reflection) x 2-3 read types x (all scripts up to length 1 over 23 outcomes + replica exhaustion / unreachable stores / spent budget / region invalidated between locate and send); R = rarely produced answers (UndeterminedResult, RecoveryInProgress, IsWitness, FlashbackInProgress / NotPrepared, KeyNotInRegion, BucketVersionNotMatch, MismatchPeerId, RaftEntryTooLarge, RegionNotInitialized, ReadIndexNotReady, ProposalInMergingMode, 'invalid max_ts update', 'Deadline is exceeded' message) mixed with common ones: ALL scripts up to length 2/3 over 20 outcomes x base configurations x 5 option variants; also in the random scripts; S = sequences of 2 (thorough: also 3) SendReq calls on the SAME cached region with forwarding on (111 first-call scripts x 27 last-call scripts incl. long no-back-off repeats, read/write): each later call starts from the cache state the earlier ones left (memoised proxy, cached leader, store liveness / slow / epoch marks, load estimates), which is observed, reported in the configuration (ld, px, es, be, olv, osl; pre = the earlier scripts), given to the model as its initial state AND compared with the end-of-call cache state the model predicts for the previous call (run_st / end_cache); variants: forwarding on (read, write), forwarding off (read with busy threshold, write, mixed-type read); same oracles per call; H = caller cancellation / kill flag (before the call, while attempt 0..1 (thorough 0..2) is in flight, during back-off sleep 0 (thorough 0..1); every base configuration and non-interruptible Commit) x ALL scripts up to length 2/3; async = every case with a script up to length 2 (quick) / every case with a script up to length 4 (thorough) without cancellation is also sent through SendReqAsync (failpoint useSendReqAsync) and compared with the same model (cfg field c_async: only the kill check before the first attempt differs); G = request dimension StoreTp x endpoint type (TiFlash-served coprocessor reads on a region with a TiFlash peer, TiDB-served requests; validation passing/failing, plain/stale; oracle: a read whose ts failed validation is never sent unless StoreTp == TiDB); F = forwarding on (leader read/write x 6 liveness patterns x ALL scripts up to length 3/4: proxy selection, ForwardedHost, send failure through a proxy; model-compared); C = random configurations x random scripts of length 4..60 (incl. forwarding). Provenance of a result is decided by object identity with the responses the scripted stores returned. distinct = distinct (configuration, model trace, result) triples among model-compared runs" % (LA, "2" if tier == "quick" else "3"),
               samples=samples, traces_validated_against_impl=stats.get("cases", 0), input_distribution=counts,
               model_mismatches=len(mism), oracle_failures=len(ofails), bound_fail_classes=stats.get("bound_fail_classes", {}),
               rearmed_runs=stats.get("rearmed", 0), multi_attempt_runs=stats.get("multiattempt", 0),
               cache_state_predictions_compared=stats.get("cache_predictions", 0))
    rc = v.finish()
    vlib.write_evidence(PID, cov, t0, violations=len(v.violations), level="proof",
                        assumptions=["one TiKV region with 3 replicas in the correspondence runs (the theorems hold for any number)",
                                     "the bound relies on the re-arm limit of fix cb7d671 (finding F10): without it the lasso of C10_unbounded_before_fix retries forever",
                                     "write commands enter without StaleRead/ReplicaRead set; stale reads use the mixed read type (EnableStaleWithMixedReplicaRead)"])
    return rc
