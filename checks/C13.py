"""C13 — timestamps (oracle/oracles/pd.go, oracle/oracle.go, local.go, mock.go, KVTxn.GetTimestampForCommit).
Proof: coq/theories/Oracle/Props.v (arithmetic, expiry, commit-wait, the CAS transition system of
setLastTS / GetTimestamp, the ValidateReadTS + single-flight transition system).
Correspondence: Go driver (overlay root ov_oracle, internal/zz_verif/oracle) with a scripted pd.Client
vs the extracted models (ocaml/oracle): call-level differential (seq), deterministic concurrent
validator schedules incl. the stale single-flight one (sf), commit wait (cw), local oracle (lo),
arithmetic (ar); property oracles evaluated on the implementation's outputs in the OCaml driver and,
for the background-updater / CAS stress runs (bg, st, mo), in the Go driver itself (P lines)."""
import os, time, json, tempfile
import vlib
from vlib import Verdict

PID = "C13"
PROPS = [("theories/Oracle/Props.v", "Oracle.Props")]
AREAS = ["theories/Oracle"]
ROOTS = ("ov_oracle",)


def run_pipeline(exe, modelrun, env, replay_lines=None):
    if replay_lines is not None:
        fd, path = tempfile.mkstemp(prefix="c13replay", suffix=".txt")
        with os.fdopen(fd, "w") as fh:
            fh.write("\n".join(replay_lines) + "\n")
        rc, lines = vlib.sh([exe, "replay", path], env=env, timeout=300)
        os.unlink(path)
    else:
        rc, lines = vlib.sh([exe], env=env, timeout=1500)
    if rc != 0:
        return None, "driver failed rc=%d: %s" % (rc, lines[-800:])
    rc, cmp_out = vlib.sh([modelrun], inp=lines, timeout=1500)
    if rc != 0:
        return None, "modelrun failed: " + cmp_out[-800:]
    return (lines, cmp_out), None


def parse_cmp(cmp_out):
    stats, classes, mism, pfails, finds = {}, {}, [], [], []
    for l in cmp_out.splitlines():
        f = l.split("\t")
        if f[0] == "STATS":
            stats.update({kv.split("=")[0]: int(kv.split("=")[1]) for kv in f[1:]})
        elif f[0] == "COUNT":
            classes[f[1]] = int(f[2])
        elif f[0] == "MISMATCH":
            mism.append(f[1:])
        elif f[0] == "PROPFAIL":
            pfails.append(f[1:])
        elif f[0] == "OUTOFDOMAIN":
            finds.append(f[1:])
    return stats, classes, mism, pfails, finds


def case_of(fields):
    """the input lines of the failing case (last field 'case=...' with literal \\n separators)"""
    for x in fields:
        if x.startswith("case="):
            return x[5:].split("\\n")
    # fields after case= may have been split on tabs: rejoin
    j = [k for k, x in enumerate(fields) if x.startswith("case=")]
    return []


def join_case(fields):
    k = [i for i, x in enumerate(fields) if x.startswith("case=")]
    if not k:
        return []
    txt = "\t".join(fields[k[0]:])[5:]
    return txt.split("\\n")


def main(tier, replay):
    t0 = time.time()
    v = Verdict(PID)
    cov = {"checker_cmd": "coq/mk.sh theories/Oracle/Props.vo (coqc 8.16.1, full .vo build) + Print Assumptions per theorem",
           "trusted_base": vlib.TRUSTED_BASE + [
               "modelled: uint64/int64 wrap-around as explicit mod 2^64 arithmetic; sync/atomic Load/CompareAndSwap, sync.Map Load/LoadOrStore and singleflight.DoChan as atomic steps of the transition systems (sequentially consistent)",
               "assumed (explicit hypothesis of C13_passthrough / C13_validate_*): PD hands out strictly increasing timestamps",
               "CAS-level and single-flight interleavings are covered by the theorems only; the driver drives call-level and blocking-point schedules (scripted pd.Client, gated GetTS) and runs race-free concurrent stress whose monitor is the proved invariant"]}
    gate = vlib.coq_gate(PID, AREAS, PROPS)
    cov.update(obligations=gate["obligations"], discharged=gate["discharged"], theorems=gate["theorems"],
               axioms={k: a for k, a in gate["axioms"].items() if a})
    proof_broken = not gate["ok"]
    env = vlib.goenv(); env["VERIF_SEED"] = str(vlib.SEED); env["VERIF_TIER"] = tier
    okm, modelrun = vlib.build_model("Oracle")
    okg, exe = vlib.go_build("oracle", roots=ROOTS)
    stats, classes, samples, mism, pfails, finds = {}, {}, [], [], [], []
    if okg and okm:
        rl = None
        if replay:
            rl = json.load(open(replay)).get("case")
        res, err = run_pipeline(exe, modelrun, env, rl)
        if err:
            v.violation({"kind": "harness", "correspondence": "Oracle driver", "error": err}, has_input=False)
        else:
            lines, cmp_out = res
            stats, classes, mism, pfails, finds = parse_cmp(cmp_out)
            ll = [l for l in lines.splitlines() if l]
            samples = [ll[i] for i in range(0, len(ll), max(1, len(ll) // 8))][:8]
            if stats.get("lines", 0) == 0:
                v.violation({"kind": "harness", "correspondence": "Oracle driver", "error": "driver produced no cases"}, has_input=False)
    else:
        why = (exe if not okg else modelrun)
        v.violation({"kind": "harness-build", "correspondence": "Oracle driver/model build against the current tree", "error": why}, has_input=False)
    # property-oracle failures on the implementation: concrete failing inputs
    seen = set()
    for pf in pfails:
        name = pf[0]
        if name in seen or len(seen) >= 5:
            continue
        seen.add(name)
        v.violation({"kind": "property-oracle", "oracle": name, "line": pf[1] if len(pf) > 1 else "", "detail": pf[2] if len(pf) > 2 else "",
                     "case": join_case(pf), "what": "property oracle %s failed on the implementation" % name})
    # TTL >= 2^62 is outside the property's input domain (guard of C13_expiry_consistent): the wide-TTL
    # inputs are an informational class — differential against the model (which has the same wrap-around)
    # still applies, the consistency oracle does not; the count goes to the evidence, never a verdict.
    if mism and not pfails:
        for m in mism[:3]:
            v.violation({"kind": "correspondence", "correspondence": "Oracle model vs oracle/oracles, oracle, txnkv/transaction", "line": m[0],
                         "model": m[1] if len(m) > 1 else "", "case": join_case(m),
                         "what": "model and implementation disagree; no property-oracle failure among %d oracle evaluations" % stats.get("props", 0)}, has_input=False)
    if proof_broken:
        v.violation({"kind": "proof", "theorem_or_file": gate["problems"], "what": "Coq obligations no longer check"}, has_input=False)
    if tier == "thorough" and okg and okm:
        # supporting evidence: the concurrent classes (sf, bg, st) once more under the race detector;
        # the monitors are the proved invariants, a data race in pd.go's paths fails the run
        okr, exer = vlib.go_build("oracle_race", pkg="./internal/zz_verif/oracle", roots=ROOTS, race=True)
        if not okr:
            cov["race_run"] = "race build unavailable: " + exer[-200:]
        else:
            envr = dict(env); envr["VERIF_C13_ONLY"] = "conc"; envr["VERIF_TIER"] = "quick"; envr["GORACE"] = "halt_on_error=0 exitcode=66"
            rcr, outr = vlib.sh([exer], env=envr, timeout=900)
            races = outr.count("WARNING: DATA RACE")
            lines_r = "\n".join(l for l in outr.splitlines() if l.startswith(("sf\t", "P\t", "bg\t", "st\t", "fs\t", "rf\t")))
            rc2, cmp2 = vlib.sh([modelrun], inp=lines_r + "\n", timeout=600)
            st2, _, mism2, pf2, _ = parse_cmp(cmp2)
            cov["race_run"] = {"data_races": races, "exit": rcr, "lines": st2.get("lines", 0), "oracle_failures": len(pf2), "model_mismatches": len(mism2)}
            if races or rcr != 0 or pf2 or mism2:
                i0 = outr.find("WARNING: DATA RACE")
                v.violation({"kind": "race-run", "correspondence": "concurrent classes under go build -race",
                             "what": "data race / monitor failure in the -race run", "detail": (outr[i0:i0 + 1500] if i0 >= 0 else str((pf2 + mism2)[:2]))}, has_input=False)
    if tier == "thorough" and not proof_broken:
        okc, outc = vlib.coqchk(["Verif.Oracle.Props"])
        cov["coqchk"] = "ok" if okc else outc[-300:]
        if not okc:
            v.violation({"kind": "proof", "theorem_or_file": "coqchk Verif.Oracle.Props", "what": outc[-500:]}, has_input=False)
    cov.update(evaluations=stats.get("lines", 0) + stats.get("props", 0),
               distinct_nontrivial=stats.get("distinct", 0),
               rule="seeded generators: (ar) ComposeTS/Extract/GetTimeFromTS.Sub/GoTimeToTS on boundary and random values incl. consecutive pairs; "
                    "(seq) op sequences G/A/W(reordered waits)/L/LA/X/V/S/I over 4 scopes with a scripted PD (errors, reordered future waits, validation on/off, "
                    "reads around issued / about-to-be-issued ts and the MaxInt64/MaxUint64 sentinels, TTLs around the expiry boundary and around 2^62/2^63); "
                    "(sf) concurrent ValidateReadTS schedules with a gated PD (value assigned on entry = stale flights, or on release), env issues, publishes, cancels, PD failures; "
                    "(cw) GetTimestampForCommit scripts around the bound with timeouts 0..1s; (lo) local oracle with a fixed clock; (bg/st/mo) concurrent runs with property monitors. "
                    "distinct = distinct (class, input, result) step lines of the deterministic classes",
               samples=samples, traces_validated_against_impl=stats.get("cases", 0),
               input_distribution=classes, model_mismatches=len(mism), oracle_failures=len(pfails),
               out_of_domain_wide_ttl_inconsistencies=stats.get('findings', 0), oracle_evaluations=stats.get("props", 0))
    rc = v.finish()
    vlib.write_evidence(PID, cov, t0, violations=len(v.violations), level="proof",
                        assumptions=["PD hands out strictly increasing timestamps (section hypothesis pd_strict)",
                                     "atomic operations are sequentially consistent; one txn scope per transition system (scopes are independent map entries / single-flight keys)",
                                     "timestamps have physical part < 2^45 ms for ComposeTS round trip; TTL < 2^62 for expiry consistency"])
    return rc
