"""C18 — batched RPC multiplexing returns each caller its own response, exactly once.
Partial by nature:
  * proof (coq/theories/BatchRPC/Props.v): the in-flight table / id source / completion channel as a transition
    system, theorems over all runs;
  * exploration (this file + harness/go/ov_batchrpc + ocaml/batchrpc): the real RPCClient against an in-process
    echoing gRPC server under seeded workloads and faults; extracted monitor predicates on every call
    (identity, exactly-once, bounded by 20x the time-out, no panic) and, for single-connection scenarios, trace
    inclusion of the white-box event trace (client-side stream interceptor + table snapshots) in the model."""
import os, time, json, re
import vlib
from vlib import Verdict

PID = "C18"
PROPS = [("theories/BatchRPC/Props.v", "BatchRPC.Props")]
AREAS = ["theories/BatchRPC"]
ROOTS = ("ov_batchrpc",)

THEOREM_OF = {
    "ids_fresh": "C18_ids_computed / C18_ids_fresh", "own_response": "C18_own_response / C18_dispatch_by_id",
    "exactly_once": "C18_exactly_once", "fail_pending": "C18_fail_pending_total",
    "table": "C18_exactly_once (entry leaves the table when completed) / correspondence of `batched`",
    "no_panic": "C18_exactly_once (at most one completion per channel: no send on / close of a closed channel)",
    "bounded_by_timeout": "never blocking beyond its time-out (runtime; explored, not proved)",
    "canceled_never_delivered": "C18_canceled_never_delivered",
    "builder": "C18_build_round / C18_round_nothing_lost / C18_canceled_before_build (buildWithLimit round: fetched entries only, priorities, consecutive ids, cancelled skipped, nothing popped is lost, nothing left behind with an unbounded limit)",
    "own_error": "C18_own_error / C18_collapse_follower_result (an error is the call's own: time-out / cancellation of ITS context)",
    "runloop": "C18_runloop_fifo_once (every appended callback runs exactly once, in order)",
    "priority": "model function gate_priority of Gate.v (Remark gate_priority_spec; the priority an entry is queued with is the one the wrapper model predicts)",
    "gate": "C18_gate_wrapped_call (request / response gate of the resource-control wrapper)",
    "interceptor_once": "model function icpt_runs of Gate.v (Remark icpt_runs_spec): predicted number of RPC interceptor runs per call",
    "harness": "harness",
}


def split_scenarios(lines):
    scs, cur = {}, None
    for l in lines.splitlines():
        f = l.split("\t")
        if f[0] == "SC" and len(f) >= 3:
            cur = f[1]
            scs[cur] = {"spec": f[2], "events": []}
        elif cur is not None:
            scs[cur]["events"].append(l)
    return scs


def run_driver(exe, modelrun, env, replay_spec=None):
    if replay_spec is not None:
        p = os.path.join(vlib.BUILD, "c18-replay-spec.json")
        with open(p, "w") as fh:
            fh.write(replay_spec)
        rc, lines = vlib.sh([exe, "replay", p], env=env, timeout=900)
    else:
        rc, lines = vlib.sh([exe], env=env, timeout=2400)
    if rc != 0:
        return None, "driver failed rc=%d: %s" % (rc, lines[-1500:])
    rc, res = vlib.sh([modelrun], inp=lines, timeout=1200)
    if rc != 0:
        return None, "modelrun failed: " + res[-800:]
    return (lines, res), None


def main(tier, replay):
    t0 = time.time()
    v = Verdict(PID)
    cov = {"checker_cmd": "coq/mk.sh theories/BatchRPC/Props.vo (coqc 8.16.1, full .vo build) + Print Assumptions per theorem",
           "trusted_base": vlib.TRUSTED_BASE + [
               "modelled, not verified: atomicity of each labelled step (send's Store..Send..failRequestsByIDs under the tryLock; Load/deliver/Delete of batchRecvLoop split in two steps), sync.Map, Go channels (buffer 1) as a list of completion events",
               "environment assumptions made explicit as step guards: the server answers an id on the stream it was sent on, with the payload it received under that id; a batch whose Send failed is not being dispatched at that moment",
               "event order of the white-box trace = order of one mutex-protected log fed by the callers, a gRPC stream interceptor and read-only table snapshots (zz_verif_export_batchrpc.go)"]}
    gate = vlib.coq_gate(PID, AREAS, PROPS)
    cov.update(obligations=gate["obligations"], discharged=gate["discharged"], theorems=gate["theorems"],
               axioms={k: a for k, a in gate["axioms"].items() if a})
    proof_broken = not gate["ok"]
    if tier == "thorough" and gate["ok"]:
        okc, outc = vlib.coqchk(["Verif.BatchRPC.Props"])
        cov["coqchk"] = "ok" if okc else outc[-300:]
        if not okc:
            proof_broken = True
            gate["problems"].append("coqchk: " + outc[-300:])
    env = vlib.goenv(); env["VERIF_SEED"] = str(vlib.SEED); env["VERIF_TIER"] = tier
    env["VERIF_C18_CORPUS"] = os.path.join(vlib.VERIF, "corpus", "C18")  # directed regression scenarios, run first
    okm, modelrun = vlib.build_model("BatchRPC")
    okg, exe = vlib.go_build("batchrpc", roots=ROOTS)
    stats, samples, oracle_fails, rejects, accepted = {}, [], [], [], 0
    if okg and okm:
        spec = None
        if replay:
            ro = json.load(open(replay))
            spec = ro.get("scenario")
            if isinstance(spec, dict):
                spec = json.dumps(spec)
        res, err = run_driver(exe, modelrun, env, spec)
        if err:
            v.violation({"kind": "harness", "correspondence": "BatchRPC driver", "error": err}, has_input=False)
        else:
            lines, out = res
            scs = split_scenarios(lines)
            for l in out.splitlines():
                f = l.split("\t")
                if f[0] == "STATS":
                    for kv in f[1:]:
                        k, _, val = kv.rpartition("=")
                        stats[k] = int(val)
                elif f[0] == "ORACLE":
                    oracle_fails.append(f[1:])
                elif f[0] == "REJECT":
                    rejects.append(f[1:])
                elif f[0] == "ACCEPT":
                    accepted += 1
            ids = sorted(scs, key=lambda x: int(x))
            for i in ids[:: max(1, len(ids) // 4)][:4]:
                samples.append({"scenario": json.loads(scs[i]["spec"]), "first_events": scs[i]["events"][:12], "events": len(scs[i]["events"])})
            seen = set()
            for f in oracle_fails:
                sc, name, detail = f[0], f[1], f[2] if len(f) > 2 else ""
                if (sc, name) in seen or len(seen) >= 5:
                    continue
                seen.add((sc, name))
                o = scs.get(sc, {"spec": "{}", "events": []})
                v.violation({"kind": "property-oracle", "oracle": name, "theorem": THEOREM_OF.get(name, name), "what": detail,
                             "scenario": json.loads(o["spec"]), "trace": o["events"][:4000],
                             "violated": "monitor predicate %s evaluated on the implementation's observed calls" % name},
                            has_input=(name != "harness"))
            for f in rejects:
                sc, name, evno, reason, event = (f + ["", "", "", "", ""])[:5]
                if (sc, "rej") in seen or len(seen) >= 5:
                    continue
                seen.add((sc, "rej"))
                o = scs.get(sc, {"spec": "{}", "events": []})
                v.violation({"kind": "trace-inclusion", "oracle": name, "theorem": THEOREM_OF.get(name, name), "what": reason,
                             "failing_event_index": evno, "failing_event": event,
                             "scenario": json.loads(o["spec"]), "trace": o["events"][:4000],
                             "violated": "the implementation's white-box trace is not a run of the BatchRPC model: " + reason})
    else:
        why = (exe if not okg else modelrun)
        v.violation({"kind": "harness-build", "correspondence": "BatchRPC driver/model build against the current tree", "error": why}, has_input=False)
    if proof_broken:
        v.violation({"kind": "proof", "theorem_or_file": gate["problems"], "what": "Coq obligations no longer check"}, has_input=False)
    classes = {k[6:]: n for k, n in stats.items() if k.startswith("class:")}
    cov.update(evaluations=stats.get("calls", 0) + stats.get("scenarios", 0),
               distinct_nontrivial=stats.get("distinct", 0),
               rule="seeded scenarios of direct differential of util/async.RunLoop on random re-entrant / concurrent Append scripts + directed scenarios from corpus/C18 + 24 classes (plain / forward / streamfail / cancel / close / staleepoch / multiconn / rebreak / sendpanic / staleasync / builder / recvpanic / failpanic / twopools / nonbatch / asyncclose / limitbatch / limitstarve / runloop (shared RunLoop, busy callbacks) / idle (idle timer fired through an export hook, recycling) / mixedexit (mixed sync + no-deadline async entries queued in batchCommandsCh, sync ones ahead, when the send loop exits on Close / CloseAddr / idle timer) / regen (CloseAddr two or three times during traffic: every generation of the pool replayed as its own core instance) / rcglue (NewInterceptedClient with a scripted resource-group controller: group priorities vs override, failing OnRequestWait / OnResponseWait, background group, RPC interceptors on the context) / collapse (request pairs equal or differing in exactly one component — TxnInfos, Keys, region — overlapping in time through the sync and async entry; ResolveLock through NewReqCollapse(NewInterceptedClient(..)), leader cancelled); MaxConcurrencyRequestLimit in {default,1,2,3,..} incl. whole batches of mixed priorities / cancelled entries built at once through the repo failpoint mockBatchClientSendDelay, second Take rounds): 1..72 concurrent callers, "
                    "4 request types, priorities 0..16, 1..5 forwarded hosts, 1..4 connections, concurrency limit, batch policies, server side delay / reorder / "
                    "duplicate / unknown-id / never-answered responses, stream kills, server restarts, injected Send/Recv/stream-creation failures, cancellation, "
                    "time-outs, client / address close during traffic, sync calls with 30 s time-outs and SendRequestAsync calls without deadline (must complete in the drain phase), "
                    "repeated breaks of one stream (first idle, later with requests pending), send-loop panics (repo failpoint) with slow requests in flight; distinct = distinct event-kind sequences of scenarios with >= 2 callers (measured)",
               samples=samples, traces_validated_against_impl=accepted, model_steps=stats.get("model_steps", 0),
               input_distribution=classes, calls=stats.get("calls", 0), scenarios=stats.get("scenarios", 0),
               blackbox_only_scenarios=stats.get("blackbox_only", 0),
               returns={k[4:]: n for k, n in stats.items() if k.startswith("ret:")},
               model_step_histogram={k[5:]: n for k, n in stats.items() if k.startswith("step:")},
               outdated_responses=stats.get("outdated", 0),
               runloop_scripts_compared=stats.get("runloop_scripts", 0),
               builder_rounds_compared=stats.get("rounds", 0), table_snapshots_compared=stats.get("table_checks", 0),
               pool_generations_replayed=stats.get("pool_generations_replayed", 0),
               recv_loop_panics_replayed=stats.get("recv_panics_expected", 0) + stats.get("step:FailPanic", 0),
               oracle_failures=len(oracle_fails), trace_rejections=len(rejects),
               partial="proof covers the in-flight table logic; gRPC, goroutine scheduling and timers are explored on the implementation only")
    rc = v.finish()
    vlib.write_evidence(PID, cov, t0, violations=len(v.violations), level="proof",
                        assumptions=["each labelled model step is atomic (see trusted_base)",
                                     "echo server: response to id carries the payload received under id, on the same stream",
                                     "time-outs are checked with a 20x + 2 s margin only; a caller that never returns is reported by a watchdog at 25x + 5 s"])
    return rc
