#!/usr/bin/env python3
"""usage: seedtool.py <PID> <k> [check ids...]  — confirms a seeded change produced by an independent agent
(/tmp/seed/<PID>/out/<k>/{patch.diff,run.sh,meta.json,...}) in its scratch worktree /tmp/seed/<PID>/wt:
clean tree -> demo passes; patched -> builds, demo fails; then runs ./check against the patched worktree
(VERIF_REPO) and stores everything under /verif/seeded/<PID>-<k>/."""
import sys, os, json, subprocess, shutil, time
pid, k = sys.argv[1], sys.argv[2]
checks = sys.argv[3:] or [pid]
root = os.environ.get("SEED_ROOT", "/tmp/seed")
koff = int(os.environ.get("SEED_KOFF", "0"))
wt = f"{root}/{pid}/wt"
out = f"{root}/{pid}/out/{k}"
env = dict(os.environ, GOFLAGS="-mod=mod", GOPROXY="off")
def sh(cmd, cwd=wt, timeout=1200):
    p = subprocess.run(cmd, shell=True, cwd=cwd, env=env, stdout=subprocess.PIPE, stderr=subprocess.STDOUT, text=True, errors="replace", timeout=timeout)
    return p.returncode, p.stdout
def clean():
    sh("git checkout -- . && git clean -fdq")
clean()
res = {"ran": []}
rc0, o0 = sh(f"bash {out}/run.sh", timeout=900)
res["demo_clean_rc"] = rc0
rc, o = sh(f"git apply {out}/patch.diff")
res["apply_rc"] = rc
rcb, ob = sh("go build ./...")
res["build_rc"] = rcb
rc1, o1 = sh(f"bash {out}/run.sh", timeout=900)
res["demo_patched_rc"] = rc1
files = sh("git diff --name-only")[1].split()
pkgs = sorted({"./" + os.path.dirname(f) + "/" for f in files if f.endswith(".go")})
res["touched"] = files
rct, ot = sh("go test -count=1 -vet=off " + " ".join(pkgs), timeout=1500)
res["pkg_tests_rc"] = rct
res["pkg_tests_tail"] = "\n".join(ot.splitlines()[-6:])
confirmed = rc0 == 0 and rc == 0 and rcb == 0 and rc1 != 0 and rct == 0
res["confirmed"] = confirmed
det = {}
for c in checks:
    t0 = time.time()
    p = subprocess.run(["./check", c, "--tier", "quick"], cwd="/verif", env=dict(os.environ, VERIF_REPO=wt, VERIF_BUILD=f"/verif/build/seed-{pid}"), stdout=subprocess.PIPE, stderr=subprocess.STDOUT, text=True, errors="replace", timeout=3000)
    lines = [l for l in p.stdout.splitlines() if l.startswith("VIOLATION") or l.startswith("KNOWN-FINDING")]
    det[c] = {"rc": p.returncode, "lines": lines[:6], "wall_s": round(time.time() - t0, 1)}
    # replay summary of the first violation
    for l in lines:
        if l.startswith("VIOLATION") and "replay=" in l:
            rp = l.split("replay=")[1].split()[0]
            try:
                r = json.load(open(rp))
                det[c]["first_replay"] = {kk: (str(v)[:300]) for kk, v in r.items() if kk in ("kind", "violated", "what", "oracle", "rule", "finding_class", "case", "correspondence")}
            except Exception as ex:
                det[c]["first_replay"] = str(ex)
            break
res["checks"] = det
clean()
shutil.rmtree(f"/verif/build/seed-{pid}", ignore_errors=True)
dst = f"/verif/seeded/{pid}-{int(k) + koff}"
if os.path.exists(dst):
    shutil.rmtree(dst)
shutil.copytree(out, dst)
meta = {}
try:
    meta = json.load(open(os.path.join(dst, "meta.json")))
except Exception:
    pass
meta["verification"] = res
meta["property"] = pid
json.dump(meta, open(os.path.join(dst, "meta.json"), "w"), indent=1)
print(json.dumps({"id": f"{pid}-{k}", "confirmed": confirmed, "demo": [rc0, rc1], "tests": rct, "checks": {c: (d["rc"], d["lines"][:2]) for c, d in det.items()}}, indent=1))
