#!/usr/bin/env python3
"""Regenerates MANIFEST.json from lib/manifest_table.json (one entry per claimed property)."""
import json, os
here = os.path.dirname(os.path.dirname(os.path.abspath(__file__)))
tab = json.load(open(os.path.join(here, "lib", "manifest_table.json")))
tab["checks"] = {}
import glob
for f in sorted(glob.glob(os.path.join(here, "lib", "manifest.d", "C*.json"))):
    tab["checks"][os.path.basename(f)[:-5]] = json.load(open(f))
props = [json.loads(l)["id"] for l in open(os.path.join(here, "properties.jsonl"))]
def design_ref(pid):
    refs = [f"DESIGN.md §7 ({pid})", f"docs/{pid}.md"]
    if pid in ("C01", "C02", "C03", "C04", "C06"):
        refs.append("docs/TXN.md (transactional harness)")
    if pid in ("C02", "C03", "C04"):
        refs.append("docs/PERC_EVENTS.md (trace vocabulary, acceptor rules)")
    return ", ".join(refs)


checks, na = [], []
for pid in props:
    e = tab["checks"].get(pid)
    if not e:
        na.append({"property_id": pid, "reason": tab["not_applicable"].get(pid, "check not built yet in this round; see DESIGN.md")})
        continue
    checks.append({
        "property_id": pid,
        "quick_cmd": f"./check {pid} --tier quick",
        "thorough_cmd": f"./check {pid} --tier thorough",
        "evidence_file": f"/verif/evidence/{pid}.json",
        "replay_cmd_template": f"./check {pid} --replay {{path}}",
        "engine": e.get("engine", "coq+correspondence"),
        # the reference is generated, not taken from the fragment: DESIGN.md §7 has the per-property paragraph, docs/<ID>.md the detail
        "level_claimed": {"category": e.get("category", "proof"), "text": e["text"], "design_ref": design_ref(pid)},
        "level_note": e["note"],
        "technique": e.get("technique", "machine-checked proof in Coq 8.16 (theorems over a Gallina model) + correspondence check model vs implementation"),
    })
m = {
    "version": 1,
    "setup_cmd": "./setup.sh",
    "hooks": {
        "guard": "verif",
        "enable": "go build -tags verif -overlay build/overlay-*.json (virtual files from /verif/harness/go/overlay and the per-area roots /verif/harness/go/ov_* mapped into /repo at build time; every such file carries //go:build verif; nothing is committed to /repo)",
        "baseline_off_cmd": "for m in . integration_tests; do (cd /repo/$m && GOFLAGS=-mod=mod GOPROXY=off go test -json -vet=off -count=1 -timeout 25m ./...); done",
        "source_commits": tab.get("hook_commits", []),
        "add_only": True,
    },
    "engines": [dict(e, serves_properties=sorted(tab["checks"])) for e in tab.get("engines", [])],
    "checks": checks,
    "notes": tab.get("notes", ""),
    "not_applicable": na,
}
json.dump(m, open(os.path.join(here, "MANIFEST.json"), "w"), indent=1)
print("claimed:", [c["property_id"] for c in checks], "not claimed:", [n["property_id"] for n in na])
