#!/usr/bin/env python3
"""usage: reseed.py [<PID>-<k> ...]   — re-verifies stored seeded changes (/verif/seeded/<PID>-<k>) against /repo's
current HEAD and the current checks: scratch worktree under /tmp/reseed/<PID>/wt, patch applied (3-way fallback), demo
run, the property's own check (and the extra checks named in meta.json "also") run with VERIF_REPO, result written to
meta.json["reverify"]. Worktrees are removed afterwards. Seeds whose patch no longer applies (the code was repaired
underneath) are reported as `stale`."""
import sys, os, json, subprocess, shutil, time

ROOT = f"/tmp/reseed-{os.getpid()}"
env = dict(os.environ, GOFLAGS="-mod=mod", GOPROXY="off")


def sh(cmd, cwd, timeout=1800):
    p = subprocess.run(cmd, shell=True, cwd=cwd, env=env, stdout=subprocess.PIPE, stderr=subprocess.STDOUT, text=True, errors="replace", timeout=timeout)
    return p.returncode, p.stdout


def one(sid):
    pid, k = sid.split("-")
    src = f"/verif/seeded/{sid}"
    wt = f"{ROOT}/{sid}/wt"
    os.makedirs(f"{ROOT}/{sid}", exist_ok=True)
    if os.path.exists(wt):
        sh(f"git -C /repo worktree remove --force {wt}", "/")
    rc, o = sh(f"git -C /repo worktree add -q --detach {wt} HEAD", "/")
    res = {"head": sh("git -C /repo log --format=%h -1", "/")[1].strip(), "at": time.strftime("%Y-%m-%dT%H:%M:%SZ", time.gmtime())}
    try:
        meta = json.load(open(f"{src}/meta.json"))
    except Exception:
        meta = {}
    try:
        rc0, _ = sh(f"bash {src}/run.sh", wt, 900)
        res["demo_clean_rc"] = rc0
        # the code under a stored change may have moved since it was written (later fix: commits): plain apply; else 3-way,
        # else GNU patch with fuzz (context lines changed by a later fix) — then the stored patch.diff is refreshed with the
        # rebased diff (original kept as patch.orig.diff) so that `git apply` works on the current tree; only if all fail the
        # change is reported as stale
        rc, o = sh(f"git apply {src}/patch.diff", wt)
        if rc != 0:
            rc, o = sh(f"(git apply -3 {src}/patch.diff && ! git diff --name-only --diff-filter=U | grep -q .) || (git reset -q --hard HEAD && patch -p1 -F3 -s --no-backup-if-mismatch < {src}/patch.diff)", wt)
            if rc == 0:
                sh("git reset -q", wt)
                rcd, diff = sh("git diff", wt)
                if rcd == 0 and diff.strip():
                    if not os.path.exists(f"{src}/patch.orig.diff"):
                        shutil.copy(f"{src}/patch.diff", f"{src}/patch.orig.diff")
                    open(f"{src}/patch.diff", "w").write(diff)
                    res["patch_rebased"] = True
        if rc != 0:
            res["status"] = "stale: patch no longer applies (" + o.strip().splitlines()[-1][:120] + ")"
            return res
        rcb, ob = sh("go build ./...", wt)
        res["build_rc"] = rcb
        rc1, _ = sh(f"bash {src}/run.sh", wt, 900)
        res["demo_patched_rc"] = rc1
        checks = [pid] + [c for c in meta.get("also", []) if c != pid]
        det = {}
        for c in checks:
            t0 = time.time()
            p = subprocess.run(["./check", c, "--tier", "quick"], cwd="/verif", env=dict(os.environ, VERIF_REPO=wt, VERIF_BUILD=f"/verif/build/reseed-{sid}"),
                               stdout=subprocess.PIPE, stderr=subprocess.STDOUT, text=True, errors="replace", timeout=3000)
            lines = [l for l in p.stdout.splitlines() if l.startswith("VIOLATION") or l.startswith("KNOWN-FINDING")]
            det[c] = {"rc": p.returncode, "violations": len([l for l in lines if l.startswith("VIOLATION")]),
                      "with_failing_input": len([l for l in lines if l.startswith("VIOLATION") and "no-failing-input-found" not in l]),
                      "wall_s": round(time.time() - t0, 1)}
        res["checks"] = det
        res["caught_by_own_check"] = det.get(pid, {}).get("rc") == 1
        res["caught"] = any(d["rc"] == 1 for d in det.values())
        res["status"] = "caught" if res["caught"] else "MISSED"
        if rc1 == 0:
            res["status"] += " (demo no longer fails: change is harmless on this tree)"
    finally:
        sh(f"git -C /repo worktree remove --force {wt}", "/")
        shutil.rmtree(f"{ROOT}/{sid}", ignore_errors=True)
        shutil.rmtree(f"/verif/build/reseed-{sid}", ignore_errors=True)
    return res


def main():
    ids = sys.argv[1:] or sorted(os.listdir("/verif/seeded"))
    out = {}
    for sid in ids:
        if not os.path.isdir(f"/verif/seeded/{sid}"):
            continue
        r = one(sid)
        out[sid] = r
        mp = f"/verif/seeded/{sid}/meta.json"
        try:
            meta = json.load(open(mp))
        except Exception:
            meta = {}
        meta["reverify"] = r
        json.dump(meta, open(mp, "w"), indent=1)
        print(sid, r.get("status"), {c: (d["rc"], d["with_failing_input"]) for c, d in (r.get("checks") or {}).items()}, flush=True)
    shutil.rmtree(ROOT, ignore_errors=True)


if __name__ == "__main__":
    main()
