"""Shared machinery for the transactional checks (C01–C04, C06): builds the `txn` driver from the current
tree (module integration_tests, overlay root ov_txn), runs scenarios in parallel, audits the MVCC truth,
projects traces to the Percolator event vocabulary (docs/PERC_EVENTS.md)."""
import json, os, subprocess, tempfile, random, itertools, time, shutil
import vlib

MAXTS = (1 << 64) - 1


def build_driver():
    return vlib.go_build("txn", pkg="./zz_verif_txn", module_dir=os.path.join(vlib.REPO, "integration_tests"),
                         roots=("ov_txn",), timeout=1800)


def run_scenarios(exe, scenarios, jobs=14, timeout=1500, _retry=True):
    """returns list of result dicts (same order as scenarios; missing => {'id':..,'fatal':'no result'})"""
    if not scenarios:
        return []
    d = tempfile.mkdtemp(prefix="txnlab-", dir=vlib.BUILD)
    jobs = max(1, min(jobs, len(scenarios)))
    chunks = [scenarios[i::jobs] for i in range(jobs)]
    procs = []
    for i, ch in enumerate(chunks):
        inp = os.path.join(d, f"in{i}.jsonl")
        with open(inp, "w") as fh:
            for sc in ch:
                fh.write(json.dumps(sc) + "\n")
        outp = os.path.join(d, f"out{i}.jsonl")
        env = vlib.goenv()
        env["TMPDIR"] = d
        p = subprocess.Popen([exe, outp], stdin=open(inp), stdout=subprocess.DEVNULL, stderr=subprocess.DEVNULL, env=env)
        procs.append((p, outp))
    t0 = time.time()
    res = {}
    for p, outp in procs:
        try:
            p.wait(timeout=max(1, timeout - (time.time() - t0)))
        except subprocess.TimeoutExpired:
            p.kill()
        if os.path.exists(outp):
            for line in open(outp):
                try:
                    r = json.loads(line)
                    res[r["id"]] = r
                except Exception:
                    pass
    # scenarios without a result: the driver process died (a FATAL log or panic inside the client kills it together
    # with the rest of its chunk) or timed out. Re-run each of them alone to isolate the culprit.
    missing = [sc for sc in scenarios if sc["id"] not in res]
    if missing and _retry:
        from concurrent.futures import ThreadPoolExecutor
        def alone(sc):
            inp = os.path.join(d, f"alone-{abs(hash(sc['id']))}.jsonl")
            outp = inp + ".out"
            with open(inp, "w") as fh:
                fh.write(json.dumps(sc) + "\n")
            env = vlib.goenv(); env["TMPDIR"] = d
            try:
                p = subprocess.run([exe, outp], stdin=open(inp), stdout=subprocess.PIPE, stderr=subprocess.STDOUT, env=env, timeout=120, text=True, errors="replace")
                rc, out = p.returncode, p.stdout
            except subprocess.TimeoutExpired as ex:
                rc, out = 124, (ex.stdout or b"").decode(errors="replace") if isinstance(ex.stdout, bytes) else (ex.stdout or "")
            if os.path.exists(outp):
                for line in open(outp):
                    try:
                        return json.loads(line)
                    except Exception:
                        pass
            tail = [l for l in out.splitlines() if "FATAL" in l or l.startswith("panic") or "fatal error" in l][-2:] or out.splitlines()[-2:]
            return {"id": sc["id"], "fatal": "driver process died while executing this scenario (exit %s): %s" % (rc, " | ".join(t[:400] for t in tail)), "died": True}
        with ThreadPoolExecutor(max_workers=max(1, min(jobs, len(missing)))) as ex:
            for sc, r in zip(missing, ex.map(alone, missing)):
                res[sc["id"]] = r
    shutil.rmtree(d, ignore_errors=True)
    if _retry:
        envfail = [sc for sc in scenarios if any(t in str(res.get(sc["id"], {}).get("fatal", "")) for t in ("no space left", "preallocate", "too many open files", "cannot allocate memory"))]
        if envfail and len(envfail) <= 200:
            time.sleep(2)
            for sc, r in zip(envfail, run_scenarios(exe, envfail, jobs=2, timeout=600, _retry=False)):
                res[sc["id"]] = r
    return [res.get(sc["id"], {"id": sc["id"], "fatal": "no result (driver died or timed out)"}) for sc in scenarios]


# ------------------------------------------------------------------ scenario shapes
def expected_mutations(spec):
    """the property's table: buffer entry -> prewrite operation. Returns {key: op} with op in put/del/ins/cne/lock/none"""
    st = {}
    for op in spec["ops"]:
        k = op["k"]
        cur = st.get(k, {"val": None, "presume": False, "locked": False})
        o = op["op"]
        if o == "set":
            cur["val"] = "put"
        elif o == "del":
            cur["val"] = "del"
        elif o == "insert":
            cur["val"] = "put"; cur["presume"] = True
        elif o == "insdel":
            cur["val"] = "del"; cur["presume"] = True
        elif o in ("lockonly", "plock"):
            cur["locked"] = True
        if spec.get("pessimistic") and o in ("set", "del", "insert", "insdel", "plock", "lockonly"):
            cur["locked"] = True
        st[k] = cur
    muts = {}
    for k, c in st.items():
        if c["val"] == "put":
            muts[k] = "ins" if c["presume"] else "put"
        elif c["val"] == "del":
            if c["presume"]:
                # optimistic insert-then-delete: non-locking existence check; pessimistic: only the lock conversion
                muts[k] = "lock" if spec.get("pessimistic") else "cne"
            else:
                muts[k] = "del"
        elif c["locked"]:
            muts[k] = "lock"
    return muts


def base_shapes():
    """small transaction shapes: (name, keys, splits, ops)"""
    shapes = []
    K = ["k1", "k2", "k3", "k4"]
    layouts = {1: [[]], 2: [[], ["k2"]], 3: [[], ["k2"], ["k2", "k3"], ["k3"]], 4: [["k2", "k3"], ["k3"], ["k2", "k4"]]}
    opsets = {
        1: [[("set", "k1")], [("del", "k1")], [("insert", "k1")]],
        2: [[("set", "k1"), ("set", "k2")], [("del", "k1"), ("set", "k2")], [("lockonly", "k1"), ("set", "k2")], [("set", "k1"), ("insert", "k2")],
            [("insdel", "k1"), ("set", "k2")]],   # the smallest key is an insert-then-delete: never locked, must not become the primary
        3: [[("set", "k1"), ("set", "k2"), ("del", "k3")], [("insert", "k1"), ("lockonly", "k2"), ("set", "k3")], [("set", "k1"), ("insdel", "k2"), ("set", "k3")]],
        4: [[("set", "k1"), ("del", "k2"), ("insert", "k3"), ("lockonly", "k4")], [("set", "k4"), ("set", "k3"), ("set", "k2"), ("set", "k1")]],
    }
    for n in (1, 2, 3, 4):
        for li, lay in enumerate(layouts[n]):
            for oi, ops in enumerate(opsets[n]):
                shapes.append({"name": f"n{n}l{li}o{oi}", "keys": K[:n] if n < 4 else K, "splits": lay,
                               "ops": [{"op": o, "k": k, "v": f"v-{k}"} for o, k in ops]})
    return shapes


def late_primary_shapes():
    """pessimistic shapes whose primary (the first locked key) is NOT the first key of its region, in a region that a small
    batch limit cuts into several batches with the primary in the 2nd or a later one (limit 3 bytes = two 2-byte keys per
    batch; the shapes carry their batch limit). Batch bookkeeping of the primary: which batch is prewritten / committed
    first, which one decides the transaction."""
    K = ["k1", "k2", "k3", "k4", "k5"]
    mk = lambda ops: [{"op": o, "k": k, "v": f"v-{k}"} for o, k in ops]
    return [
        {"name": "lp4a", "keys": K[:4], "splits": [], "batch_size": 3, "ops": mk([("set", "k4"), ("set", "k3"), ("set", "k2"), ("set", "k1")])},
        {"name": "lp4b", "keys": K[:4], "splits": ["k2"], "batch_size": 3, "ops": mk([("set", "k4"), ("del", "k2"), ("set", "k3"), ("set", "k1")])},
        {"name": "lp5", "keys": K, "splits": ["k3"], "batch_size": 3, "ops": mk([("set", "k5"), ("set", "k1"), ("del", "k4"), ("set", "k3"), ("set", "k2")])},
        {"name": "lp3s", "keys": K[:3], "splits": [], "batch_size": 1, "ops": mk([("set", "k2"), ("set", "k1"), ("set", "k3")])},
    ]


def mk_scenario(sid, shape, mode, pess, preload=True, backend="unistore", **kw):
    pre = [{"k": k, "v": f"old-{k}"} for k in shape["keys"] if not any(o["k"] == k and o["op"] in ("insert", "insdel") for o in shape["ops"])] if preload else []
    sc = {"id": sid, "backend": backend, "splits": shape["splits"], "preload": pre, "batch_size": kw.pop("batch_size", 0) or shape.get("batch_size", 0),
          "txn": {"mode": mode, "pessimistic": pess, "causal": kw.pop("causal", False), "ops": shape["ops"], "finish": kw.pop("finish", "")},
          "faults": kw.pop("faults", []), "black_from": kw.pop("black_from", -1), "black_kind": kw.pop("black_kind", ""),
          "extras": kw.pop("extras", []), "recover": kw.pop("recover", True), "keys": sorted(set(shape["keys"]))}
    sc.update(kw)
    return sc


def with_fallbacks(base, every=3):
    """adds a last component `fb` to every tuple of `base` (mode = 2nd component) and, for every `every`-th async-commit /
    1PC entry, a twin with fb = True: that twin runs with AsyncCommit.SafeWindow = 0, so the store finds the min-commit
    ts beyond the request's max-commit ts, declines async commit and 1PC on every prewrite and the client falls back
    to 2PC. The twin is probed on its own (its request count differs)."""
    out, n = [], 0
    for b in base:
        out.append(tuple(b) + (False,))
        if b[1] in ("async", "1pc", "async1pc"):
            n += 1
            if n % every == 0:
                out.append(tuple(b) + (True,))
    return out


def fbkw(fb):
    return {"safe_window_ms": 0} if fb else {}


# ------------------------------------------------------------------ audit (boolean form of C02 (i)-(iv) / C03)
def audit_atomic(sc, r):
    """returns list of violated conclusions (strings); empty = holds. Uses the post-recovery MVCC dump."""
    bad = []
    if r.get("fatal"):
        if r.get("died"):
            return ["the client process aborted while executing this scenario: " + str(r["fatal"])[:300]]
        return ["driver-fatal: " + str(r["fatal"])[:200]]
    S = r.get("start_ts")
    told = r.get("told", "none")
    muts = expected_mutations(sc["txn"])
    data_keys = [k for k, op in muts.items() if op in ("put", "del", "ins")]
    audit = r.get("audit") or {}
    commits, locks, rolled = {}, [], []
    for k in sc["keys"]:
        a = audit.get(k) or {}
        if a.get("err"):
            bad.append(f"audit-error {k}: {a['err']}")
            continue
        lk = a.get("lock")
        if lk and lk.get("start") == S:
            locks.append(k)
        for w in a.get("writes", []):
            if w["start"] == S:
                if w["type"] in ("Put", "Delete", "Del", "Lock"):
                    commits[k] = w["commit"]
                elif w["type"] == "Rollback":
                    rolled.append(k)
    if len(set(commits.values())) > 1:
        bad.append(f"(i) two commit timestamps for one transaction: {commits}")
    committed_data = [k for k in data_keys if k in commits]
    if committed_data and len(committed_data) != len(data_keys):
        bad.append(f"(ii) partial commit: committed {sorted(committed_data)} of {sorted(data_keys)}")
    if any(k in commits for k in rolled):
        bad.append(f"(ii) key both committed and rolled back: {rolled}")
    if locks:
        bad.append(f"leftover lock of the transaction after recovery on {locks}")
    is_committed = bool(committed_data) if data_keys else None
    finish = sc["txn"].get("finish") or "commit"
    if finish == "commit" and told == "ok" and data_keys and not is_committed:
        bad.append("(iii) Commit returned nil but the transaction is not committed")
    if told.startswith("err") and is_committed:
        bad.append(f"(iv) Commit returned a definite error ({told}) but the transaction is committed")
    if finish == "rollback" and is_committed:
        bad.append("Rollback was called but the transaction is committed")
    # reads by the recovering client must equal the MVCC truth (newest Put/Delete with commit <= read ts);
    # together with (i)/(ii) this is the all-or-nothing view of (v)
    pre = {p["k"]: p["v"] for p in sc.get("preload", [])}
    def truth(k, ts):
        best = None
        for w in (audit.get(k) or {}).get("writes", []):
            if w["type"] in ("Put", "Delete", "Del") and w["commit"] <= ts and (best is None or w["commit"] > best["commit"]):
                best = w
        if best is None or best["type"] != "Put":
            return None
        return best["short"]
    for name, tsk in (("reads_after_2", "ts_after"), ("reads_before", "ts_before")):
        rd = r.get(name) or {}
        ts = r.get(tsk)
        if ts is None:
            continue
        for k in sc["keys"]:
            if k not in rd:
                continue
            got = rd[k]
            if isinstance(got, str) and got.startswith("ERR:"):
                bad.append(f"read of {k} ({name}) failed: {got}")
            elif got != truth(k, ts):
                bad.append(f"(v) {name}: read of {k} at {ts} = {got!r} but the MVCC truth is {truth(k, ts)!r}")
    rb = r.get("reads_before") or {}
    for k in sc["keys"]:
        if k in rb and rb[k] != pre.get(k):
            bad.append(f"snapshot before the transaction changed: {k} = {rb[k]!r}, want {pre.get(k)!r}")
    return bad


def leftover_locks_pre(sc, r):
    """C06: locks of the transaction present right after the client's work drained (no recovery)."""
    S = r.get("start_ts")
    out = []
    for k, a in (r.get("audit_pre") or {}).items():
        lk = (a or {}).get("lock")
        if lk and lk.get("start") == S:
            out.append(k)
    return out


def program_mutations(sc, r):
    """expected mutation list per transaction of a step program: {start_ts: {key: op}} (only steps that succeeded)"""
    out = {}
    failed = {st["i"] for st in r.get("steps", []) if st.get("err") or st.get("skipped") or st.get("panic")}
    stepres = {st["i"]: st for st in r.get("steps", [])}
    for name, tv in (r.get("txns") or {}).items():
        spec = dict(sc["txns"][name])
        ops = []
        for i, st in enumerate(sc["program"]):
            if st.get("t") != name or i in failed:
                continue
            if st["op"] in ("set", "del", "insert"):
                ops.append({"op": st["op"], "k": st["k"], "v": st.get("v", "")})
            elif st["op"] == "lock":
                held = ((stepres.get(i) or {}).get("bk") or {}).get("locked")
                for k in st.get("ks", []):
                    if st.get("loie") and held is not None and k not in held:
                        continue   # lock-only-if-exists on an absent key locks nothing
                    ops.append({"op": "plock" if spec.get("pessimistic") else "lockonly", "k": k})
        spec["ops"] = ops
        # in a pessimistic transaction a write without a preceding lock is prewritten without the pessimistic check;
        # the op is the same. expected_mutations marks every written key of a pessimistic spec as locked, which only
        # matters for insert-then-delete; programs do not generate that pattern.
        out[tv["start"]] = expected_mutations(spec)
    return out


# ------------------------------------------------------------------ projection to PERC events
def project(sc, r):
    """trace -> list of event lines (docs/PERC_EVENTS.md)"""
    lines = []
    keyid = {}
    def kid(h):
        if h not in keyid:
            keyid[h] = len(keyid) + 1
        return "%x" % keyid[h]
    def kl(hs):
        return ",".join(kid(h) for h in hs) if hs else "-"
    cid = {"c1": "1", "c2": "2", "c3": "3", "c4": "4"}
    hexn = lambda v: "%x" % int(v)
    S = r.get("start_ts")
    muts = expected_mutations(sc["txn"])
    prog_muts = program_mutations(sc, r) if sc.get("program") else {}
    sends = {}
    def kerr(e):
        k = (e or {}).get("kind", "other")
        if e and e.get("rolledback"):
            return "rolledback"
        return {"locked": "locked", "conflict": "conflict", "exists": "exists", "notfound": "notfound", "abort": "other", "retryable": "other"}.get(k, k if k in ("expired",) else "other")
    for e in r.get("trace", []):
        k, f, c = e["kind"], e.get("f", {}), cid.get(e.get("client", ""), "9")
        if k == "tso":
            lines.append(f"tso\t{hexn(f['ts'])}")
        elif k == "begin":
            lines.append(f"begin\t{c}\t{hexn(f['start'])}")
        elif k == "commit_call":
            if (f.get("finish") or "commit") == "commit":
                lines.append(f"commit_call\t{hexn(f['start'])}\t{1 if f.get('causal') else 0}")
                mm = prog_muts.get(f["start"]) if sc.get("program") else muts
                if mm is None:
                    continue
                ml = ",".join(f"{kid(kk.encode().hex())}:{op}" for kk, op in sorted(mm.items()))
                # the commit's primary: the one its prewrite requests name (a tentative primary of an earlier lock call may have
                # been dropped and re-selected); without any prewrite, the first one named. A read-only commit logs no mutations.
                prim = None
                for want in ("Prewrite", None):
                    for e2 in r.get("trace", []):
                        f2 = e2.get("f", {})
                        if e2["kind"] in ("send", "crash") and f2.get("start") == f["start"] and f2.get("primary") and (want is None or e2.get("cmd") == want):
                            prim = kid(f2["primary"]); break
                    if prim is not None:
                        break
                # (nor does one whose mutations are all CheckNotExists: nothing is locked, client-go falls back to the first key as a nominal primary)
                if prim is not None and ml and any(op != "cne" for op in mm.values()):
                    lines.append(f"mutations\t{hexn(f['start'])}\t{prim}\t{ml}")
        elif k == "told":
            if (f.get("finish") or "commit") == "commit":
                res = f["res"]
                res = "ok" if res == "ok" else ("undetermined" if res == "undetermined" else "err")
                lines.append(f"told\t{hexn(f['start'])}\t{res}")
            else:
                lines.append(f"rollback_told\t{hexn(f['start'])}")
        elif k == "crash":
            lines.append(f"crash\t{c}")
        elif k == "gc_begin":
            lines.append(f"gc_begin\t{c}\t{hexn(f['safepoint'])}")
        elif k == "gc_end":
            lines.append(f"gc_end\t{c}")
        elif k in ("send", "deliver", "reply"):
            cmd = e.get("cmd")
            if k == "send":
                sends[e["req"]] = f
            sf = sends.get(e.get("req"), {})
            ph = {"send": "send", "deliver": "deliver", "reply": "reply"}[k]
            def res_simple(errfield="error"):
                if "rpc_err" in f:
                    return "regionerr"
                if "regionerr" in f:
                    return "regionerr"
                if f.get(errfield):
                    er = f[errfield]
                    er = er[0] if isinstance(er, list) else er
                    kk = kerr(er)
                    if kk == "expired":
                        return "err:expired:" + hexn(er.get("min_commit", 0))
                    return "err:" + kk
                return "ok"
            if cmd == "Prewrite":
                ks = kl(sf.get("keys"))
                if k == "send":
                    lines.append("\t".join(["prewrite_send", c, hexn(sf["start"]), kid(sf["primary"]), ks, "1" if sf.get("async") else "0",
                                            "1" if sf.get("onepc") else "0", hexn(sf.get("min_commit", 0)), hexn(sf.get("for_update", 0)), kl(sf.get("secondaries"))]))
                else:
                    if "rpc_err" in f or "regionerr" in f:
                        res = "regionerr"
                    elif f.get("errors"):
                        res = "err:" + kerr(f["errors"][0])
                    else:
                        res = f"ok:{hexn(f.get('min_commit', 0))}:{hexn(f.get('onepc_commit', 0))}"
                    lines.append("\t".join([f"prewrite_{ph}", c, hexn(sf["start"]), ks, res]))
                    if k == "reply":
                        for er in f.get("errors") or []:
                            if er.get("kind") == "locked":
                                lines.append("\t".join(["lockseen", c, hexn(er["lock"]["start"]), hexn(er["lock"]["ttl"])]))
            elif cmd == "Commit":
                head = [f"commit_{ph}", c, hexn(sf["start"]), hexn(sf["commit"]), kl(sf.get("keys"))]
                lines.append("\t".join(head if k == "send" else head + [res_simple()]))
            elif cmd == "BatchRollback":
                head = [f"rollback_{ph}", c, hexn(sf["start"]), kl(sf.get("keys"))]
                lines.append("\t".join(head if k == "send" else head + [res_simple()]))
            elif cmd == "PessimisticLock":
                if k == "send":
                    lines.append("\t".join(["plock_send", c, hexn(sf["start"]), kid(sf["primary"]), hexn(sf["for_update"]), kl(sf.get("keys"))]))
                else:
                    lines.append("\t".join([f"plock_{ph}", c, hexn(sf["start"]), hexn(sf["for_update"]), kl(sf.get("keys")), res_simple("errors")]))
                    if k == "reply":
                        for er in f.get("errors") or []:
                            if er.get("kind") == "locked":
                                lines.append("\t".join(["lockseen", c, hexn(er["lock"]["start"]), hexn(er["lock"]["ttl"])]))
            elif cmd == "PessimisticRollback":
                head = [f"prollback_{ph}", c, hexn(sf["start"]), hexn(sf["for_update"]), kl(sf.get("keys"))]
                lines.append("\t".join(head if k == "send" else head + [res_simple("errors")]))
            elif cmd == "CheckTxnStatus":
                if k == "send":
                    cur = sf["current"]
                    lines.append("\t".join(["cts_send", c, hexn(sf["start"]), kid(sf["primary"]), hexn(sf["caller"]), "max" if cur == MAXTS else hexn(cur),
                                            "1" if sf.get("rbine") else "0", "1" if sf.get("force_sync") else "0", "1" if sf.get("resolving_pess") else "0"]))
                else:
                    if "rpc_err" in f or "regionerr" in f:
                        st = "regionerr"
                    elif f.get("error"):
                        st = "notfound" if f["error"].get("kind") == "notfound" else "err:other"
                    elif f.get("commit_version"):
                        st = "committed:" + hexn(f["commit_version"])
                    elif f.get("ttl"):
                        lk = f.get("lock") or {}
                        st = "locked:%s:%s:%s:%s" % (hexn(f["ttl"]), hexn(lk.get("min_commit", 0)), "1" if lk.get("async") else "0", kl(lk.get("secondaries")))
                    else:
                        act = {"TTLExpireRollback": "ttlexpire", "LockNotExistRollback": "lockrb", "NoAction": "norb", "TTLExpirePessimisticRollback": "pessrb",
                               "LockNotExistDoNothing": "nothing", "MinCommitTSPushed": "pushed"}.get(f.get("action"), "other")
                        st = "rolledback:" + act
                    lines.append("\t".join([f"cts_{ph}", c, hexn(sf["start"]), kid(sf["primary"]), st]))
            elif cmd == "CheckSecondaryLocks":
                head = [f"csl_{ph}", c, hexn(sf["start"]), kl(sf.get("keys"))]
                if k == "send":
                    lines.append("\t".join(head))
                else:
                    if "rpc_err" in f or "regionerr" in f:
                        st = "regionerr"
                    elif len(f.get("locks") or []) == len(sf.get("keys") or []) and not f.get("commit_ts"):
                        # M = the lock's min-commit ts if it is an async-commit lock, 0 otherwise (docs/PERC_EVENTS.md)
                        st = "locks:" + ",".join(f"{kid(l['key'])}={hexn(l['min_commit'] if l.get('async') else 0)}" for l in f["locks"])
                    else:
                        st = "commit:" + hexn(f.get("commit_ts", 0))
                    lines.append("\t".join(head + [st]))
            elif cmd == "ResolveLock":
                infos = sf.get("txn_infos") or []
                targets = [(i["start"], i["commit"]) for i in infos] if infos else ([(sf["start"], sf["commit"])] if sf.get("start") else [])
                for st_, cm_ in targets:
                    head = [f"resolve_{ph}", c, hexn(st_), hexn(cm_), kl(sf.get("keys"))]
                    lines.append("\t".join(head if k == "send" else head + [res_simple()]))
            elif cmd == "TxnHeartBeat":
                if k == "send":
                    lines.append("\t".join(["heartbeat_send", c, hexn(sf["start"]), kid(sf["primary"]), hexn(sf["advise_ttl"])]))
                elif k == "deliver":
                    lines.append("\t".join(["heartbeat_deliver", c, hexn(sf["start"]), kid(sf["primary"]), ("ok:" + hexn(f.get("ttl", 0))) if not f.get("error") and "rpc_err" not in f and "regionerr" not in f else "err"]))
            elif cmd in ("Get", "BatchGet", "Scan") and k == "reply":
                ers = []
                if f.get("error"):
                    ers.append(f["error"])
                for p in f.get("pairs") or []:
                    if p.get("error"):
                        ers.append(p["error"])
                for er in ers:
                    if er.get("kind") == "locked":
                        lines.append("\t".join(["lockseen", c, hexn(er["lock"]["start"]), hexn(er["lock"]["ttl"])]))
    return lines, keyid


# ------------------------------------------------------------------ C06: replay of one transaction's lock bookkeeping
# (model coq/theories/Locks, driver ocaml/locks/driver.ml)
_FAIL = {"err:conflict": "conflict", "err:exists": "exists", "err:deadlock": "deadlock", "err:lockwait": "timeout", "err:nowait": "nowait"}


def locks_windows(r, client):
    """splits the trace at the api events: {step index: [rpc events of `client` issued during that call]}"""
    win, buf = {}, []
    for e in r.get("trace", []):
        if e["kind"] == "api":
            win[e["f"].get("i")] = buf
            buf = []
        elif e.get("client") == client and e["kind"] in ("send", "deliver"):
            buf.append(e)
    return win


def locks_replay_lines(sc, r, t="t1"):
    """(lines for modelrun, expectations) for transaction t of a program result.
    expectations: list of dict(i, bk, rpc_keys or None) in the order of the emitted E lines."""
    kidx = {k: i + 1 for i, k in enumerate(sorted(sc["keys"]))}
    hx = lambda ks: ",".join("%x" % kidx[k] for k in ks) if ks else "-"
    unhex = lambda h: bytes.fromhex(h).decode()
    cid = "c" + t.lstrip("t")
    info = (r.get("txns") or {}).get(t)
    if not info:
        return [], []
    S = info["start"]
    win = locks_windows(r, cid)
    lines, exp = [f"P\t{r['id']}\t{1 if info.get('pessimistic') else 0}"], []
    lostk = [k for k in (sc.get("_lost_keys") or []) if k in kidx]
    others = [v.get("commit_ts", 0) for n, v in r["txns"].items() if n != t]
    for s in r.get("steps", []):
        if s.get("t") != t or s.get("skipped") or "bk" not in s:
            continue
        i, op = s["i"], s["op"]
        evs = win.get(i, [])
        sends = {e.get("req"): (e.get("f") or {}) for e in evs if e["kind"] == "send"}
        rpc_keys = None
        if op in ("set", "del"):
            body = [op, "%x" % kidx[sc["program"][i]["k"]]]
        elif op in ("insert", "lock"):
            st = dict(sc["program"][i])
            if op == "insert":
                # pessimistic: the driver buffers the insert and locks the key (statement-like); optimistic: buffer only
                # (a failed pessimistic insert is discarded again by the driver: staging clean-up, 'unmark' after the call)
                lines.append("\t".join(["E", f"{i}a", "mark" if (info.get("pessimistic") and s.get("err")) else "ins", "%x" % kidx[st["k"]]]))
                if not info.get("pessimistic"):
                    body = ["nop"]
                    lines.append("\t".join(["E", str(i)] + body))
                    exp.append({"i": i, "op": op, "bk": s["bk"], "rpc_keys": None, "err": s.get("err"), "line": lines[-1]})
                    continue
                st = {"ks": [st["k"]]}
            locked, absent, lwc, sent = [], [], 0, set()
            for e in evs:
                f = e.get("f") or {}
                sf = sends.get(e.get("req"), {})
                if e.get("cmd") != "PessimisticLock" or sf.get("start") != S:
                    continue
                ks = [unhex(h) for h in sf.get("keys", [])]
                if e["kind"] == "send":
                    sent.update(ks)
                    continue
                if f.get("errors") or "regionerr" in f or "rpc_err" in f:
                    continue
                nf, ex, res = f.get("not_founds") or [], f.get("existence") or [], f.get("results") or []
                for j, k in enumerate(ks):
                    gone = (nf[j] if j < len(nf) else False) or bool(res and j < len(ex) and not ex[j] and (st.get("rv") or st.get("ce")))
                    if gone:
                        absent.append(k)
                    if not (gone and st.get("loie")):
                        locked.append(k)
                for j, x in enumerate(f.get("lwc") or []):
                    lwc = max(lwc, x)
                if "lwc" not in f and any("Conflict" in x for x in res):
                    lwc = max([c for c in others if c > s.get("for_update", 0)] or [s.get("for_update", 0) + 1])
            err = s.get("err")
            res = "ok" if not err else _FAIL.get(err, "other")
            early = 1 if (err == "err:exists" and not sent) else 0      # observed; the model predicts it (compared in locks_compare)
            body = ["lock", hx(st["ks"]), *(str(int(bool(st.get(x)))) for x in ("rv", "ce", "loie")), "%x" % s.get("for_update", 0),
                    str(early), hx(sorted(set(locked))), hx(sorted(set(absent))), "%x" % lwc, res,
                    # expiry of previous-attempt locks: the observed choice (a request was sent) is fed to the model when the
                    # managed TTL is small; locks_compare checks it against the wall-clock windows of the calls
                    "1" if (sc.get("managed_ttl") and sent and s["bk"].get("agg")) else "0"]
            rpc_keys = sorted(sent)
        elif (op == "audit" and not sc.get("managed_ttl") and not str(sc.get("black_kind") or "").startswith("release_")
              and not any(str(f.get("kind", "")).startswith("release:") for f in sc.get("faults") or [])):
            # background work is quiet: the model runs its pending tasks; its lock set is compared with the store's (locks_compare)
            body = ["quiet"]
        elif op in ("agg_start", "agg_retry", "agg_cancel", "agg_done"):
            body = [op.replace("_", "")]
        elif op == "rollback":
            body = ["rollback"] + ([hx(lostk)] if lostk else [])
        elif op == "commit":
            pws = [(sends.get(e.get("req"), {}), e.get("f") or {}) for e in evs if e.get("cmd") == "Prewrite" and e["kind"] == "deliver" and sends.get(e.get("req"), {}).get("start") == S]
            cms = [(sends.get(e.get("req"), {}), e.get("f") or {}) for e in evs if e.get("cmd") == "Commit" and e["kind"] == "deliver" and sends.get(e.get("req"), {}).get("start") == S]
            okp = lambda f: not f.get("errors") and "regionerr" not in f and "rpc_err" not in f
            onepc = bool(pws) and all(sf.get("onepc") for sf, f in pws) and (s.get("err") or all(f.get("onepc_commit") for sf, f in pws))
            asyn = bool(pws) and not onepc and all(sf.get("async") for sf, f in pws[-1:]) and all(f.get("min_commit") for sf, f in pws if okp(f))
            pw = sorted({unhex(h) for sf, f in pws if okp(f) for h in sf.get("keys", [])})
            sync = sorted({unhex(h) for sf, f in cms if not f.get("error") and "regionerr" not in f and "rpc_err" not in f for h in sf.get("keys", [])})
            res = "ok" if not s.get("err") else ("cfail" if any(e.get("cmd") == "Commit" and e["kind"] == "send" for e in evs) else "pfail")
            body = ["commit", "1pc" if onepc else ("async" if asyn else "2pc"), hx(pw), hx(sync), res,
                    hx([k for k in (sc["txns"][t].get("filter_keys") or []) if k in kidx])]
        else:
            body = ["nop"]
        lines.append("\t".join(["E", str(i)] + body))
        exp.append({"i": i, "op": op, "bk": s["bk"], "rpc_keys": rpc_keys, "err": s.get("err"), "line": lines[-1],
                    "t0": s.get("t0_ms"), "t1": s.get("t1_ms"),
                    "early": (s.get("err") == "err:exists" and not rpc_keys) if rpc_keys is not None else None,
                    "audit_locks": sorted(k for k, v in (s.get("locks") or {}).items() if v == S) if body == ["quiet"] else None})
        if op == "insert" and info.get("pessimistic") and s.get("err"):
            lines.append("\t".join(["E", f"{i}b", "unmark", "%x" % kidx[sc["program"][i]["k"]]]))
    if str(info.get("result", "")).startswith("rolledback(final)"):
        lines.append("E\tfinal\trollback")
    lines.append("D" + ("\t" + hx(lostk) if lostk else ""))
    return lines, exp


def locks_compare(sc, r, out_lines, exp, t="t1"):
    """compares modelrun's R/F lines with the client's bookkeeping; returns (list of disagreements, model leftover keys)"""
    kname = {("%x" % (i + 1)): k for i, k in enumerate(sorted(sc["keys"]))}
    dec = lambda s: [] if s in ("-", "") else sorted(kname[x] for x in s.split(","))
    bad, left = [], None
    rs = {}
    for ln in out_lines:
        p = ln.split("\t")
        if p[0] == "R":
            rs[p[2]] = p
        elif p[0] == "F":
            left = dec(p[2])
            if p[3] != "0":
                bad.append(f"model did not drain: {p[3]} tasks left")
        elif p[0] in ("EXC", "BAD"):
            bad.append(ln)
    for x in exp:
        p = rs.get(str(x["i"]))
        if p is None:
            bad.append(f"step {x['i']}: no model output")
            continue
        bk = x["bk"]
        x["X"] = len(p) > 12 and p[12] == "X"
        x["mstore"] = dec(p[11]) if len(p) > 11 else []
        # wf_run and the extra contract of C06_tracked_keys_hold_locks (fresh for-update ts, faithful store, retry after a
        # failed call inside an attempt) held for all events up to this step (evaluated by the model driver: Contract.v)
        x["inside"] = (p[16] == "H") if len(p) > 16 else None
        if x.get("audit_locks") is not None and x["mstore"] != x["audit_locks"]:
            bad.append(f"step {x['i']} (audit, background quiet): locks of the transaction in the store: model={x['mstore']} store={x['audit_locks']}")
        if x.get("early") is not None and len(p) > 15 and p[15] in ("Y", "N") and (p[15] == "Y") != bool(x["early"]):
            bad.append(f"step {x['i']} ({x['op']}): key-exists error before any request: model predicts {p[15] == 'Y'}, client {bool(x['early'])} (err {x['err']})")
        # keep-alive (ttlManager): running or not after every call; the bound key is kept for the heart-beat check
        if len(p) > 14:
            x["ka"] = "" if p[14] in ("U", "C") else kname.get(p[14], "?")
            if "ttl_running" in bk and (x["ka"] != "") != bool(bk["ttl_running"]):
                bad.append(f"step {x['i']} ({x['op']}): keep-alive running model={x['ka'] != ''} ({p[14]}) client={bk['ttl_running']}")
        # committer.primaryKey (pessimistic transactions, while the transaction is open)
        if len(p) > 13 and "primary" in bk and x["op"] not in ("commit", "rollback") and p[9] == "1":
            mp = kname.get(p[13]) if p[13] != "-" else ""
            if mp != bk["primary"]:
                bad.append(f"step {x['i']} ({x['op']}): primary model={mp!r} client={bk['primary']!r}")
        m = {"locked": dec(p[3]), "locked_cnt": int(p[4]), "agg": p[5] == "1", "agg_cur": dec(p[6]), "agg_prev": dec(p[7])}
        for fld in ("locked", "locked_cnt", "agg", "agg_cur", "agg_prev"):
            if m[fld] != bk[fld]:
                bad.append(f"step {x['i']} ({x['op']}): {fld} model={m[fld]} client={bk[fld]}")
        # a failing call may stop before every batch is sent (the primary batch goes first)
        if x["rpc_keys"] is not None and (dec(p[8]) != x["rpc_keys"] if not x["err"] else not set(x["rpc_keys"]) <= set(dec(p[8]))):
            bad.append(f"step {x['i']} (lock): keys sent to the store model={dec(p[8])} client={x['rpc_keys']}")
    # expiry decisions that mattered (model: X) must be admissible w.r.t. the wall-clock windows: the previous attempt
    # started at the agg_start / agg_retry before the last agg_retry
    ttl = sc.get("managed_ttl") or 20000
    begins = []
    for x in exp:
        if x["op"] == "agg_start":
            begins = [x]
        elif x["op"] == "agg_retry":
            begins.append(x)
        elif x["op"] in ("lock", "insert") and x["rpc_keys"] is not None:
            p = rs.get(str(x["i"]))
            if p is not None and len(p) > 12 and p[12] == "X" and len(begins) >= 2 and x.get("t0") is not None and begins[-2].get("t0") is not None:
                lo, hi = x["t0"] - begins[-2]["t1"], x["t1"] - begins[-2]["t0"]
                used = x["line"].split("\t")[-1] == "1"
                if (used and hi < ttl) or (not used and lo >= ttl):
                    bad.append(f"step {x['i']} (lock): expiry decision {used} not admissible: elapsed in [{lo:.1f},{hi:.1f}] ms, ttl {ttl} ms")
    if left is None:
        bad.append("no final model state")
    return bad, left



def locks_lost_keys(sc, r, t="t1"):
    """C06, scenarios with lost release requests: keys of t for which a release request (PessimisticRollback / BatchRollback /
    Commit) was lost (act dropreq) and no release request naming them was EXECUTED by the store (deliver event without
    region error) after the key was last locked"""
    info = (r.get("txns") or {}).get(t) or {}
    S = info.get("start")
    cid = sc["txns"][t].get("client") or ("c" + t.lstrip("t"))
    sends, released, dropped, held = {}, {}, {}, {}
    for e in r.get("trace", []):
        f = e.get("f") or {}
        if e.get("client") != cid:
            continue
        if e["kind"] == "send":
            sends[e.get("req")] = (e.get("cmd"), f)
            if e.get("cmd") in ("PessimisticRollback", "BatchRollback", "Commit") and f.get("start") == S and f.get("act") == "dropreq":
                for h in f.get("keys") or []:
                    k = bytes.fromhex(h).decode()
                    if not released.get(k):
                        dropped[k] = True
        elif e["kind"] == "deliver" and e.get("req") in sends and sends[e["req"]][1].get("start") == S \
                and "regionerr" not in f and "rpc_err" not in f:
            cmd, sf = sends[e["req"]]
            ks = [bytes.fromhex(h).decode() for h in sf.get("keys") or []]
            if cmd in ("PessimisticLock", "Prewrite") and not f.get("errors"):
                for k in ks:
                    released[k], dropped[k] = False, False
                    # what the store holds now: a pessimistic lock with its for-update ts, or a prewrite lock
                    held[k] = ("pess", max(sf.get("for_update", 0), held.get(k, ("", 0))[1] if held.get(k, ("",))[0] == "pess" else 0)) if cmd == "PessimisticLock" else ("prew", 0)
            elif cmd in ("PessimisticRollback", "BatchRollback", "Commit") and not f.get("error") and not f.get("errors"):
                for k in ks:
                    kind, fu = held.get(k, ("", 0))
                    if cmd == "PessimisticRollback" and (kind == "prew" or (kind == "pess" and sf.get("for_update", 0) < fu)):
                        continue        # a pessimistic rollback leaves prewrite locks and pessimistic locks with a newer for-update ts
                    if cmd == "Commit" and kind == "pess":
                        continue
                    released[k] = True
    lost = sorted(k for k, d in dropped.items() if d and not released.get(k))
    any_loss = any(e["kind"] == "send" and e.get("client") == cid and (e.get("f") or {}).get("act") in ("dropreq", "dropresp") for e in r.get("trace", []))
    if any_loss and str(sc.get("black_kind") or "").startswith("release_"):
        # lost for good: the action that met the loss gives up, the batches it had not sent yet are never sent —
        # every key locked and never released since counts as "its release never reached the store"
        lost = sorted(set(lost) | {k for k, rel in released.items() if not rel})
    return lost
