"""Shared machinery for the transactional checks (C01–C04, C06): builds the `txn` driver from the current
tree (module integration_tests, overlay root ov_txn), runs scenarios in parallel, audits the MVCC truth,
projects traces to the Percolator event vocabulary (docs/PERC_EVENTS.md)."""
import json, os, subprocess, tempfile, random, itertools, time, shutil
import vlib

MAXTS = (1 << 64) - 1


def build_driver():
    return vlib.go_build("txn", pkg="./zz_verif_txn", module_dir=os.path.join(vlib.REPO, "integration_tests"),
                         roots=("ov_txn",), timeout=1800)


def run_scenarios(exe, scenarios, jobs=14, timeout=1500):
    """returns list of result dicts (same order as scenarios; missing => {'id':..,'fatal':'no result'})"""
    if not scenarios:
        return []
    d = tempfile.mkdtemp(prefix="txnlab-", dir=vlib.BUILD)
    jobs = max(1, min(jobs, len(scenarios)))
    chunks = [scenarios[i::jobs] for i in range(jobs)]
    procs = []
    for i, ch in enumerate(chunks):
        inp = os.path.join(d, f"in{i}.jsonl")
        with open(inp, "w") as fh:
            for sc in ch:
                fh.write(json.dumps(sc) + "\n")
        outp = os.path.join(d, f"out{i}.jsonl")
        env = vlib.goenv()
        env["TMPDIR"] = d
        p = subprocess.Popen([exe, outp], stdin=open(inp), stdout=subprocess.DEVNULL, stderr=subprocess.DEVNULL, env=env)
        procs.append((p, outp))
    t0 = time.time()
    res = {}
    for p, outp in procs:
        try:
            p.wait(timeout=max(1, timeout - (time.time() - t0)))
        except subprocess.TimeoutExpired:
            p.kill()
        if os.path.exists(outp):
            for line in open(outp):
                try:
                    r = json.loads(line)
                    res[r["id"]] = r
                except Exception:
                    pass
    shutil.rmtree(d, ignore_errors=True)
    return [res.get(sc["id"], {"id": sc["id"], "fatal": "no result (driver died or timed out)"}) for sc in scenarios]


# ------------------------------------------------------------------ scenario shapes
def expected_mutations(spec):
    """the property's table: buffer entry -> prewrite operation. Returns {key: op} with op in put/del/ins/cne/lock/none"""
    st = {}
    for op in spec["ops"]:
        k = op["k"]
        cur = st.get(k, {"val": None, "presume": False, "locked": False})
        o = op["op"]
        if o == "set":
            cur["val"] = "put"
        elif o == "del":
            cur["val"] = "del"
        elif o == "insert":
            cur["val"] = "put"; cur["presume"] = True
        elif o == "insdel":
            cur["val"] = "del"; cur["presume"] = True
        elif o in ("lockonly", "plock"):
            cur["locked"] = True
        if spec.get("pessimistic") and o in ("set", "del", "insert", "insdel", "plock", "lockonly"):
            cur["locked"] = True
        st[k] = cur
    muts = {}
    for k, c in st.items():
        if c["val"] == "put":
            muts[k] = "ins" if c["presume"] else "put"
        elif c["val"] == "del":
            if c["presume"]:
                # optimistic insert-then-delete: non-locking existence check; pessimistic: only the lock conversion
                muts[k] = "lock" if spec.get("pessimistic") else "cne"
            else:
                muts[k] = "del"
        elif c["locked"]:
            muts[k] = "lock"
    return muts


def base_shapes():
    """small transaction shapes: (name, keys, splits, ops)"""
    shapes = []
    K = ["k1", "k2", "k3", "k4"]
    layouts = {1: [[]], 2: [[], ["k2"]], 3: [[], ["k2"], ["k2", "k3"], ["k3"]], 4: [["k2", "k3"], ["k3"], ["k2", "k4"]]}
    opsets = {
        1: [[("set", "k1")], [("del", "k1")], [("insert", "k1")]],
        2: [[("set", "k1"), ("set", "k2")], [("del", "k1"), ("set", "k2")], [("lockonly", "k1"), ("set", "k2")], [("set", "k1"), ("insert", "k2")]],
        3: [[("set", "k1"), ("set", "k2"), ("del", "k3")], [("insert", "k1"), ("lockonly", "k2"), ("set", "k3")], [("set", "k1"), ("insdel", "k2"), ("set", "k3")]],
        4: [[("set", "k1"), ("del", "k2"), ("insert", "k3"), ("lockonly", "k4")], [("set", "k4"), ("set", "k3"), ("set", "k2"), ("set", "k1")]],
    }
    for n in (1, 2, 3, 4):
        for li, lay in enumerate(layouts[n]):
            for oi, ops in enumerate(opsets[n]):
                shapes.append({"name": f"n{n}l{li}o{oi}", "keys": K[:n] if n < 4 else K, "splits": lay,
                               "ops": [{"op": o, "k": k, "v": f"v-{k}"} for o, k in ops]})
    return shapes


def mk_scenario(sid, shape, mode, pess, preload=True, backend="unistore", **kw):
    pre = [{"k": k, "v": f"old-{k}"} for k in shape["keys"] if not any(o["k"] == k and o["op"] in ("insert", "insdel") for o in shape["ops"])] if preload else []
    sc = {"id": sid, "backend": backend, "splits": shape["splits"], "preload": pre, "batch_size": kw.pop("batch_size", 0),
          "txn": {"mode": mode, "pessimistic": pess, "causal": kw.pop("causal", False), "ops": shape["ops"], "finish": kw.pop("finish", "")},
          "faults": kw.pop("faults", []), "black_from": kw.pop("black_from", -1), "black_kind": kw.pop("black_kind", ""),
          "extras": kw.pop("extras", []), "recover": kw.pop("recover", True), "keys": sorted(set(shape["keys"]))}
    sc.update(kw)
    return sc


# ------------------------------------------------------------------ audit (boolean form of C02 (i)-(iv) / C03)
def audit_atomic(sc, r):
    """returns list of violated conclusions (strings); empty = holds. Uses the post-recovery MVCC dump."""
    bad = []
    if r.get("fatal"):
        return ["driver-fatal: " + str(r["fatal"])[:200]]
    S = r.get("start_ts")
    told = r.get("told", "none")
    muts = expected_mutations(sc["txn"])
    data_keys = [k for k, op in muts.items() if op in ("put", "del", "ins")]
    audit = r.get("audit") or {}
    commits, locks, rolled = {}, [], []
    for k in sc["keys"]:
        a = audit.get(k) or {}
        if a.get("err"):
            bad.append(f"audit-error {k}: {a['err']}")
            continue
        lk = a.get("lock")
        if lk and lk.get("start") == S:
            locks.append(k)
        for w in a.get("writes", []):
            if w["start"] == S:
                if w["type"] in ("Put", "Delete", "Del", "Lock"):
                    commits[k] = w["commit"]
                elif w["type"] == "Rollback":
                    rolled.append(k)
    if len(set(commits.values())) > 1:
        bad.append(f"(i) two commit timestamps for one transaction: {commits}")
    committed_data = [k for k in data_keys if k in commits]
    if committed_data and len(committed_data) != len(data_keys):
        bad.append(f"(ii) partial commit: committed {sorted(committed_data)} of {sorted(data_keys)}")
    if any(k in commits for k in rolled):
        bad.append(f"(ii) key both committed and rolled back: {rolled}")
    if locks:
        bad.append(f"leftover lock of the transaction after recovery on {locks}")
    is_committed = bool(committed_data) if data_keys else None
    finish = sc["txn"].get("finish") or "commit"
    if finish == "commit" and told == "ok" and data_keys and not is_committed:
        bad.append("(iii) Commit returned nil but the transaction is not committed")
    if told.startswith("err") and is_committed:
        bad.append(f"(iv) Commit returned a definite error ({told}) but the transaction is committed")
    if finish == "rollback" and is_committed:
        bad.append("Rollback was called but the transaction is committed")
    # reads by the recovering client must equal the MVCC truth (newest Put/Delete with commit <= read ts);
    # together with (i)/(ii) this is the all-or-nothing view of (v)
    pre = {p["k"]: p["v"] for p in sc.get("preload", [])}
    def truth(k, ts):
        best = None
        for w in (audit.get(k) or {}).get("writes", []):
            if w["type"] in ("Put", "Delete", "Del") and w["commit"] <= ts and (best is None or w["commit"] > best["commit"]):
                best = w
        if best is None or best["type"] != "Put":
            return None
        return best["short"]
    for name, tsk in (("reads_after_2", "ts_after"), ("reads_before", "ts_before")):
        rd = r.get(name) or {}
        ts = r.get(tsk)
        if ts is None:
            continue
        for k in sc["keys"]:
            if k not in rd:
                continue
            got = rd[k]
            if isinstance(got, str) and got.startswith("ERR:"):
                bad.append(f"read of {k} ({name}) failed: {got}")
            elif got != truth(k, ts):
                bad.append(f"(v) {name}: read of {k} at {ts} = {got!r} but the MVCC truth is {truth(k, ts)!r}")
    rb = r.get("reads_before") or {}
    for k in sc["keys"]:
        if k in rb and rb[k] != pre.get(k):
            bad.append(f"snapshot before the transaction changed: {k} = {rb[k]!r}, want {pre.get(k)!r}")
    return bad


def leftover_locks_pre(sc, r):
    """C06: locks of the transaction present right after the client's work drained (no recovery)."""
    S = r.get("start_ts")
    out = []
    for k, a in (r.get("audit_pre") or {}).items():
        lk = (a or {}).get("lock")
        if lk and lk.get("start") == S:
            out.append(k)
    return out


def program_mutations(sc, r):
    """expected mutation list per transaction of a step program: {start_ts: {key: op}} (only steps that succeeded)"""
    out = {}
    failed = {st["i"] for st in r.get("steps", []) if st.get("err") or st.get("skipped") or st.get("panic")}
    for name, tv in (r.get("txns") or {}).items():
        spec = dict(sc["txns"][name])
        ops = []
        for i, st in enumerate(sc["program"]):
            if st.get("t") != name or i in failed:
                continue
            if st["op"] in ("set", "del", "insert"):
                ops.append({"op": st["op"], "k": st["k"], "v": st.get("v", "")})
            elif st["op"] == "lock":
                for k in st.get("ks", []):
                    ops.append({"op": "plock" if spec.get("pessimistic") else "lockonly", "k": k})
        spec["ops"] = ops
        # in a pessimistic transaction a write without a preceding lock is prewritten without the pessimistic check;
        # the op is the same. expected_mutations marks every written key of a pessimistic spec as locked, which only
        # matters for insert-then-delete; programs do not generate that pattern.
        out[tv["start"]] = expected_mutations(spec)
    return out


# ------------------------------------------------------------------ projection to PERC events
def project(sc, r):
    """trace -> list of event lines (docs/PERC_EVENTS.md)"""
    lines = []
    keyid = {}
    def kid(h):
        if h not in keyid:
            keyid[h] = len(keyid) + 1
        return "%x" % keyid[h]
    def kl(hs):
        return ",".join(kid(h) for h in hs) if hs else "-"
    cid = {"c1": "1", "c2": "2", "c3": "3", "c4": "4"}
    hexn = lambda v: "%x" % int(v)
    S = r.get("start_ts")
    muts = expected_mutations(sc["txn"])
    prog_muts = program_mutations(sc, r) if sc.get("program") else {}
    sends = {}
    def kerr(e):
        k = (e or {}).get("kind", "other")
        if e and e.get("rolledback"):
            return "rolledback"
        return {"locked": "locked", "conflict": "conflict", "exists": "exists", "notfound": "notfound", "abort": "other", "retryable": "other"}.get(k, k if k in ("expired",) else "other")
    for e in r.get("trace", []):
        k, f, c = e["kind"], e.get("f", {}), cid.get(e.get("client", ""), "9")
        if k == "tso":
            lines.append(f"tso\t{hexn(f['ts'])}")
        elif k == "begin":
            lines.append(f"begin\t{c}\t{hexn(f['start'])}")
        elif k == "commit_call":
            if (f.get("finish") or "commit") == "commit":
                lines.append(f"commit_call\t{hexn(f['start'])}\t{1 if f.get('causal') else 0}")
                mm = prog_muts.get(f["start"]) if sc.get("program") else muts
                if mm is None:
                    continue
                ml = ",".join(f"{kid(kk.encode().hex())}:{op}" for kk, op in sorted(mm.items()))
                prim = None
                for e2 in r.get("trace", []):
                    f2 = e2.get("f", {})
                    if e2["kind"] in ("send", "crash") and f2.get("start") == f["start"] and f2.get("primary"):
                        prim = kid(f2["primary"]); break
                if prim is not None:
                    lines.append(f"mutations\t{hexn(f['start'])}\t{prim}\t{ml or '-'}")
        elif k == "told":
            if (f.get("finish") or "commit") == "commit":
                res = f["res"]
                res = "ok" if res == "ok" else ("undetermined" if res == "undetermined" else "err")
                lines.append(f"told\t{hexn(f['start'])}\t{res}")
            else:
                lines.append(f"rollback_told\t{hexn(f['start'])}")
        elif k == "crash":
            lines.append(f"crash\t{c}")
        elif k == "gc_begin":
            lines.append(f"gc_begin\t{c}\t{hexn(f['safepoint'])}")
        elif k == "gc_end":
            lines.append(f"gc_end\t{c}")
        elif k in ("send", "deliver", "reply"):
            cmd = e.get("cmd")
            if k == "send":
                sends[e["req"]] = f
            sf = sends.get(e.get("req"), {})
            ph = {"send": "send", "deliver": "deliver", "reply": "reply"}[k]
            def res_simple(errfield="error"):
                if "rpc_err" in f:
                    return "regionerr"
                if "regionerr" in f:
                    return "regionerr"
                if f.get(errfield):
                    er = f[errfield]
                    er = er[0] if isinstance(er, list) else er
                    kk = kerr(er)
                    if kk == "expired":
                        return "err:expired:" + hexn(er.get("min_commit", 0))
                    return "err:" + kk
                return "ok"
            if cmd == "Prewrite":
                ks = kl(sf.get("keys"))
                if k == "send":
                    lines.append("\t".join(["prewrite_send", c, hexn(sf["start"]), kid(sf["primary"]), ks, "1" if sf.get("async") else "0",
                                            "1" if sf.get("onepc") else "0", hexn(sf.get("min_commit", 0)), hexn(sf.get("for_update", 0)), kl(sf.get("secondaries"))]))
                else:
                    if "rpc_err" in f or "regionerr" in f:
                        res = "regionerr"
                    elif f.get("errors"):
                        res = "err:" + kerr(f["errors"][0])
                    else:
                        res = f"ok:{hexn(f.get('min_commit', 0))}:{hexn(f.get('onepc_commit', 0))}"
                    lines.append("\t".join([f"prewrite_{ph}", c, hexn(sf["start"]), ks, res]))
                    if k == "reply":
                        for er in f.get("errors") or []:
                            if er.get("kind") == "locked":
                                lines.append("\t".join(["lockseen", c, hexn(er["lock"]["start"]), hexn(er["lock"]["ttl"])]))
            elif cmd == "Commit":
                head = [f"commit_{ph}", c, hexn(sf["start"]), hexn(sf["commit"]), kl(sf.get("keys"))]
                lines.append("\t".join(head if k == "send" else head + [res_simple()]))
            elif cmd == "BatchRollback":
                head = [f"rollback_{ph}", c, hexn(sf["start"]), kl(sf.get("keys"))]
                lines.append("\t".join(head if k == "send" else head + [res_simple()]))
            elif cmd == "PessimisticLock":
                if k == "send":
                    lines.append("\t".join(["plock_send", c, hexn(sf["start"]), kid(sf["primary"]), hexn(sf["for_update"]), kl(sf.get("keys"))]))
                else:
                    lines.append("\t".join([f"plock_{ph}", c, hexn(sf["start"]), hexn(sf["for_update"]), kl(sf.get("keys")), res_simple("errors")]))
                    if k == "reply":
                        for er in f.get("errors") or []:
                            if er.get("kind") == "locked":
                                lines.append("\t".join(["lockseen", c, hexn(er["lock"]["start"]), hexn(er["lock"]["ttl"])]))
            elif cmd == "PessimisticRollback":
                head = [f"prollback_{ph}", c, hexn(sf["start"]), hexn(sf["for_update"]), kl(sf.get("keys"))]
                lines.append("\t".join(head if k == "send" else head + [res_simple("errors")]))
            elif cmd == "CheckTxnStatus":
                if k == "send":
                    cur = sf["current"]
                    lines.append("\t".join(["cts_send", c, hexn(sf["start"]), kid(sf["primary"]), hexn(sf["caller"]), "max" if cur == MAXTS else hexn(cur),
                                            "1" if sf.get("rbine") else "0", "1" if sf.get("force_sync") else "0", "1" if sf.get("resolving_pess") else "0"]))
                else:
                    if "rpc_err" in f or "regionerr" in f:
                        st = "regionerr"
                    elif f.get("error"):
                        st = "notfound" if f["error"].get("kind") == "notfound" else "err:other"
                    elif f.get("commit_version"):
                        st = "committed:" + hexn(f["commit_version"])
                    elif f.get("ttl"):
                        lk = f.get("lock") or {}
                        st = "locked:%s:%s:%s:%s" % (hexn(f["ttl"]), hexn(lk.get("min_commit", 0)), "1" if lk.get("async") else "0", kl(lk.get("secondaries")))
                    else:
                        act = {"TTLExpireRollback": "ttlexpire", "LockNotExistRollback": "lockrb", "NoAction": "norb", "TTLExpirePessimisticRollback": "pessrb",
                               "LockNotExistDoNothing": "nothing", "MinCommitTSPushed": "pushed"}.get(f.get("action"), "other")
                        st = "rolledback:" + act
                    lines.append("\t".join([f"cts_{ph}", c, hexn(sf["start"]), kid(sf["primary"]), st]))
            elif cmd == "CheckSecondaryLocks":
                head = [f"csl_{ph}", c, hexn(sf["start"]), kl(sf.get("keys"))]
                if k == "send":
                    lines.append("\t".join(head))
                else:
                    if "rpc_err" in f or "regionerr" in f:
                        st = "regionerr"
                    elif len(f.get("locks") or []) == len(sf.get("keys") or []) and not f.get("commit_ts"):
                        st = "locks:" + ",".join(f"{kid(l['key'])}={hexn(l['min_commit'])}" for l in f["locks"])
                    else:
                        st = "commit:" + hexn(f.get("commit_ts", 0))
                    lines.append("\t".join(head + [st]))
            elif cmd == "ResolveLock":
                infos = sf.get("txn_infos") or []
                targets = [(i["start"], i["commit"]) for i in infos] if infos else ([(sf["start"], sf["commit"])] if sf.get("start") else [])
                for st_, cm_ in targets:
                    head = [f"resolve_{ph}", c, hexn(st_), hexn(cm_), kl(sf.get("keys"))]
                    lines.append("\t".join(head if k == "send" else head + [res_simple()]))
            elif cmd == "TxnHeartBeat":
                if k == "send":
                    lines.append("\t".join(["heartbeat_send", c, hexn(sf["start"]), kid(sf["primary"]), hexn(sf["advise_ttl"])]))
                elif k == "deliver":
                    lines.append("\t".join(["heartbeat_deliver", c, hexn(sf["start"]), kid(sf["primary"]), ("ok:" + hexn(f.get("ttl", 0))) if not f.get("error") and "rpc_err" not in f and "regionerr" not in f else "err"]))
            elif cmd in ("Get", "BatchGet", "Scan") and k == "reply":
                ers = []
                if f.get("error"):
                    ers.append(f["error"])
                for p in f.get("pairs") or []:
                    if p.get("error"):
                        ers.append(p["error"])
                for er in ers:
                    if er.get("kind") == "locked":
                        lines.append("\t".join(["lockseen", c, hexn(er["lock"]["start"]), hexn(er["lock"]["ttl"])]))
    return lines, keyid
