"""Coq gate + acceptor glue for the Percolator area (shared by C02, C03, C04)."""
import os, json
import vlib, txnlab

PROPS = [("theories/Percolator/Props.v", "Percolator.Props")]
AREAS = ["theories/Percolator"]


def perc_gate(pid):
    if not os.path.exists(os.path.join(vlib.COQ, PROPS[0][0])):
        return {"ok": False, "problems": ["coq/theories/Percolator/Props.v does not exist yet"], "cov": {"obligations": 0, "discharged": 0}}
    g = vlib.coq_gate(pid, AREAS, PROPS)
    ths = [t for t in g["theorems"] if t.startswith(pid + "_")]
    disch = [t for t in ths if t in g["axioms"]]
    return {"ok": g["ok"], "problems": g["problems"],
            "cov": {"obligations": len(ths), "discharged": len(disch) if g["ok"] else 0, "theorems": ths,
                    "axioms": {k: a for k, a in g["axioms"].items() if a}}}


def _accept_one(modelrun, sc, r):
    lines, _ = txnlab.project(sc, r)
    rc, out = vlib.sh([modelrun], inp="trace\t0\n" + "\n".join(lines) + "\n", timeout=120)
    for l in out.splitlines():
        f = l.split("\t") if "\t" in l else l.split(None, 4)
        if f and f[0] == "REJECT":
            return f[-1]
    return None


_ORDER_CODES = ("S_cts_committed", "S_cts_locked", "S_cts_rolledback", "S_csl_commit", "S_csl_locks")
_APPLY = ("prewrite_deliver", "commit_deliver", "resolve_deliver", "rollback_deliver")


def _log_order_repair(modelrun, lines, tries=4):
    """The gate logs `deliver` after the store call returns: a status read (CheckTxnStatus / CheckSecondaryLocks) can be logged
    before the `deliver` line of the in-flight request whose effect it observed (same transaction, same key). If the acceptor
    rejects such a read with a store-check code, the deliver line of a request of that transaction that was already sent and is
    logged later is hoisted in front of the read and the trace is judged again (the store's answer shows that request had been
    applied). Returns True if some such re-ordering is accepted."""
    cur = list(lines)
    for _ in range(tries):
        rc, out = vlib.sh([modelrun], inp="trace\t0\n" + "\n".join(cur) + "\n", timeout=120)
        f = next((l.split("\t") for l in out.splitlines() if l.startswith(("ACCEPT", "REJECT"))), None)
        if f is None:
            return False
        if f[0] == "ACCEPT":
            return True
        if f[-1] not in _ORDER_CODES or not f[2].isdigit():
            return False
        i = int(f[2])
        ev = cur[i].split("\t")
        txn = ev[2] if len(ev) > 2 else None
        moved = False
        for j in range(i + 1, len(cur)):
            g = cur[j].split("\t")
            if g[0] in _APPLY and len(g) > 2 and g[2] == txn:
                send = g[0].replace("_deliver", "_send")
                # the request must have been sent before the read
                if any(h.split("\t")[0] == send and h.split("\t")[1:3] == g[1:3] for h in cur[:i]):
                    cur.insert(i, cur.pop(j))
                    moved = True
                    break
        if not moved:
            return False
    return False


def run_acceptor(traces, verdict, pid, max_report=3, exe=None):
    """traces: list of (scenario, result). Returns coverage dict. A rejected trace is reported as a violation with
    the trace as the failing input (the request stream broke a rule) — only if the acceptor exists."""
    okm, modelrun = vlib.build_model("Percolator") if os.path.exists(os.path.join(vlib.COQ, "extract", "Percolator.v")) else (False, "no acceptor yet")
    if not okm:
        return {"traces_validated_against_impl": 0, "acceptor": "unavailable: " + str(modelrun)[:200]}
    inp = []
    idx = {}
    for n, (sc, r) in enumerate(traces):
        if r.get("fatal"):
            continue
        lines, _ = txnlab.project(sc, r)
        inp.append(f"trace\t{n}")
        inp.extend(lines)
        idx[str(n)] = (sc, r, lines)
    rc, out = vlib.sh([modelrun], inp="\n".join(inp) + "\n", timeout=900)
    acc = rej = 0
    accepted = set()
    reasons = {}
    unrepro = {}
    repaired = {}
    reported = 0
    for l in out.splitlines():
        f = l.split(None, 4) if not "\t" in l else l.split("\t")
        if not f:
            continue
        if f[0] == "ACCEPT":
            acc += 1
            accepted.add(f[1])
        elif f[0] == "REJECT":
            rej += 1
            sc, r, lines = idx.get(f[1], (None, None, None))
            reason = f[-1]
            reasons[reason] = reasons.get(reason, 0) + 1
            reproduced = True
            if lines is not None and reason in _ORDER_CODES and _log_order_repair(modelrun, lines):
                repaired[reason] = repaired.get(reason, 0) + 1
                continue
            if sc is not None and exe is not None and rej <= 12:
                # a rejection is re-run (same scenario, alone): one that does not reproduce in 3 further runs is counted per reason
                # code; with a STORE-CHECK code (S_*, N_*, ...) it is not reported (environment / scheduling artefact; the outcome
                # oracles judge every run anyway), with a CLIENT-RULE code (R*) it is reported all the same: since the gate
                # serialises store call + deliver line (docs/TXN.md) the log cannot have produced it
                again = txnlab.run_scenarios(exe, [dict(sc, id=f"{sc['id']}-again{i}") for i in range(3)], jobs=3)
                if not any(_accept_one(modelrun, sc, r2) == reason for r2 in again if not r2.get("fatal")):
                    unrepro[reason] = unrepro.get(reason, 0) + 1
                    reproduced = False
                    if not reason.startswith("R"):
                        continue
            if reported < max_report and sc is not None:
                reported += 1
                verdict.violation({"kind": "request-stream-rule", "rule": reason, "reproduced_in_rerun": reproduced, "rejected_event_index": f[2], "rejected_event": f[3:-1],
                                   "scenario": sc, "events": lines[: int(f[2]) + 1][-60:] if f[2].isdigit() else lines[-60:]})
    # final abstract state of the acceptor vs the real store's MVCC records (ties the per-transaction store abstraction)
    cmp_n = cmp_bad = 0
    for l in out.splitlines():
        f = l.split("\t")
        # only the final state of an ACCEPTed trace is comparable with the store (a rejected trace's state is the one
        # before the rejected event; the driver tags those lines RSTATE)
        if len(f) < 6 or f[0] != "STATE" or f[1] not in idx or f[1] not in accepted:
            continue
        sc, r, lines = idx[f[1]]
        audit = r.get("audit") or r.get("audit_pre") or {}
        try:
            S = int(f[2], 16)
        except ValueError:
            continue
        _, keyid = txnlab.project(sc, r)
        name_of = {("%x" % v): bytes.fromhex(k).decode(errors="replace") for k, v in keyid.items()}
        kfield = next((x for x in f if x.startswith("keys=")), "keys=")[5:]
        if sc.get("program"):
            muts = txnlab.program_mutations(sc, r).get(S, {})
        else:
            muts = txnlab.expected_mutations(sc["txn"]) if sc.get("txn", {}).get("ops") and S == r.get("start_ts") else {}
        for item in [x for x in kfield.split(",") if x]:
            kid, _, kst = item.partition(":")
            kname = name_of.get(kid)
            a = audit.get(kname) if kname else None
            if a is None or a.get("err"):
                continue
            has_lock = bool(a.get("lock")) and a["lock"].get("start") == S
            commits = [w["commit"] for w in a.get("writes", []) if w["start"] == S and w["type"] in ("Put", "Delete", "Del", "Lock")]
            alts = kst.split("|")
            if muts.get(kname) == "cne":
                # the model has no mutation kinds: a prewritten CheckNotExists key stays "locked" there, the store never locks it
                cmp_n += 1
                if has_lock or commits:
                    cmp_bad += 1
                    verdict.violation({"kind": "correspondence", "correspondence": "CheckNotExists key left a record", "scenario": sc, "key": kname,
                                       "store": {"lock": a.get("lock"), "writes": a.get("writes")}}, has_input=False)
                continue
            ok = False
            for alt in alts:
                if alt.startswith("committed:"):
                    c = int(alt.split(":")[1], 16)
                    # unistore writes no record for a committed lock-only key
                    if c in commits or (muts.get(kname) == "lock" and not has_lock):
                        ok = True
                elif alt.startswith("locked"):
                    ok = ok or has_lock
                elif alt.startswith("rolledback") or alt.startswith("unlocked"):
                    ok = ok or (not has_lock and not commits)
                else:
                    ok = True
            cmp_n += 1
            if not ok:
                cmp_bad += 1
                if cmp_bad <= 2:
                    verdict.violation({"kind": "correspondence", "correspondence": "Percolator acceptor's abstract store vs MvccGetByKey", "scenario": sc, "txn": f[2], "key": kname,
                                       "model_state": kst, "store": {"lock": a.get("lock"), "writes": a.get("writes")},
                                       "what": "after an accepted trace the abstract per-transaction store state differs from the real store"}, has_input=False)
    if rc != 0 and acc + rej == 0:
        verdict.violation({"kind": "harness", "correspondence": "Percolator acceptor run", "error": out[-500:]}, has_input=False)
    return {"traces_validated_against_impl": acc + rej, "acceptor_accepted": acc, "acceptor_rejected": rej, "acceptor_reject_reasons": reasons, "acceptor_rejections_not_reproduced": unrepro, "acceptor_log_order_repaired": repaired,
            "acceptor_state_vs_store_compared": cmp_n, "acceptor_state_vs_store_mismatches": cmp_bad}


def thorough_coqchk(module, cov, verdict):
    """independent re-check of the compiled theories (thorough tier); axioms reported into the evidence"""
    okc, outc = vlib.coqchk([module], timeout=2700)
    cov["coqchk"] = "ok" if okc else "FAILED"
    cov["coqchk_axioms"] = [l.strip() for l in outc.splitlines() if "axiom" in l.lower()][:10]
    if not okc:
        verdict.violation({"kind": "proof", "theorem_or_file": ["coqchk %s failed: %s" % (module, outc[-400:])], "what": "independent checker rejected the compiled theories"}, has_input=False)
