"""Shared helpers for /verif checks: Coq build + assumption audit, extraction + OCaml model drivers,
Go harness build through `go build -tags verif -overlay`, evidence / violation / known-finding protocol."""
import json, os, re, subprocess, sys, time, hashlib, shutil, glob

VERIF = os.path.dirname(os.path.dirname(os.path.abspath(__file__)))
REPO = os.environ.get("VERIF_REPO", "/repo")
BUILD = os.environ.get("VERIF_BUILD", os.path.join(VERIF, "build"))
COQ = os.path.join(VERIF, "coq")
SEED = int(os.environ.get("VERIF_SEED", "1") or "1")
TIER = os.environ.get("VERIF_TIER", "quick") or "quick"

ALLOWED_AXIOMS = {
    # standard-library axioms tolerated if a proof pulls them in (named in the trusted base)
    "functional_extensionality_dep", "proof_irrelevance", "JMeq_eq", "Eq_rect_eq.eq_rect_eq",
    "Eqdep.Eq_rect_eq.eq_rect_eq", "classic", "propositional_extensionality",
}
FORBIDDEN = re.compile(r"\b(Admitted|admit|Axiom|Axioms|Parameter|Parameters|Conjecture|Conjectures|Admit Obligations|"
                       r"Unset Guard Checking|Unset Positivity Checking|Unset Universe Checking|bypass_check|"
                       r"type-in-type|impredicative-set|native_compute)\b")

TRUSTED_BASE = [
    "Coq 8.16.1 kernel via coqc (full .vo build, no -vos/-vok; vm_compute used in finite-domain steps; no native_compute)",
    "coqchk as independent re-checker in the thorough tier",
    "no Axiom/Parameter/Admitted in the development (grep audit on every run); Print Assumptions per theorem parsed on every run",
    "hand-written Gallina model tied to /repo by the correspondence check only (differential testing, not proof)",
    "extraction: Require Extraction + ExtrOcamlBasic only (bool/option/list/prod/unit/sumbool natives); N/Z/positive/nat stay inductive; no Extract Constant",
    "hand-written OCaml line-protocol drivers, python orchestration/differ, Go harness drivers (overlay, build tag verif)",
]


def log(*a):
    print(*a, file=sys.stderr, flush=True)


def goenv():
    e = dict(os.environ)
    e["GOFLAGS"] = "-mod=mod"
    e["GOPROXY"] = "off"
    e.pop("GOTOOLCHAIN", None)
    e.pop("GOSUMDB", None)
    return e


def sh(cmd, cwd=None, env=None, timeout=1800, inp=None):
    """run, return (rc, stdout+stderr)"""
    try:
        p = subprocess.run(cmd, cwd=cwd, env=env, shell=isinstance(cmd, str), stdout=subprocess.PIPE,
                           stderr=subprocess.STDOUT, timeout=timeout, input=inp, text=True, errors="replace")
        return p.returncode, p.stdout
    except subprocess.TimeoutExpired as ex:
        o = ex.stdout or ""
        if isinstance(o, bytes):
            o = o.decode(errors="replace")
        return 124, o + "\nTIMEOUT"


# ---------------------------------------------------------------- Coq
def coq_build(targets, timeout=1500):
    """full .vo build of the given targets (paths relative to coq/, e.g. theories/Codec/Props.vo)."""
    rc, out = sh([os.path.join(COQ, "mk.sh")] + list(targets), cwd=COQ, timeout=timeout)
    return rc == 0, out


def _strip_comments(src):
    res, depth, i = [], 0, 0
    while i < len(src):
        if src.startswith("(*", i):
            depth += 1; i += 2; continue
        if src.startswith("*)", i) and depth > 0:
            depth -= 1; i += 2; continue
        if depth == 0:
            res.append(src[i])
        elif src[i] == "\n":
            res.append("\n")
        i += 1
    return "".join(res)


EXTRACT_FORBIDDEN = re.compile(r"\b(Extract\s+(Inlined\s+)?Constant|Extract\s+Inductive|Extraction\s+(Implicit|Inline|NoInline|Blacklist))\b")


def coq_dep_closure(dirs):
    """area directories (relative to coq/) reachable from `dirs` through `Verif.<Area>` imports, plus their extract/<Area>.v"""
    seen, todo = [], list(dirs)
    while todo:
        d = todo.pop()
        if d in seen or not os.path.isdir(os.path.join(COQ, d)):
            continue
        seen.append(d)
        for f in glob.glob(os.path.join(COQ, d, "*.v")):
            code = _strip_comments(open(f).read())
            areas = set(re.findall(r"\bVerif\.([A-Z][A-Za-z0-9_]*)\b", code))
            for sent in re.findall(r"From\s+Verif\s+Require[^.]*?((?:\s+[A-Za-z0-9_.']+)+)\s*\.(?:\s|$)", code):
                areas |= {w.split(".")[0] for w in sent.split() if "." in w}
            for a in areas:
                t = os.path.join("theories", a)
                if t not in seen:
                    todo.append(t)
    files = []
    for d in seen:
        files += sorted(glob.glob(os.path.join(COQ, d, "**", "*.v"), recursive=True))
        ex = os.path.join(COQ, "extract", os.path.basename(d) + ".v")
        if os.path.exists(ex):
            files.append(ex)
    return sorted(set(files))


def coq_forbidden_scan(dirs):
    """audit of the property's areas, of every area they import (transitively) and of the extraction files: forbidden
    constructs anywhere in a sentence (comments stripped), extraction directives beyond ExtrOcamlBasic, and
    Variable/Hypothesis/Context outside a Section (Section / Module nesting tracked sentence by sentence).
    Returns a list of offending 'file:line: text'."""
    bad = []
    for f in coq_dep_closure(dirs):
        code = _strip_comments(open(f).read())
        rel = os.path.relpath(f, COQ)
        for n, line in enumerate(code.split("\n"), 1):
            if FORBIDDEN.search(line) or EXTRACT_FORBIDDEN.search(line):
                bad.append(f"{rel}:{n}: {line.strip()}")
        # sentence level: a vernacular sentence ends with '.' followed by white space
        stack, pos = [], 0
        for m in re.finditer(r"\.(\s+|$)", code):
            sent = code[pos:m.start()]
            n = code.count("\n", 0, pos + (len(sent) - len(sent.lstrip()))) + 1
            pos = m.end()
            head = sent.strip()
            mm = re.match(r"(Section|Module\s+Type|Module|End|Variable|Variables|Hypothesis|Hypotheses|Context)\b\s*([A-Za-z0-9_']*)", head)
            if not mm:
                continue
            kw = re.sub(r"\s+", " ", mm.group(1))
            if kw == "Section":
                stack.append("S")
            elif kw in ("Module", "Module Type"):
                if ":=" not in head:          # `Module X := F(Y).` opens nothing
                    stack.append("M")
            elif kw == "End":
                if stack:
                    stack.pop()
            elif "S" not in stack:
                bad.append(f"{rel}:{n}: {head[:80]} (outside section)")
    return sorted(set(bad))


def theorems_in(props_file):
    src = open(os.path.join(COQ, props_file)).read()
    return re.findall(r"^\s*Theorem\s+([A-Za-z0-9_']+)", src, flags=re.M)


def coq_assumptions(module, theorems, timeout=300):
    """Print Assumptions for each theorem of a compiled module; returns {thm: [axioms]} ('closed' => [])."""
    os.makedirs(os.path.join(BUILD, "audit"), exist_ok=True)
    f = os.path.join(BUILD, "audit", "Audit_" + module.replace(".", "_") + ".v")
    with open(f, "w") as fh:
        fh.write(f"From Verif Require Import {module}.\n")
        for t in theorems:
            fh.write(f'Redirect "{f}.{t}" Print Assumptions {t}.\n')
    rc, out = sh(["coqc", "-R", os.path.join(COQ, "theories"), "Verif", f], cwd=os.path.join(BUILD, "audit"), timeout=timeout)
    res = {}
    if rc != 0:
        return None, out
    for t in theorems:
        txt = open(f"{f}.{t}.out").read()
        if "Closed under the global context" in txt:
            res[t] = []
        else:
            ax = re.findall(r"^([A-Za-z0-9_.']+)\s*:", txt, flags=re.M)
            res[t] = ax
    return res, out


def coq_gate(pid, area_dirs, props):
    """Build + audit for a property. props = list of (props_file relative to coq/, module name).
    Returns dict(ok, obligations, discharged, axioms, problems[list of str], theorems[list])"""
    r = dict(ok=True, obligations=0, discharged=0, axioms={}, problems=[], theorems=[])
    targets = [p[0][:-2] + ".vo" for p in props]
    ok, out = coq_build(targets)
    for pf, mod in props:
        ths = theorems_in(pf)
        r["obligations"] += len(ths)
        r["theorems"] += ths
    if not ok:
        r["ok"] = False
        m = re.findall(r'File "([^"]+)", line (\d+).*?\n(Error:[^\n]*(?:\n[^\n]+){0,6})', out, flags=re.S)
        r["problems"].append("coq build failed: " + (f"{m[0][0]}:{m[0][1]} {m[0][2][:400]}" if m else out[-600:]))
        # which property files still compile individually?
        for pf, mod in props:
            ok1, _ = coq_build([pf[:-2] + ".vo"])
            if ok1:
                a, _ = coq_assumptions(mod, theorems_in(pf))
                if a:
                    r["discharged"] += len(a)
        return r
    bad = coq_forbidden_scan(area_dirs)
    if bad:
        r["ok"] = False
        r["problems"].append("forbidden constructs: " + "; ".join(bad[:10]))
    for pf, mod in props:
        ths = theorems_in(pf)
        a, out2 = coq_assumptions(mod, ths)
        if a is None:
            r["ok"] = False
            r["problems"].append("Print Assumptions failed for " + mod + ": " + out2[-300:])
            continue
        for t, ax in a.items():
            extra = [x for x in ax if x not in ALLOWED_AXIOMS and x.split(".")[-1] not in ALLOWED_AXIOMS]
            r["axioms"][t] = ax
            if extra:
                r["ok"] = False
                r["problems"].append(f"theorem {t} depends on non-allowed assumptions {extra}")
            else:
                r["discharged"] += 1
    return r


def coqchk(modules, timeout=3000):
    rc, out = sh(["coqchk", "-silent", "-o", "-R", os.path.join(COQ, "theories"), "Verif"] + modules, cwd=COQ, timeout=timeout)
    return rc == 0, out


# ---------------------------------------------------------------- extraction / OCaml
def build_model(area):
    """coq/extract/<Area>.v extracts to build/ocaml/<area>/<area>_model.ml ; driver = ocaml/<area>/driver.ml;
    common helpers ocaml/common/common.ml are textually appended after the model. Returns (ok, exe_or_log)."""
    a = area.lower()
    d = os.path.join(BUILD, "ocaml", a)
    os.makedirs(d, exist_ok=True)
    ex = os.path.join(COQ, "extract", area + ".v")
    rc, out = sh(["coqc", "-R", os.path.join(COQ, "theories"), "Verif", "-o", os.path.join(d, area + ".vo"), ex], cwd=d, timeout=600)
    if rc != 0:
        return False, "extraction failed: " + out[-800:]
    model = os.path.join(d, a + "_model.ml")
    if not os.path.exists(model):
        return False, "extraction produced no " + model
    parts = [model, os.path.join(VERIF, "ocaml", "common", "common.ml"), os.path.join(VERIF, "ocaml", a, "driver.ml")]
    with open(os.path.join(d, "main.ml"), "w") as fh:
        for p in parts:
            fh.write(f'# 1 "{p}"\n')
            fh.write(open(p).read() + "\n")
    for junk in glob.glob(os.path.join(d, "*.mli")):
        os.remove(junk)
    exe = os.path.join(d, "modelrun")
    rc, out = sh(["ocamlfind", "ocamlopt", "-O2" if False else "-inline", "50", "-w", "-a", "-package", "str", "-linkpkg", "main.ml", "-o", exe], cwd=d, timeout=600)
    if rc != 0:
        return False, "ocaml build failed: " + out[-1500:]
    return True, exe


# ---------------------------------------------------------------- Go harness
def overlay_json(roots=("overlay",)):
    """maps every file under harness/go/<root>/<rel> to REPO/<rel> for each root; returns path of the json.
    Separate roots (e.g. "ov_c09") keep one area's unexported-access files from breaking other drivers' builds."""
    rep = {}
    for r in roots:
        root = os.path.join(VERIF, "harness", "go", r)
        for dp, dn, fn in os.walk(root):
            for f in fn:
                src = os.path.join(dp, f)
                rel = os.path.relpath(src, root)
                rep[os.path.join(REPO, rel)] = src
    os.makedirs(BUILD, exist_ok=True)
    tag = hashlib.sha1((REPO + "|" + ",".join(roots)).encode()).hexdigest()[:8]
    p = os.path.join(BUILD, f"overlay-{tag}.json")
    with open(p, "w") as fh:
        json.dump({"Replace": rep}, fh, indent=0)
    return p


def go_build(driver, pkg=None, timeout=900, module_dir=None, roots=("overlay",), tags="verif", race=False):
    """build REPO/internal/zz_verif/<driver> (virtual, via overlay) with -tags verif. Returns (ok, exe_or_log)."""
    ov = overlay_json(tuple(roots))
    tag = hashlib.sha1(REPO.encode()).hexdigest()[:8]
    exe = os.path.join(BUILD, "bin", f"{driver}-{tag}")
    os.makedirs(os.path.dirname(exe), exist_ok=True)
    pkg = pkg or f"./internal/zz_verif/{driver}"
    extra = []
    if module_dir and os.path.abspath(module_dir) != os.path.abspath(REPO):
        # build in a nested module (integration_tests) without ever touching its go.mod/go.sum:
        # -mod=mod may rewrite them, so point -modfile at a scratch copy
        mf = os.path.join(BUILD, f"modfile-{tag}-{os.path.basename(module_dir)}.mod")
        shutil.copyfile(os.path.join(module_dir, "go.mod"), mf)
        if os.path.exists(os.path.join(module_dir, "go.sum")):
            shutil.copyfile(os.path.join(module_dir, "go.sum"), mf[:-4] + ".sum")
        extra = ["-modfile", mf]
    cmd = ["go", "build", "-tags", tags, "-overlay", ov, "-o", exe] + extra + (["-race"] if race else []) + [pkg]
    rc, out = sh(cmd, cwd=module_dir or REPO, env=goenv(), timeout=timeout)
    if rc != 0:
        return False, out[-3000:]
    return True, exe


# ---------------------------------------------------------------- evidence / verdict
def known_findings(pid):
    p = os.path.join(VERIF, "known_findings.json")
    if not os.path.exists(p):
        return []
    return [k for k in json.load(open(p)).get("findings", []) if k.get("property") == pid and k.get("status") == "known"]


def write_evidence(pid, coverage, t0, violations=0, level="proof", assumptions=None):
    ev = {
        "property_id": pid, "tier": TIER if TIER in ("quick", "thorough") else "quick", "seed": SEED, "level": level,
        "coverage": coverage, "assumptions": assumptions or [], "wall_s": round(time.time() - t0, 2), "violations": violations,
    }
    # evidence/ is what gets committed: it must come from runs against /repo itself; a run against another tree
    # (VERIF_REPO = a scratch worktree with a seeded change) leaves its evidence in the build directory instead
    evdir = os.path.join(VERIF, "evidence") if os.path.realpath(REPO) == "/repo" else os.path.join(BUILD, "evidence")
    ev["repo"] = os.path.realpath(REPO)
    os.makedirs(evdir, exist_ok=True)
    with open(os.path.join(evdir, pid + ".json"), "w") as fh:
        json.dump(ev, fh, indent=1, sort_keys=True)
    return ev


def write_replay(pid, obj):
    d = os.path.join(VERIF, "replays")
    os.makedirs(d, exist_ok=True)
    h = hashlib.sha1(json.dumps(obj, sort_keys=True, default=str).encode()).hexdigest()[:10]
    p = os.path.join(d, f"{pid}-{SEED}-{h}.json")
    with open(p, "w") as fh:
        json.dump(obj, fh, indent=1, default=str)
    return p


class Verdict:
    """collects violations / known findings, prints the protocol lines, returns the exit code"""

    def __init__(self, pid):
        self.pid = pid
        self.violations = []   # (replay_obj, has_input)
        self.known = []

    def violation(self, replay_obj, has_input=True):
        # match against known findings by fingerprint predicate (substring match on declared keys)
        for k in known_findings(self.pid):
            fp = k.get("fingerprint", {})
            if fp and all(str(v) in str(replay_obj.get(kk, "")) for kk, v in fp.items()):
                self.known.append((k, replay_obj))
                return
        self.violations.append((replay_obj, has_input))

    def finish(self):
        seen = set()
        for k, _ in self.known:
            if k["id"] in seen:
                continue
            seen.add(k["id"])
            print(f"KNOWN-FINDING: property={self.pid} {k['what']}", flush=True)
        if not self.violations:
            return 0
        # one VIOLATION line per distinct kind (at most 5)
        shown = 0
        for obj, has_input in self.violations:
            if shown >= 5:
                break
            p = write_replay(self.pid, obj)
            tail = "" if has_input else " no-failing-input-found"
            print(f"VIOLATION property={self.pid} replay={p}{tail}", flush=True)
            shown += 1
        return 1
