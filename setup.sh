#!/bin/sh
# Build everything from files on disk, offline: Coq project (clean, full .vo), extracted models, Go harness warm-up.
set -e
cd "$(dirname "$0")"
export GOFLAGS=-mod=mod GOPROXY=off
rm -rf build
mkdir -p build
(cd coq && find theories -name '*.vo' -o -name '*.glob' -o -name '*.vok' -o -name '*.vos' -o -name '.*.aux' | xargs rm -f; rm -f _CoqProject Makefile Makefile.conf .Makefile.d; ./mk.sh -k) > build/setup-coq.log 2>&1 || { tail -5 build/setup-coq.log; echo "coq build: some targets failed (each check rebuilds and reports its own targets)"; }
(cd /repo && go build ./... ) > build/setup-go.log 2>&1 || { tail -30 build/setup-go.log; echo "go warm-up failed (continuing)"; }
python3 - <<'PY' >> build/setup-go.log 2>&1 || true
import sys; sys.path.insert(0, "lib")
import txnlab
print(txnlab.build_driver())
PY
echo setup ok
