(* Region/Model.v — executable model of internal/locate region cache lookups (property C09).
   Key ranges follow the code's convention: an empty end key means +inf.
   The cache index is a list of region records sorted by start key (the B-tree of
   sorted_btree.go), plus the by-version map (verid -> start key of the entry it points to)
   and latestVersions (id -> (ver, conf)).  PD is an oracle [pd : nat -> pd_req -> pd_ans]
   indexed by a call counter: it may answer every call differently (stale, reordered). *)
From Verif Require Import Base.Lex.
Open Scope N_scope.

Definition is_nil {A} (l : list A) : bool := match l with [] => true | _ => false end.

(* contains(startKey, endKey, key) and Region.ContainsByEnd *)
Definition contains (s e k : bytes) : bool := lex_leb s k && (lex_ltb k e || is_nil e).
Definition contains_by_end (s e k : bytes) : bool :=
  if is_nil k then is_nil e else lex_ltb s k && (lex_leb k e || is_nil e).

Definition peer := (N * N)%type.     (* peer id, store id *)
Definition peer_eqb (a b : peer) : bool := (fst a =? fst b) && (snd a =? snd b).
Definition verid := (N * N * N)%type. (* id, ver, conf *)
Definition verid_eqb (a b : verid) : bool :=
  let '(i, v, c) := a in let '(i', v', c') := b in (i =? i') && (v =? v') && (c =? c').
Definition range := (bytes * bytes)%type.

(* a region description as returned by PD (router.Region) or carried by an EpochNotMatch error *)
Record desc := mkDesc {
  d_id : N; d_start : bytes; d_end : bytes; d_ver : N; d_conf : N;
  d_peers : list peer; d_leader : peer; (* (0,0) = no leader *)
  d_bk : option (N * list bytes)      (* metapb.Buckets: version and boundary keys, as reported *) }.

(* a cached *Region *)
Record region := mkRegion {
  r_id : N; r_start : bytes; r_end : bytes; r_ver : N; r_conf : N;
  r_peers : list peer; r_work : nat;          (* workTiKVIdx *)
  r_expired : bool;                           (* ts > ttl (TTL run out or invalidated) *)
  r_reason : N;                               (* invalidReason: 0 Ok 1 NoLeader 2 RegionNotFound 3 EpochNotMatch 4 StoreNotFound 5 Other *)
  r_reload : bool; r_pending : bool; r_ready : bool; (* needReloadOnAccess, needDelayedReloadPending, needDelayedReloadReady *)
  r_sepochs : list N;                         (* regionStore.storeEpochs: the store fail-epochs seen when the entry was made *)
  r_bk : option (N * list bytes)              (* regionStore.buckets *) }.

Definition r_verid (r : region) : verid := (r_id r, r_ver r, r_conf r).
Definition r_contains (r : region) k := contains (r_start r) (r_end r) k.
Definition r_contains_end (r : region) k := contains_by_end (r_start r) (r_end r) k.

Record cache := mkCache {
  c_sorted : list region;               (* ascending by start key, start keys distinct *)
  c_regions : list (verid * bytes);     (* mu.regions: verid -> the entry (named by its start key) *)
  c_latest : list (N * (N * N));        (* mu.latestVersions: id -> (ver, conf) *)
  c_sepochs : list (N * N);             (* Store.epoch per store id (absent = 0): bumped by a send failure *)
  c_tomb : list N }.                    (* stores the cache knows to be tombstones (resolve state tombstone: no address) *)
Definition empty_cache := mkCache [] [] [] [] [].

(* ---- small assoc helpers ---- *)
Fixpoint lat_get (id : N) (l : list (N * (N * N))) : option (N * N) :=
  match l with [] => None | (i, v) :: t => if i =? id then Some v else lat_get id t end.
Definition lat_del (id : N) (l : list (N * (N * N))) := filter (fun p => negb (fst p =? id)) l.
Definition lat_set (id : N) (v : N * N) l := (id, v) :: lat_del id l.
Fixpoint reg_get (v : verid) (l : list (verid * bytes)) : option bytes :=
  match l with [] => None | (w, s) :: t => if verid_eqb w v then Some s else reg_get v t end.
Definition reg_del (v : verid) (l : list (verid * bytes)) := filter (fun p => negb (verid_eqb (fst p) v)) l.
Definition reg_set (v : verid) (s : bytes) l := (v, s) :: reg_del v l.

(* ---- SortedRegions ---- *)
Fixpoint ins_sorted (r : region) (l : list region) : list region :=
  match l with
  | [] => [r]
  | x :: t => match lex_cmp (r_start r) (r_start x) with
              | Lt => r :: l
              | Eq => r :: t
              | Gt => x :: ins_sorted r t
              end
  end.

(* SearchByKey: DescendLessOrEqual(key), skipping an entry that starts exactly at an end key *)
Fixpoint search_desc (items : list region) (key : bytes) (is_end : bool) : option region :=
  match items with
  | [] => None
  | r :: rest =>
      if is_end && bytes_eqb (r_start r) key then search_desc rest key is_end
      else if (if is_end then r_contains_end r key else r_contains r key) then Some r else None
  end.
Definition le_items (l : list region) (key : bytes) := filter (fun r => lex_leb (r_start r) key) l.
Definition search (l : list region) (key : bytes) (is_end : bool) : option region :=
  if is_end && is_nil key then
    (* the end of the key space: only the entry with the greatest start key can hold it (fix 0dbaf7e) *)
    match rev l with r :: _ => if r_contains_end r key then Some r else None | [] => None end
  else search_desc (rev (le_items l key)) key is_end.

Definition flagged (r : region) := r_reload r || r_ready r.

(* AscendGreaterOrEqual(startKey, endKey, limit): a contiguous chain of valid entries *)
Fixpoint ascend_chain (items : list region) (last_start e : bytes) (limit : nat) : list region :=
  match limit with
  | O => []
  | S n =>
    match items with
    | [] => []
    | r :: rest =>
        if negb (is_nil e) && lex_leb e (r_start r) then []
        else if r_expired r then []
        else if negb (r_contains r last_start) then []
        else r :: ascend_chain rest (r_end r) e n
    end
  end.
Definition ge_items (l : list region) (key : bytes) := filter (fun r => lex_leb key (r_start r)) l.
(* scanRegionsFromCache: the chain, then entries that need a reload are filtered out *)
Definition scan_from_cache (c : cache) (s e : bytes) (limit : nat) : list region :=
  filter (fun r => negb (flagged r)) (ascend_chain (ge_items (c_sorted c) s) s e limit).

(* removeIntersecting: scan entries with start >= r.start upwards *)
Fixpoint scan_inter (r : region) (items : list region) : list region * bool :=
  match items with
  | [] => ([], false)
  | x :: t =>
      if negb (is_nil (r_end r)) && lex_leb (r_end r) (r_start x) then ([], false)
      else if r_ver r <? r_ver x then ([], true)
      else let '(d, s) := scan_inter r t in (x :: d, s)
  end.
Definition lo_part (r : region) (l : list region) := filter (fun x => lex_ltb (r_start x) (r_start r)) l.
Definition hi_part (r : region) (l : list region) := filter (fun x => negb (lex_ltb (r_start x) (r_start r))) l.
(* returns (index afterwards, deleted entries, stale) *)
Definition remove_intersecting (r : region) (l : list region) : list region * list region * bool :=
  let '(d, s) := scan_inter r (hi_part r l) in
  if s then (l, [], true) else (lo_part r l ++ skipn (length d) (hi_part r l), d, false).

(* removeVersionFromCache *)
Definition remove_version (v : verid) (regs : list (verid * bytes)) (lat : list (N * (N * N))) :=
  let '(id, ver, conf) := v in
  (reg_del v regs,
   match lat_get id lat with
   | Some (ver', conf') => if (ver' =? ver) && (conf' =? conf) then lat_del id lat else lat
   | None => lat
   end).

Definition stale_by_latest (c : cache) (r : region) : bool :=
  match lat_get (r_id r) (c_latest c) with
  | Some (ov, oc) => (r_ver r <? ov) || (r_conf r <? oc)
  | None => false
  end.

(* regionIndexMu.insertRegionToCache; returns (inserted?, cache). The invalidateOldRegion flag only
   touches entries that leave the index, so it has no effect on the model state. *)
(* what the new entry takes over from the first intersected old entry: the work peer is rotated when the old one was
   invalidated for NoLeader; the old buckets are kept when the new region has none or older ones *)
Definition with_work (r old : region) : region :=
  if r_reason old =? 1
  then mkRegion (r_id r) (r_start r) (r_end r) (r_ver r) (r_conf r) (r_peers r)
         (Nat.modulo (S (r_work old)) (length (r_peers r))) (r_expired r) (r_reason r) (r_reload r) (r_pending r) (r_ready r) (r_sepochs r) (r_bk r)
  else r.
Definition bk_ver (b : option (N * list bytes)) : N := match b with Some (v, _) => v | None => 0 end.
Definition keep_bk (r old : region) : region :=
  let b := match r_bk r with
           | None => r_bk old
           | Some (v, _) => match r_bk old with Some (ov, _) => if v <? ov then r_bk old else r_bk r | None => r_bk r end
           end in
  mkRegion (r_id r) (r_start r) (r_end r) (r_ver r) (r_conf r) (r_peers r) (r_work r) (r_expired r) (r_reason r)
           (r_reload r) (r_pending r) (r_ready r) (r_sepochs r) b.
Definition inherit (r : region) (deleted : list region) : region :=
  match deleted with old :: _ => keep_bk (with_work r old) old | [] => r end.

Definition insert_region (c : cache) (r : region) : bool * cache :=
  if stale_by_latest c r then (false, c)
  else
    let '(l1, deleted, stale) := remove_intersecting r (c_sorted c) in
    if stale then (false, c)
    else
      let r1 := inherit r deleted in
      let '(regs, lat) := fold_left (fun acc d => remove_version (r_verid d) (fst acc) (snd acc)) deleted (c_regions c, c_latest c) in
      (true, mkCache (ins_sorted r1 l1) (reg_set (r_verid r1) (r_start r1) regs) (lat_set (r_id r1) (r_ver r1, r_conf r1) lat) (c_sepochs c) (c_tomb c)).

(* newRegion records the current fail-epoch of every peer's store; the model does it when the fresh region is handed
   to the cache (nothing can happen in between) *)
Fixpoint store_epoch (se : list (N * N)) (st : N) : N :=
  match se with [] => 0 | (s, e) :: t => if s =? st then e else store_epoch t st end.
Definition stamp (se : list (N * N)) (r : region) : region :=
  mkRegion (r_id r) (r_start r) (r_end r) (r_ver r) (r_conf r) (r_peers r) (r_work r) (r_expired r) (r_reason r)
           (r_reload r) (r_pending r) (r_ready r) (map (fun p : peer => store_epoch se (snd p)) (r_peers r)) (r_bk r).
Definition insert_new (c : cache) (r : region) : bool * cache := insert_region c (stamp (c_sepochs c) r).
(* the caller keeps using the region object it handed in; a successful insertion has updated that object in place
   (work peer rotation, inherited buckets) *)
Definition as_stored (c : cache) (lr : region) : region :=
  let r0 := stamp (c_sepochs c) lr in
  if fst (insert_region c r0) then inherit r0 (snd (fst (remove_intersecting r0 (c_sorted c)))) else lr.
Definition insert_all (c : cache) (rs : list region) : cache := fold_left (fun c r => snd (insert_new c r)) rs c.

(* ---- entries addressed through mu.regions ---- *)
Definition entry_at (c : cache) (s : bytes) (v : verid) : option region :=
  find (fun x => bytes_eqb (r_start x) s && verid_eqb (r_verid x) v) (c_sorted c).
Definition get_by_verid (c : cache) (v : verid) : option region :=
  match reg_get v (c_regions c) with Some s => entry_at c s v | None => None end.
Definition upd_entry (c : cache) (r : region) (f : region -> region) : cache :=
  mkCache (map (fun x => if bytes_eqb (r_start x) (r_start r) && verid_eqb (r_verid x) (r_verid r) then f x else x) (c_sorted c))
          (c_regions c) (c_latest c) (c_sepochs c) (c_tomb c).

Definition set_flags (rl pe rd : region -> bool) (r : region) : region :=
  mkRegion (r_id r) (r_start r) (r_end r) (r_ver r) (r_conf r) (r_peers r) (r_work r) (r_expired r) (r_reason r) (rl r) (pe r) (rd r) (r_sepochs r) (r_bk r).
Definition clear_access_flags := set_flags (fun _ => false) r_pending (fun _ => false).
Definition set_reload := set_flags (fun _ => true) r_pending r_ready.
Definition set_ready := set_flags r_reload r_pending (fun _ => true).
Definition set_work (w : nat) (r : region) : region :=
  mkRegion (r_id r) (r_start r) (r_end r) (r_ver r) (r_conf r) (r_peers r) w (r_expired r) (r_reason r) (r_reload r) (r_pending r) (r_ready r) (r_sepochs r) (r_bk r).
(* switchWorkLeaderToPeer: the new work peer's store epoch is read afresh *)
Fixpoint set_nth (i : nat) (v : N) (l : list N) : list N :=
  match l, i with [], _ => [] | _ :: t, O => v :: t | x :: t, S j => x :: set_nth j v t end.
Definition switch_work (se : list (N * N)) (i : nat) (r : region) : region :=
  mkRegion (r_id r) (r_start r) (r_end r) (r_ver r) (r_conf r) (r_peers r) i (r_expired r) (r_reason r) (r_reload r) (r_pending r) (r_ready r)
           (set_nth i (store_epoch se (snd (nth i (r_peers r) (0, 0)))) (r_sepochs r)) (r_bk r).
(* Region.invalidate: only the first reason sticks *)
Definition invalidate_r (reason : N) (r : region) : region :=
  if r_reason r =? 0 then
    mkRegion (r_id r) (r_start r) (r_end r) (r_ver r) (r_conf r) (r_peers r) (r_work r) true reason (r_reload r) (r_pending r) (r_ready r) (r_sepochs r) (r_bk r)
  else r.
Definition expire_r (r : region) : region :=
  mkRegion (r_id r) (r_start r) (r_end r) (r_ver r) (r_conf r) (r_peers r) (r_work r) true (r_reason r) (r_reload r) (r_pending r) (r_ready r) (r_sepochs r) (r_bk r).

(* newRegion: every peer is available in the modelled setting (no tombstone / down / witness peers) *)
Fixpoint last_idx (p : peer) (l : list peer) (i : nat) (acc : nat) : nat :=
  match l with [] => acc | q :: t => last_idx p t (S i) (if peer_eqb q p then i else acc) end.
Fixpoint first_idx (p : peer) (l : list peer) (i : nat) : option nat :=
  match l with [] => None | q :: t => if peer_eqb q p then Some i else first_idx p t (S i) end.
Definition new_region (d : desc) : region :=
  mkRegion (d_id d) (d_start d) (d_end d) (d_ver d) (d_conf d) (d_peers d)
           (last_idx (d_leader d) (d_peers d) 0 0) false 0 false false false [] (d_bk d).

(* ---- PD oracle ---- *)
Inductive pd_req :=
| ReqGet (k : bytes) | ReqPrev (k : bytes) | ReqById (id : N)
| ReqScan (s e : bytes) (limit : nat) | ReqBatch (rs : list range) (limit : nat).
Inductive pd_ans := PdOne (d : option desc) | PdMany (l : list desc).

Inductive res (A : Type) := Ok (a : A) | Err (code : N).
Arguments Ok {A} a. Arguments Err {A} code.
(* error codes: 1 PD budget used up (back-off exhausted)  2 region without peers  3 fuel
                4 oracle answer of the wrong shape  5 empty batch  6 region not found by id *)

(* rangesAfterKey *)
Fixpoint drop_covered (rs : list range) (split : bytes) : list range :=
  match rs with
  | [] => []
  | (s, e) :: t => if is_nil e || lex_ltb split e then rs else drop_covered t split
  end.
Definition ranges_after_key (rs : list range) (split : bytes) : list range :=
  match rs with
  | [] => []
  | _ =>
    let e_last := snd (last rs ([], [])) in
    if is_nil split || (negb (is_nil e_last) && lex_leb e_last split) then []
    else match drop_covered rs split with
         | [] => []
         | (s, e) :: t => (if lex_ltb s split then split else s, e) :: t
         end
  end.

(* regionsHaveGapInRanges *)
Inductive gap_state := GDone (gap : bool) | GCont (rs : list range) (ck : bytes).
Fixpoint gap_adv (rs : list range) (ck : bytes) : option (list range) :=
  match rs with
  | [] => None
  | (s, e) :: t =>
      if negb (is_nil e) && lex_leb e ck
      then match t with [] => None | _ => gap_adv t ck end
      else Some rs
  end.
Fixpoint gap_loop (infos : list desc) (rs : list range) (ck : bytes) : gap_state :=
  match infos with
  | [] => GCont rs ck
  | d :: infos' =>
      if lex_ltb ck (d_start d) then GDone true
      else if is_nil (d_end d) then GDone false
      else match gap_adv rs (d_end d) with
           | None => GDone false
           | Some rs' =>
               let ck' := match rs' with (s, _) :: _ => if lex_ltb (d_end d) s then s else d_end d | [] => d_end d end in
               gap_loop infos' rs' ck'
           end
  end.
Definition regions_have_gap (rs : list range) (infos : list desc) (limit : nat) : bool :=
  match rs with
  | [] => false
  | (s0, _) :: _ =>
    if is_nil infos then true else
    match gap_loop infos rs s0 with
    | GDone b => b
    | GCont rs' ck =>
        if (Nat.ltb 0 limit) && Nat.eqb (length infos) limit then false
        else match rs' with
             | [] => false
             | [(s, e)] => if is_nil ck then false else if is_nil e then true else lex_ltb ck e
             | _ => true
             end
    end
  end.

(* handleRegionInfos *)
Fixpoint handle_infos (infos : list desc) (need_leader : bool) : res (list region) :=
  match infos with
  | [] => Ok []
  | d :: t =>
      if need_leader && (fst (d_leader d) =? 0) then handle_infos t need_leader
      else if is_nil (d_peers d) then Err 2
      else match handle_infos t need_leader with Ok rs => Ok (new_region d :: rs) | Err e => Err e end
  end.

(* batchLocateRangesMerger *)
Definition mstate := (option bytes * list region * list region)%type.
Definition skip_covered (le : option bytes) (c : region) : bool :=
  match le with Some l => negb (is_nil (r_end c)) && lex_leb (r_end c) l | None => false end.
Fixpoint merge_take (le : option bytes) (u : region) (cs out : list region) : list region * list region :=
  match cs with
  | [] => ([], out)
  | c :: cs' =>
      if skip_covered le c then merge_take le u cs' out
      else if lex_leb (r_start u) (r_start c) then (cs, out)
      else merge_take le u cs' (out ++ [c])
  end.
Definition append_region (m : mstate) (u : region) : mstate :=
  let '(le, cs, out) := m in
  let '(cs1, out1) :=
    if is_nil (r_start u) then (cs, out ++ [u])
    else if (match le with Some l => lex_leb (r_start u) l | None => false end) then (cs, out ++ [u])
    else let '(cs', out') := merge_take le u cs out in (cs', out' ++ [u]) in
  if is_nil (r_end u) then (le, [], out1) else (Some (r_end u), cs1, out1).
Definition merger_build (m : mstate) : list region :=
  let '(le, cs, out) := m in out ++ filter (fun c => negb (skip_covered le c)) cs.
Definition merge_all (cs us : list region) : list region :=
  merger_build (fold_left append_region us (None, cs, [])).

Section WithPD.
Variable pd : nat -> pd_req -> pd_ans.
Variable budget : nat.      (* PD calls the back-off budget allows in this operation *)
Variable batch_limit : nat. (* defaultRegionsPerBatch *)

Definition call (t : nat) (q : pd_req) : option pd_ans := if Nat.ltb t budget then Some (pd t q) else None.

(* scanRegions / batchScanRegions: ask again while the answer is empty, has a gap or has no region with a leader *)
Fixpoint scan_loop (fuel t : nat) (q : pd_req) (rs : list range) (limit : nat) (need_leader : bool) : res (list region) * nat :=
  match fuel with
  | O => (Err 3, t)
  | S f =>
    match call t q with
    | None => (Err 1, t)
    | Some (PdOne _) => (Err 4, S t)
    | Some (PdMany infos) =>
        if is_nil infos then scan_loop f (S t) q rs limit need_leader
        else if regions_have_gap rs infos limit then scan_loop f (S t) q rs limit need_leader
        else match handle_infos infos need_leader with
             | Err e => (Err e, S t)
             | Ok [] => scan_loop f (S t) q rs limit need_leader
             | Ok regs => (Ok regs, S t)
             end
    end
  end.

(* loadRegion *)
Fixpoint load_region (fuel t : nat) (key : bytes) (is_end prev : bool) : res region * nat :=
  match fuel with
  | O => (Err 3, t)
  | S f =>
    match call t (if prev then ReqPrev key else ReqGet key) with
    | None => (Err 1, t)
    | Some (PdMany _) => (Err 4, S t)
    | Some (PdOne None) => load_region f (S t) key is_end prev
    | Some (PdOne (Some d)) =>
        if is_nil (d_peers d) then (Err 2, S t)
        else if is_end && negb prev && bytes_eqb (d_start d) key && negb (is_nil (d_start d))
             then load_region f (S t) key is_end true
             else (Ok (new_region d), S t)
    end
  end.

(* loadLastRegion (fix 0dbaf7e): the region whose end key is unbounded, scanning from the greatest cached start key
   with defaultRegionsPerBatch = 128 *)
Definition max_start (l : list region) : bytes := match rev l with r :: _ => r_start r | [] => [] end.
Fixpoint load_last (fuel t : nat) (start : bytes) : res region * nat :=
  match fuel with
  | O => (Err 3, t)
  | S f =>
    match scan_loop fuel t (ReqScan start [] 128) [(start, [])] 128 true with
    | (Err e, t1) => (Err e, t1)
    | (Ok regs, t1) =>
        match rev regs with
        | [] => (Err 5, t1)
        | lastr :: _ => if is_nil (r_end lastr) then (Ok lastr, t1) else load_last f t1 (r_end lastr)
        end
    end
  end.
(* loadRegion as findRegionByKey calls it *)
Definition load_for (c : cache) (fuel t : nat) (key : bytes) (is_end : bool) : res region * nat :=
  if is_end && is_nil key then load_last fuel t (max_start (c_sorted c)) else load_region fuel t key is_end false.

(* loadRegionByID *)
Definition load_by_id (t : nat) (id : N) : res region * nat :=
  match call t (ReqById id) with
  | None => (Err 1, t)
  | Some (PdMany _) => (Err 4, S t)
  | Some (PdOne None) => (Err 6, S t)
  | Some (PdOne (Some d)) => if is_nil (d_peers d) then (Err 2, S t) else (Ok (new_region d), S t)
  end.

(* findRegionByKey *)
Definition find_region_by_key (fuel t : nat) (c : cache) (key : bytes) (is_end : bool) : res region * cache * nat :=
  let miss := fun _ : unit =>
    match load_for c fuel t key is_end with
    | (Err e, t1) => (Err e, c, t1)
    | (Ok lr, t1) =>
        let '(ok, c1) := insert_new c lr in
        if ok then (Ok (as_stored c lr), c1, t1)
        else match load_for c1 fuel t1 key is_end with
             | (Err e, t2) => (Err e, c1, t2)
             | (Ok lr2, t2) => (Ok (as_stored c1 lr2), snd (insert_new c1 lr2), t2)
             end
    end in
  match search (c_sorted c) key is_end with
  | None => miss tt
  | Some r =>
      if r_expired r then miss tt
      else if flagged r then
        let c1 := upd_entry c r clear_access_flags in
        match load_for c fuel t key is_end with
        | (Err _, t1) => (Ok r, upd_entry c1 r set_reload, t1)
        | (Ok lr, t1) => (Ok (as_stored c1 lr), snd (insert_new c1 lr), t1)
        end
      else (Ok r, c, t)
  end.

(* tryFindRegionByKey *)
Definition try_find (c : cache) (key : bytes) (is_end : bool) : option region :=
  match search (c_sorted c) key is_end with
  | Some r => if r_expired r || flagged r then None else Some r
  | None => None
  end.

(* searchCachedRegionByID *)
Definition search_by_id (c : cache) (id : N) : option region :=
  match lat_get id (c_latest c) with
  | Some (ver, conf) => get_by_verid c (id, ver, conf)
  | None => None
  end.

(* LocateRegionByID *)
Definition locate_by_id (t : nat) (c : cache) (id : N) : res region * cache * nat :=
  let miss := fun _ : unit => match load_by_id t id with
              | (Err e, t1) => (Err e, c, t1)
              | (Ok lr, t1) => (Ok lr, snd (insert_new c lr), t1)
              end in
  match search_by_id c id with
  | Some r =>
      if r_expired r then miss tt
      else if flagged r then
        let c1 := upd_entry c r clear_access_flags in
        match load_by_id t id with
        | (Err _, t1) => (Ok r, upd_entry c1 r set_reload, t1)
        | (Ok lr, t1) => (Ok lr, snd (insert_new c1 lr), t1)
        end
      else (Ok r, c, t)
  | None => miss tt
  end.

(* BatchLoadRegionsWithKeyRange (ScanRegions; only regions with a leader) *)
Definition batch_load_range (fuel t : nat) (c : cache) (s e : bytes) (count : nat) : res (list region) * cache * nat :=
  match count with
  | O => (Err 5, c, t)
  | _ => match scan_loop fuel t (ReqScan s e count) [(s, e)] count true with
         | (Err e, t1) => (Err e, c, t1)
         | (Ok regs, t1) => (Ok regs, insert_all c regs, t1)
         end
  end.

(* BatchLoadRegionsWithKeyRanges (BatchScanRegions) *)
Definition batch_load_ranges (fuel t : nat) (c : cache) (rs : list range) (count : nat) (need_leader : bool) : res (list region) * cache * nat :=
  match rs with
  | [] => (Ok [], c, t)
  | _ => match count with
         | O => (Err 5, c, t)
         | _ => match scan_loop fuel t (ReqBatch rs count) rs count need_leader with
                | (Err e, t1) => (Err e, c, t1)
                | (Ok regs, t1) => (Ok regs, insert_all c regs, t1)
                end
         end
  end.

(* LoadRegionsInKeyRange *)
Fixpoint load_regions_in_range (fuel t : nat) (c : cache) (s e : bytes) (acc : list region) : res (list region) * cache * nat :=
  match fuel with
  | O => (Err 3, c, t)
  | S f =>
    match batch_load_range fuel t c s e batch_limit with
    | (Err x, c1, t1) => (Err x, c1, t1)
    | (Ok regs, c1, t1) =>
        let acc' := acc ++ regs in
        match rev regs with
        | [] => (Ok acc', c1, t1)
        | lastr :: _ => if r_contains_end lastr e then (Ok acc', c1, t1)
                        else load_regions_in_range f t1 c1 (r_end lastr) e acc'
        end
    end
  end.

(* LocateKeyRange *)
Inductive walk := WDone (acc : list region) | WNeed (s : bytes) (acc : list region) | WFuel.
Fixpoint cached_walk (n : nat) (c : cache) (s e : bytes) (acc : list region) : walk :=
  match n with
  | O => WFuel
  | S n' =>
    match try_find c s false with
    | None => WNeed s acc
    | Some r => if r_contains_end r e then WDone (acc ++ [r]) else cached_walk n' c (r_end r) e (acc ++ [r])
    end
  end.
Fixpoint locate_key_range (fuel t : nat) (c : cache) (s e : bytes) (acc : list region) : res (list region) * cache * nat :=
  match fuel with
  | O => (Err 3, c, t)
  | S f =>
    match cached_walk (S (length (c_sorted c))) c s e acc with
    | WFuel => (Err 3, c, t)
    | WDone res => (Ok res, c, t)
    | WNeed s1 acc1 =>
        match batch_load_ranges fuel t c [(s1, e)] batch_limit true with
        | (Err x, c1, t1) => (Err x, c1, t1)
        | (Ok regs, c1, t1) =>
            match rev regs with
            | [] => (Err 5, c1, t1)
            | lastr :: _ =>
                if r_contains_end lastr e then (Ok (acc1 ++ regs), c1, t1)
                else locate_key_range f t1 c1 (r_end lastr) e (acc1 ++ regs)
            end
        end
    end
  end.

(* BatchLocateKeyRanges, phase 1: what the cache can answer *)
Inductive cscan := CAll (cs : list region) (lastr : option region) | CPart (cs : list region) (lastr : option region) (s : bytes).
(* one batch of scanRegionsFromCache walked by the inner loop: (cached', last', start', result)
   result: 0 = go on with the next batch, 1 = hole (stop, not all), 2 = contains all *)
Fixpoint walk_batch (batch : list region) (s e : bytes) (cs : list region) (lastr : option region) : list region * option region * bytes * N :=
  match batch with
  | [] => (cs, lastr, s, 0)
  | r :: rest =>
      if negb (r_contains r s) then (cs, lastr, s, 1)
      else if r_contains_end r e then (cs ++ [r], Some r, s, 2)
      else walk_batch rest (r_end r) e (cs ++ [r]) (Some r)
  end.
Fixpoint cache_scan (fuel : nat) (c : cache) (s e : bytes) (cs : list region) (lastr : option region) : cscan :=
  match fuel with
  | O => CPart cs lastr s
  | S f =>
    let batch := scan_from_cache c s e batch_limit in
    let '(cs1, l1, s1, st) := walk_batch batch s e cs lastr in
    if st =? 2 then CAll cs1 l1
    else if st =? 1 then CPart cs1 l1 s1
    else if Nat.ltb (length batch) batch_limit then CPart cs1 l1 s1
    else cache_scan f c s1 e cs1 l1
  end.
Fixpoint phase1 (c : cache) (rs : list range) (lastr : option region) (cs : list region) (un : list range) : list region * list range :=
  match rs with
  | [] => (cs, un)
  | (s, e) :: rest =>
      let skip := match lastr with Some l => r_contains_end l e | None => false end in
      if skip then phase1 c rest lastr cs un
      else
        let s1 := match lastr with Some l => if r_contains l s then r_end l else s | None => s end in
        match try_find c s1 false with
        | None => phase1 c rest None cs (un ++ [(s1, e)])
        | Some r =>
            if r_contains_end r e then phase1 c rest (Some r) (cs ++ [r]) un
            else match cache_scan (S (length (c_sorted c))) c (r_end r) e (cs ++ [r]) (Some r) with
                 | CAll cs1 l1 => phase1 c rest l1 cs1 un
                 | CPart cs1 l1 s2 => phase1 c rest l1 cs1 (un ++ [(s2, e)])
                 end
        end
  end.
(* phase 2: load what is missing from PD, feed the merger *)
Fixpoint phase2 (fuel t : nat) (c : cache) (un : list range) (m : mstate) (need_leader : bool) : res mstate * cache * nat :=
  match un with
  | [] => (Ok m, c, t)
  | _ =>
    match fuel with
    | O => (Err 3, c, t)
    | S f =>
      match batch_load_ranges fuel t c (firstn (16 * batch_limit) un) batch_limit need_leader with
      | (Err x, c1, t1) => (Err x, c1, t1)
      | (Ok regs, c1, t1) =>
          match rev regs with
          | [] => (Err 5, c1, t1)
          | lastr :: _ => phase2 f t1 c1 (ranges_after_key un (r_end lastr)) (fold_left append_region regs m) need_leader
          end
      end
    end
  end.
Definition batch_locate (fuel t : nat) (c : cache) (rs : list range) (need_leader : bool) : res (list region) * cache * nat :=
  let '(cs, un) := phase1 c rs None [] [] in
  match phase2 fuel t c un (None, cs, []) need_leader with
  | (Err x, c1, t1) => (Err x, c1, t1)
  | (Ok m, c1, t1) => (Ok (merger_build m), c1, t1)
  end.

(* GroupKeysByRegion (no filter): the assignment key -> location, in key order *)
Fixpoint group_assign (fuel t : nat) (c : cache) (keys : list bytes) (lastl : option region) (acc : list (bytes * region)) : res (list (bytes * region)) * cache * nat :=
  match keys with
  | [] => (Ok acc, c, t)
  | k :: rest =>
      match (match lastl with Some l => if r_contains l k then Some l else None | None => None end) with
      | Some l => group_assign fuel t c rest lastl (acc ++ [(k, l)])
      | None =>
          match find_region_by_key fuel t c k false with
          | (Err x, c1, t1) => (Err x, c1, t1)
          | (Ok r, c1, t1) => group_assign fuel t1 c1 rest (Some r) (acc ++ [(k, r)])
          end
      end
  end.
Fixpoint group_add (v : verid) (k : bytes) (g : list (verid * list bytes)) : list (verid * list bytes) :=
  match g with
  | [] => [(v, [k])]
  | (w, ks) :: t => if verid_eqb w v then (w, ks ++ [k]) :: t else (w, ks) :: group_add v k t
  end.
Definition groups_of (asg : list (bytes * region)) : list (verid * list bytes) :=
  fold_left (fun g kr => group_add (r_verid (snd kr)) (fst kr) g) asg [].

(* ListRegionIDsInKeyRange *)
Fixpoint list_region_ids (fuel t : nat) (c : cache) (s e : bytes) (acc : list region) : res (list region) * cache * nat :=
  match fuel with
  | O => (Err 3, c, t)
  | S f =>
    match find_region_by_key fuel t c s false with
    | (Err x, c1, t1) => (Err x, c1, t1)
    | (Ok r, c1, t1) => if r_contains r e then (Ok (acc ++ [r]), c1, t1) else list_region_ids f t1 c1 (r_end r) e (acc ++ [r])
    end
  end.
End WithPD.

(* ---- reactions to store replies ---- *)
Definition invalidate (c : cache) (v : verid) (reason : N) : cache :=
  match get_by_verid c v with Some r => upd_entry c r (invalidate_r reason) | None => c end.

(* UpdateLeader *)
Definition update_leader (c : cache) (v : verid) (leader : option peer) (cur : nat) : cache :=
  match get_by_verid c v with
  | None => c
  | Some r =>
      match leader with
      | None => if Nat.eqb (r_work r) cur then upd_entry c r (set_work (Nat.modulo (S cur) (length (r_peers r)))) else c
      | Some p => match first_idx p (r_peers r) 0 with
                  | Some i => if Nat.eqb (r_work r) i then c else upd_entry c r (switch_work (c_sepochs c) i)
                  | None => upd_entry c r (invalidate_r 4)
                  end
      end
  end.

(* GetTiKVRPCContext for a leader read: the entry must be usable and nobody may have failed on the work peer's store
   since the entry recorded that store's epoch (else the entry is invalidated); returns it with its work peer *)
Definition rpc_ctx (c : cache) (v : verid) : option (region * peer) * cache :=
  match get_by_verid c v with
  | Some r =>
      if r_reload r || r_expired r then (None, c)
      else let p := nth (r_work r) (r_peers r) (0, 0) in
           if existsb (N.eqb (snd p)) (c_tomb c) then (None, upd_entry c r (invalidate_r 4)) (* no address: StoreNotFound *)
           else if store_epoch (c_sepochs c) (snd p) =? nth (r_work r) (r_sepochs r) 0 then (Some (r, p), c)
           else (None, upd_entry c r (invalidate_r 5))
  | None => (None, c)
  end.

(* OnSendFail with an error: bump the store's fail-epoch if the entry still has the current one, try the next peer,
   optionally ask for a reload *)
Fixpoint se_set (st : N) (e : N) (se : list (N * N)) : list (N * N) :=
  match se with [] => [(st, e)] | (s, x) :: t => if s =? st then (s, e) :: t else (s, x) :: se_set st e t end.
Definition on_send_fail (c : cache) (v : verid) (idx : nat) (reload : bool) : cache :=
  match get_by_verid c v with
  | None => c
  | Some r =>
      let st := snd (nth idx (r_peers r) (0, 0)) in
      let rec_e := nth idx (r_sepochs r) 0 in
      let se' := if store_epoch (c_sepochs c) st =? rec_e then se_set st (rec_e + 1) (c_sepochs c) else c_sepochs c in
      let f := fun x => let x1 := if Nat.eqb (r_work x) idx then set_work (Nat.modulo (S idx) (length (r_peers x))) x else x in
                        if reload then set_reload x1 else x1 in
      let c1 := upd_entry c r f in
      mkCache (c_sorted c1) (c_regions c1) (c_latest c1) se' (c_tomb c1)
  end.

(* OnRegionEpochNotMatch: (retry-after-back-off?, cache) *)
Fixpoint store_idx (st : N) (l : list peer) (i : nat) : option nat :=
  match l with [] => None | q :: t => if snd q =? st then Some i else store_idx st t (S i) end.
Definition region_on_store (bk : option (N * list bytes)) (d : desc) (st : N) : region :=
  let r := new_region (mkDesc (d_id d) (d_start d) (d_end d) (d_ver d) (d_conf d) (d_peers d) (0, 0) bk) in
  match store_idx st (d_peers d) 0 with Some i => set_work i r | None => r end.
Definition epoch_ahead (v : verid) (cur : list desc) : bool :=
  let '(id, ver, conf) := v in existsb (fun d => (d_id d =? id) && ((d_conf d <? conf) || (d_ver d <? ver))) cur.
Definition on_epoch_not_match (c : cache) (v : verid) (ctx_store : N) (cur : list desc) : res (bool * cache) :=
  match cur with
  | [] => Ok (false, invalidate c v 3)
  | _ =>
    if epoch_ahead v cur then Ok (true, c)
    else if existsb (fun d => is_nil (d_peers d)) cur then Err 2
    else
      let bk := match get_by_verid c v with Some x => r_bk x | None => None end in (* the new regions inherit the old buckets *)
      let news := map (fun d => region_on_store bk d ctx_store) cur in
      let keep := existsb (fun r => verid_eqb (r_verid r) v) news in
      let c1 := if keep then c else invalidate c v 3 in
      Ok (false, insert_all c1 news)
  end.

(* one cache GC round that covers the whole index *)
Definition gc (c : cache) : cache :=
  let dead := filter r_expired (c_sorted c) in
  let '(regs, lat) := fold_left (fun acc d => remove_version (r_verid d) (fst acc) (snd acc)) dead (c_regions c, c_latest c) in
  mkCache (map (fun r => if r_ready r then r else if r_pending r then set_ready r else r) (filter (fun r => negb (r_expired r)) (c_sorted c))) regs lat (c_sepochs c) (c_tomb c).

(* ---- buckets ---- *)
Definition set_bk (b : option (N * list bytes)) (r : region) : region :=
  mkRegion (r_id r) (r_start r) (r_end r) (r_ver r) (r_conf r) (r_peers r) (r_work r) (r_expired r) (r_reason r)
           (r_reload r) (r_pending r) (r_ready r) (r_sepochs r) b.
(* OnBucketVersionNotMatch *)
Definition on_bucket_version_not_match (c : cache) (v : verid) (ver : N) (keys : list bytes) : cache :=
  match get_by_verid c v with
  | None => c
  | Some r => match r_bk r with
              | Some (bv, _) => if bv <? ver then upd_entry c r (set_bk (Some (ver, keys))) else c
              | None => upd_entry c r (set_bk (Some (ver, keys)))
              end
  end.

(* sort.Search *)
Fixpoint bsearch (fuel i j : nat) (f : nat -> bool) : nat :=
  match fuel with
  | O => i
  | S fu => if Nat.ltb i j then let h := Nat.div2 (i + j) in if f h then bsearch fu i h f else bsearch fu (S h) j f else i
  end.
Definition sort_search (n : nat) (f : nat -> bool) : nat := bsearch (S n) 0 n f.

(* KeyLocation.locateBucket *)
Definition locate_bucket (keys : list bytes) (key : bytes) : option (bytes * bytes) :=
  match keys with
  | [] => None
  | _ =>
    let sl := (length keys - 1)%nat in
    let i := sort_search sl (fun i => lex_ltb key (nth i keys [])) in
    if Nat.eqb i 0 || (Nat.eqb i sl && negb (is_nil (nth sl keys [])) && lex_leb (nth sl keys []) key) then None
    else Some (nth (i - 1) keys [], nth i keys [])
  end.
(* clampBucketToRegion *)
Definition clamp_bucket (s e : bytes) (b : bytes * bytes) : bytes * bytes :=
  let bs := if lex_ltb (fst b) s then s else fst b in
  let be := if negb (is_nil e) && (is_nil (snd b) || lex_ltb e (snd b)) then e else snd b in
  if negb (is_nil be) && lex_leb be bs then (s, e) else (bs, be).
(* KeyLocation.LocateBucket on a location [s,e) that carries bucket keys (Buckets != nil) *)
Definition locate_bucket_full (s e : bytes) (keys : list bytes) (key : bytes) : option (bytes * bytes) :=
  match locate_bucket keys key with
  | Some b => Some (clamp_bucket s e b)
  | None =>
      if negb (contains s e key) then None
      else match keys with
           | [] => Some (s, e)
           | first :: _ =>
               if lex_ltb key first then Some (s, first)
               else let lastk := last keys [] in
                    if lex_leb lastk key then Some (lastk, e) else None (* "Unreachable" *)
           end
  end.

(* UpdateBucketsIfNeeded (the background reload is run to completion) *)
Definition update_buckets (pd : nat -> pd_req -> pd_ans) (budget t : nat) (c : cache) (v : verid) (req latest : N) : cache * nat :=
  match get_by_verid c v with
  | None => (c, t)
  | Some r =>
      let bv := bk_ver (r_bk r) in
      if negb (req =? 0) && (req <? bv) then (c, t)
      else if bv <? latest then
        match load_by_id pd budget t (fst (fst v)) with
        | (Ok lr, t1) => (snd (insert_new c lr), t1)
        | (Err _, t1) => (c, t1)
        end
      else (c, t)
  end.

(* Store.reResolve on one store, as the periodic store check runs it: when PD reports the store removed / tombstone its
   fail-epoch is bumped (every cached region that recorded the old epoch is stale from now on) and it loses its address *)
Definition re_resolve (c : cache) (st : N) (removed : bool) : cache :=
  if removed then
    mkCache (c_sorted c) (c_regions c) (c_latest c) (se_set st (store_epoch (c_sepochs c) st + 1) (c_sepochs c))
            (if existsb (N.eqb st) (c_tomb c) then c_tomb c else st :: c_tomb c)
  else c.
